(* C10: the two places where the full-strength statement is FALSE of the faithful matcher model - each with a witness
   evaluated inside Coq.  The witnesses (model/C10_Findings.v, trees as CaitNode builds them) are the recorded findings
   expr-statement-paired-with-other-statement  and  placeholder-bound-in-two-tables ; the same programs and patterns are run
   through the real find_matches on every check (FIXED cases of tools/props/c10.py) and compared with the model. *)
From Coq Require Import List String Bool Arith ZArith.
Import ListNotations.
From Pedal Require Import model.C10_Cait model.C10_Run model.C10_Findings.
Open Scope string_scope.
Open Scope list_scope.

Fixpoint kind_at (n : nat) (t : tree) : option string :=
  match t with
  | Node i k _ _ kids =>
      if Nat.eqb i n then Some k else
      (fix go (l : list tree) : option string :=
         match l with
         | [] => None
         | c :: r => match kind_at n c with Some k' => Some k' | None => go r end
         end) kids
  end.

(* "a pattern node is only ever paired with a student node of the same kind" is false: the expression statement  foo()  of
   the pattern  a = 1 / foo()  is paired with the ASSIGNMENT  y = foo()  of the program *)
Theorem same_kind_pairing_refuted :
  exists m pi si, In m (find_matches f1_pattern f1_student) /\ In (pi, si) (pairs m) /\
                  kind_at pi f1_pattern = Some "Expr" /\ kind_at si f1_student = Some "Assign".
Proof.
  exists (hd (mkMap [] [] []) (find_matches f1_pattern f1_student)), 5, 5.
  vm_compute. repeat split; auto 10.
Qed.

(* "a placeholder stands for one identifier" is false across tables:  _f_(_f_)  matches  print(x)  with _f_ bound to the
   function print AND to the variable x *)
Theorem one_identifier_per_placeholder_refuted :
  exists m, In m (find_matches f2_pattern f2_student) /\
            In (TFunc, "_f_", "print") (syms m) /\ In (TVar, "_f_", "x") (syms m).
Proof.
  exists (hd (mkMap [] [] []) (find_matches f2_pattern f2_student)).
  vm_compute. repeat split; auto 10.
Qed.

(* the model returns on the witnesses exactly what the implementation returned when they were generated *)
Example findings_model_is_the_implementation :
  check_case (f1_student, [(f1_pattern, f1_expected)]) = true /\ check_case (f2_student, [(f2_pattern, f2_expected)]) = true.
Proof. vm_compute. split; reflexivity. Qed.
