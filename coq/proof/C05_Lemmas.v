(* C05 / C04 proofs over the regenerated sandbox skeletons. *)
From Coq Require Import List Bool Arith Lia.
Import ListNotations.
From Pedal Require Import lib.ExnFlow model.C05_Effects gen.C05_Gen.

(* ---------------------------------------------------------------- finite path checks (complete enumeration) *)
Lemma execute_paths_balanced : forallb c05_ok (paths eff None gen_execute) = true.
Proof. vm_compute. reflexivity. Qed.
Lemma run_paths_balanced : forallb c05_ok (paths eff None gen_run) = true.
Proof. vm_compute. reflexivity. Qed.
Lemma call_paths_balanced : forallb c05_ok (paths eff None gen_call) = true.
Proof. vm_compute. reflexivity. Qed.
Lemma evaluate_paths_balanced : forallb c05_ok (paths eff None gen_evaluate) = true.
Proof. vm_compute. reflexivity. Qed.

Lemma execute_paths_contained : forallb c04_ok (paths eff None gen_execute) = true.
Proof. vm_compute. reflexivity. Qed.

(* ---------------------------------------------------------------- lifted to EVERY oracle *)
(* whatever student code raises (any BaseException class), whatever compile does, whichever branch is taken:
   after _execute returns OR propagates, patches/stdout stack/trace are as before *)
Theorem execute_restores : forall o, balanced (snd (exec eff o None gen_execute)) = true.
Proof. exact (forall_paths eff c05_ok gen_execute execute_paths_balanced). Qed.
Theorem run_restores : forall o, balanced (snd (exec eff o None gen_run)) = true.
Proof. exact (forall_paths eff c05_ok gen_run run_paths_balanced). Qed.
Theorem call_restores : forall o, balanced (snd (exec eff o None gen_call)) = true.
Proof. exact (forall_paths eff c05_ok gen_call call_paths_balanced). Qed.
Theorem evaluate_restores : forall o, balanced (snd (exec eff o None gen_evaluate)) = true.
Proof. exact (forall_paths eff c05_ok gen_evaluate evaluate_paths_balanced). Qed.

Theorem execute_contains : forall o, c04_ok (exec eff o None gen_execute) = true.
Proof. exact (forall_paths eff c04_ok gen_execute execute_paths_contained). Qed.

(* ---------------------------------------------------------------- from any depth, and over histories *)
Lemma eff_step_shift s k e s' :
  eff_step s e = Some s' -> eff_step (padd s k) e = Some (padd s' k).
Proof.
  destruct s as [p q r], k as [kp kq kr]. unfold eff_step, padd. cbn.
  destruct e; cbn; try (intros [= <-]; reflexivity).
  - destruct p; [discriminate|]. intros [= <-]. reflexivity.
  - destruct q; [discriminate|]. intros [= <-]. reflexivity.
  - destruct r; [discriminate|]. intros [= <-]. reflexivity.
Qed.

Lemma run_eff_shift t : forall s k s', run_eff s t = Some s' -> run_eff (padd s k) t = Some (padd s' k).
Proof.
  induction t as [|e t IH]; intros s k s'; cbn [run_eff]; [now intros [= <-]|].
  destruct (eff_step s e) as [s1|] eqn:E; [|discriminate].
  rewrite (eff_step_shift _ k _ _ E). apply IH.
Qed.

Lemma pstate_eqb_eq a b : pstate_eqb a b = true -> a = b.
Proof.
  destruct a, b. unfold pstate_eqb. cbn. intros H.
  apply andb_prop in H. destruct H as [H H3]. apply andb_prop in H. destruct H as [H1 H2].
  apply Nat.eqb_eq in H1, H2, H3. now subst.
Qed.

(* a balanced trace leaves ANY state exactly as it found it (nested executions, any history before it) *)
Theorem balanced_from_any_state t s : balanced t = true -> run_eff s t = Some s.
Proof.
  unfold balanced. destruct (run_eff p0 t) as [s'|] eqn:E; [|discriminate].
  intros H. apply pstate_eqb_eq in H. subst s'.
  pose proof (run_eff_shift t p0 s p0 E) as Hs.
  destruct s as [p q r]. unfold padd in Hs. cbn in Hs. exact Hs.
Qed.

Lemma run_eff_app t1 t2 s s1 : run_eff s t1 = Some s1 -> run_eff s (t1 ++ t2) = run_eff s1 t2.
Proof.
  revert s. induction t1 as [|e t1 IH]; intros s; cbn [run_eff app]; [now intros [= <-]|].
  destruct (eff_step s e); [apply IH|discriminate].
Qed.

(* any sequence of executions, each with its own oracle, leaves the state unchanged *)
Theorem restored_over_histories (g : stmt eff) :
  (forall o, balanced (snd (exec eff o None g)) = true) ->
  forall (os : list (oracle)) s,
    run_eff s (flat_map (fun o => snd (exec eff o None g)) os) = Some s.
Proof.
  intros Hb os. induction os as [|o os IH]; intros s; cbn [flat_map]; [reflexivity|].
  rewrite (run_eff_app _ _ s s); [apply IH|]. apply balanced_from_any_state, Hb.
Qed.

(* ---------------------------------------------------------------- time-outs *)
(* the abandoned thread's side: whatever happens there after termination, it touches nothing shared *)
Definition only_thread_local (t : list eff) : bool :=
  forallb (fun e => match e with ERestoreTrace | EStudentFinished => true | _ => false end) t.

(* a thread trace = what it did before being interrupted ++ what it does afterwards; before the interrupt it ran
   the prefix of gen_execute up to the student code: push stdout, start patches, set trace *)
Definition thread_prefix : list eff := [EPushStdout; EStartPatches; ESetTrace].

Definition terminated_ok (p : outcome * list eff) : bool :=
  let t := snd p in
  match t with
  | EPushStdout :: EStartPatches :: ESetTrace :: rest =>
      only_thread_local rest && Nat.eqb (count is_capture t) 0
  | _ => (* compile failed before the trace was set: nothing was traced *)
      match t with
      | EPushStdout :: EStartPatches :: rest => only_thread_local rest && Nat.eqb (count is_capture t) 0
      | _ => false
      end
  end.

Lemma terminated_paths_ok : forallb terminated_ok (paths eff None gen_execute_terminated) = true.
Proof. vm_compute. reflexivity. Qed.

Theorem terminated_thread_is_silent : forall o, terminated_ok (exec eff o None gen_execute_terminated) = true.
Proof. exact (forall_paths eff terminated_ok gen_execute_terminated terminated_paths_ok). Qed.

(* the caller's side: on TimeoutError it stops the patches, pops the stdout buffer, records exactly one capture *)
Definition timeout_handler_ok (p : outcome * list eff) : bool :=
  let '(o, t) := p in
  match o with
  | Raised _ => Nat.eqb (count is_capture t) 0 && Nat.eqb (length t) 0     (* an exception re-raised from the thread *)
  | _ => match t with
         | [] => true                                                     (* no timeout *)
         | _ => (* timeout path *)
             match run_eff (mkP 1 1 0) t with
             | Some s => pstate_eqb s p0 && Nat.eqb (count is_capture t) 1
             | None => false
             end
         end
  end.

Lemma timeout_paths_ok : forallb timeout_handler_ok (paths eff None gen_execute_with_timeout) = true.
Proof. vm_compute. reflexivity. Qed.

Theorem timeout_handler_restores : forall o, timeout_handler_ok (exec eff o None gen_execute_with_timeout) = true.
Proof. exact (forall_paths eff timeout_handler_ok gen_execute_with_timeout timeout_paths_ok). Qed.

(* ---------------------------------------------------------------- without trusting the recording code *)
(* _capture_exception builds the traceback and the feedback from student objects; the skeletons gen_*_rec let it raise any
   Exception.  Restoration does not depend on it: it has happened before the failure is recorded. *)
Lemma execute_rec_paths_balanced : forallb c05_ok (paths eff None gen_execute_rec) = true.
Proof. vm_compute. reflexivity. Qed.
Theorem execute_restores_even_if_recording_fails : forall o, balanced (snd (exec eff o None gen_execute_rec)) = true.
Proof. exact (forall_paths eff c05_ok gen_execute_rec execute_rec_paths_balanced). Qed.

Definition timeout_restored_ok (p : outcome * list eff) : bool :=
  match snd p with
  | [] => true                                   (* no timeout: the thread's own execution did the bookkeeping *)
  | t => match run_eff (mkP 1 1 0) t with Some s => pstate_eqb s p0 | None => false end
  end.
Lemma timeout_rec_paths_ok : forallb timeout_restored_ok (paths eff None gen_execute_with_timeout_rec) = true.
Proof. vm_compute. reflexivity. Qed.
Theorem timeout_handler_restores_even_if_recording_fails :
  forall o, timeout_restored_ok (exec eff o None gen_execute_with_timeout_rec) = true.
Proof. exact (forall_paths eff timeout_restored_ok gen_execute_with_timeout_rec timeout_rec_paths_ok). Qed.

(* the recording can really fail in these skeletons: there is a path that raises AFTER a capture was attempted *)
Example rec_has_failing_capture_path :
  existsb (fun p => match fst p with Raised _ => Nat.ltb 0 (length (snd p)) | _ => false end)
          (paths eff None gen_execute_with_timeout_rec) = true.
Proof. vm_compute. reflexivity. Qed.

(* non-vacuity: the skeleton really has a propagating BaseException path and a contained Exception path *)
Example execute_has_base_path :
  existsb (fun p => match fst p with Raised EBase => true | _ => false end) (paths eff None gen_execute) = true
  /\ existsb (fun p => match fst p with Returned => Nat.eqb (count is_capture (snd p)) 1 | _ => false end)
             (paths eff None gen_execute) = true
  /\ (6 <= length (paths eff None gen_execute))%nat.
Proof. vm_compute. repeat split; try reflexivity. repeat constructor. Qed.
