(* C15 proofs: by induction over ANY operation history. *)
From Coq Require Import ZArith List Bool Lia.
Import ListNotations.
From Pedal Require Import lib.PyStr model.C15_IO.
Open Scope Z_scope.

(* one execution *)
Lemma run_events_text evs q : fst (fst (run_events evs q)) = text_of evs.
Proof.
  revert q. induction evs as [|[s|p] evs IH]; intros q; cbn; [reflexivity| |].
  - specialize (IH q). destruct (run_events evs q) as [[t vs] q']. cbn in *. now rewrite IH.
  - destruct q as [|x q1]; [specialize (IH [])|specialize (IH q1)];
      destruct (run_events evs _) as [[t vs] q']; cbn in *; now rewrite IH.
Qed.

(* input() returns the queue in FIFO order, each element once, then the default *)
Lemma take_default_nil k : take_default k [] = repeat ZERO k.
Proof. induction k; cbn; [reflexivity|now rewrite IHk]. Qed.

Lemma run_events_inputs evs q :
  snd (fst (run_events evs q)) = take_default (n_inputs evs) q
  /\ snd (run_events evs q) = skipn (n_inputs evs) q.
Proof.
  revert q. induction evs as [|[s|p] evs IH]; intros q; cbn.
  - split; reflexivity.
  - specialize (IH q). destruct (run_events evs q) as [[t vs] q']. cbn in *. exact IH.
  - destruct q as [|x q1].
    + specialize (IH []). destruct (run_events evs []) as [[t vs] q']. cbn in *.
      destruct IH as [-> ->]. split; [reflexivity|]. now rewrite skipn_nil.
    + specialize (IH q1). destruct (run_events evs q1) as [[t vs] q']. cbn in *.
      destruct IH as [-> ->]. split; reflexivity.
Qed.

(* ---- the state machine from an arbitrary state ---- *)
Definition start_queue (s : st) (o : op) : list str :=
  match o with Exec (Some xs) _ => xs | _ => inputs s end.

Lemma step_exec s ins evs :
  step s (Exec ins evs) =
    let q0 := match ins with Some xs => xs | None => inputs s end in
    mkSt (raw s ++ text_of evs)
         (match text_of evs with [] => out s | _ => out s ++ lines_of (text_of evs) end)
         (skipn (n_inputs evs) q0)
         (ctxs s ++ [mkCtx (text_of evs) (take_default (n_inputs evs) q0)]).
Proof.
  cbn [step]. set (q0 := match ins with Some xs => xs | None => inputs s end).
  pose proof (run_events_text evs q0) as Ht. pose proof (run_events_inputs evs q0) as [Hv Hq].
  destruct (run_events evs q0) as [[t vs] q']. cbn in *. subst. reflexivity.
Qed.

(* generalised invariant: state after [ops] from [s], relative to the texts accumulated so far *)
Lemma run_from ops : forall s acc,
  raw s = concat acc -> out s = view_of acc ->
  let s' := fold_left step ops s in
  raw s' = concat (texts_since_clear ops acc) /\ out s' = view_of (texts_since_clear ops acc).
Proof.
  induction ops as [|o ops IH]; intros s acc Hr Ho; cbn [fold_left texts_since_clear].
  - split; assumption.
  - destruct o as [ins evs| |xs|xs| |].
    + apply IH; rewrite step_exec; cbn [raw out].
      * rewrite concat_app, Hr. cbn. now rewrite app_nil_r.
      * unfold view_of. rewrite flat_map_app. fold (view_of acc). rewrite Ho. cbn [flat_map].
        rewrite app_nil_r. destruct (text_of evs); [now rewrite app_nil_r|reflexivity].
    + apply IH; reflexivity.
    + apply IH; assumption.
    + apply IH; assumption.
    + apply IH; assumption.
    + apply IH; assumption.
Qed.

Theorem raw_is_concat ops : raw (run ops) = concat (texts_since_clear ops []).
Proof. apply (run_from ops init []); reflexivity. Qed.

Theorem lines_view_spec ops : out (run ops) = view_of (texts_since_clear ops []).
Proof. apply (run_from ops init []); reflexivity. Qed.

(* a silent execution changes neither view *)
Theorem silent_exec_adds_nothing s ins evs :
  text_of evs = [] -> raw (step s (Exec ins evs)) = raw s /\ out (step s (Exec ins evs)) = out s.
Proof. intros H. rewrite step_exec. cbn. rewrite H. now rewrite app_nil_r. Qed.

(* each execution's own record holds exactly its share, in order: the records are those of the executions since the history
   was last cleared (clear_context), oldest first - so the k-th execution since then is found at position k *)
Fixpoint ctx_texts (ops : list op) (acc : list str) : list str :=
  match ops with
  | [] => acc
  | Exec _ evs :: ops' => ctx_texts ops' (acc ++ [text_of evs])
  | ClearContext :: ops' => ctx_texts ops' []
  | _ :: ops' => ctx_texts ops' acc
  end.
Definition exec_texts (ops : list op) : list str := ctx_texts ops [].

Lemma ctxs_from ops : forall s,
  map c_output (ctxs (fold_left step ops s)) = ctx_texts ops (map c_output (ctxs s)).
Proof.
  induction ops as [|o ops IH]; intros s; cbn [fold_left ctx_texts].
  - reflexivity.
  - destruct o as [ins evs| |xs|xs| |]; rewrite IH.
    + rewrite step_exec. cbn [ctxs]. rewrite map_app. reflexivity.
    + reflexivity.
    + reflexivity.
    + reflexivity.
    + reflexivity.
    + reflexivity.
Qed.

Theorem ctx_has_its_share ops : map c_output (ctxs (run ops)) = exec_texts ops.
Proof. unfold run, exec_texts. now rewrite ctxs_from. Qed.

(* position = identity of a record: after any history, the record at position k is the k-th execution since the last
   clear_context *)
Theorem record_lookup_by_position ops k :
  nth_error (map c_output (ctxs (run ops))) k = nth_error (exec_texts ops) k.
Proof. now rewrite ctx_has_its_share. Qed.

(* the queue: what an execution's input() calls return, and what is left *)
Theorem inputs_fifo_once s ins evs :
  let q0 := match ins with Some xs => xs | None => inputs s end in
  let s' := step s (Exec ins evs) in
  inputs s' = skipn (n_inputs evs) q0 /\
  (exists c, last (ctxs s') c = mkCtx (text_of evs) (take_default (n_inputs evs) q0)).
Proof.
  cbn zeta. rewrite step_exec. cbn. split; [reflexivity|].
  exists (mkCtx [] []). now rewrite last_last.
Qed.

Theorem default_after_exhaustion k : take_default k [] = repeat ZERO k.
Proof. exact (take_default_nil k). Qed.

Lemma take_default_firstn k q : (k <= length q)%nat -> take_default k q = firstn k q.
Proof.
  revert q. induction k as [|k IH]; intros q H; [reflexivity|].
  destruct q as [|x q]; [cbn in H; lia|]. cbn. rewrite IH; [reflexivity|cbn in H; lia].
Qed.

(* queue operations *)
Theorem queue_ops s xs :
  inputs (step s (SetInput xs)) = xs /\ inputs (step s (QueueInput xs)) = inputs s ++ xs
  /\ inputs (step s ClearInput) = [] /\ inputs (step s ClearOutput) = inputs s
  /\ raw (step s ClearOutput) = [] /\ out (step s ClearOutput) = [].
Proof. cbn. repeat split; reflexivity. Qed.

(* nothing is reordered: the non-empty lines' characters of the view, joined, are a right-stripped image of raw:
   stated as: the view of one text, joined by newlines, is obtained from the text by stripping only whitespace *)
Lemma lines_of_single_nonempty t : lines_of t <> [].
Proof.
  unfold lines_of. destruct (split_nl (rstrip t)) eqn:E; [now destruct (split_nl_nonempty (rstrip t))|discriminate].
Qed.

(* non-vacuity: the history of the defect repaired by the fix: printing run, then a silent call *)
Definition A : str := [97].
Example ex_history :
  let ops := [Exec None [Write (A ++ [NL])]; Exec None []; Exec (Some [A]) [Input A; Input []; Write A]] in
  out (run ops) = [A; A; []; A] /\ raw (run ops) = A ++ [NL] ++ A ++ [NL] ++ [NL] ++ A
  /\ inputs (run ops) = [].
Proof. vm_compute. repeat split; reflexivity. Qed.
