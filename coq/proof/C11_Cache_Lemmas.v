(* C11 (history): what a CAIT search sees depends only on the text it is asked about. *)
From Coq Require Import List Bool.
Import ListNotations.
From Pedal Require Import model.C11_Cache.

Section Proofs.
  Variable code tree : Type.
  Variable code_eqb : code -> code -> bool.
  Hypothesis code_eqb_spec : forall a b, code_eqb a b = true <-> a = b.
  Variable parse : code -> option tree.
  Variable empty : tree.

  Notation state := (state code tree).
  Notation lookup := (lookup code tree code_eqb).
  Notation reparse := (reparse code tree code_eqb parse empty).
  Notation seen := (seen code tree).
  Notation code_of := (code_of code tree).

  (* the cache only holds genuine parses; the Source tool's tree is the parse of the submission *)
  Definition Inv (st : state) : Prop :=
    (forall c t, lookup c (cache _ _ st) = Some t -> parse c = Some t) /\
    (forall t, source_ast _ _ st = Some t -> parse (main_code _ _ st) = Some t).

  Lemma lookup_cons c k t l : lookup c ((k, t) :: l) = if code_eqb c k then Some t else lookup c l.
  Proof. reflexivity. Qed.

  Lemma inv_store st c t src : Inv st -> parse c = Some t -> src = source_ast _ _ st ->
    Inv (mkSt _ _ ((c, t) :: cache _ _ st) true (Some t) (main_code _ _ st) src).
  Proof.
    intros [Hc Hs] Hp ->. split; cbn.
    - intros c' t' H. destruct (code_eqb c' c) eqn:E.
      + apply code_eqb_spec in E. subst. inversion H; subst. exact Hp.
      + now apply Hc.
    - exact Hs.
  Qed.

  (* one call: the invariant is kept, and the search sees exactly the parse of the text asked about *)
  Theorem reparse_spec arg st :
    Inv st ->
    Inv (reparse arg st) /\
    seen (reparse arg st) = parse (code_of arg st) /\
    main_code _ _ (reparse arg st) = main_code _ _ st.
  Proof.
    intros HI. pose proof HI as [Hc Hs].
    destruct arg as [c|]; cbn [reparse code_of].
    - destruct (lookup c (cache _ _ st)) as [t|] eqn:L.
      + split; [split; cbn; assumption|]. split; [|reflexivity]. cbn. symmetry. now apply Hc.
      + unfold parse_and_store. destruct (parse c) as [t|] eqn:P.
        * split; [apply inv_store; [exact HI|exact P|reflexivity]|]. split; reflexivity.
        * split; [split; cbn; assumption|]. split; reflexivity.
    - destruct (lookup (main_code _ _ st) (cache _ _ st)) as [t|] eqn:L.
      + split; [split; cbn; assumption|]. split; [|reflexivity]. cbn. symmetry. now apply Hc.
      + destruct (source_ast _ _ st) as [t|] eqn:S.
        * pose proof (Hs _ eq_refl) as P.
          split; [apply inv_store; [exact HI|exact P|now rewrite S]|]. split; [|reflexivity]. cbn; rewrite ?P; reflexivity.
        * unfold parse_and_store. destruct (parse (main_code _ _ st)) as [t|] eqn:P.
          -- split; [apply inv_store; [exact HI|exact P|now rewrite S]|]. split; [|reflexivity]. cbn; rewrite ?P; reflexivity.
          -- split; [split; cbn; [exact Hc|intros t H; rewrite S in H; discriminate]|]. split; [|reflexivity]. cbn; rewrite ?P; reflexivity.
  Qed.

  (* any history of calls *)
  Definition run (args : list (option code)) (st : state) : state := fold_left (fun s a => reparse a s) args st.

  Lemma run_inv args : forall st, Inv st -> Inv (run args st) /\ main_code _ _ (run args st) = main_code _ _ st.
  Proof.
    induction args as [|a args IH]; intros st HI; [split; [exact HI|reflexivity]|].
    cbn [run fold_left]. destruct (reparse_spec a st HI) as (HI' & _ & Hm). destruct (IH _ HI') as [H1 H2]. split; [exact H1|]. unfold run in H2. now rewrite H2.
  Qed.

  (* history independence: after ANY earlier calls (texts that parse, texts that do not, repeated texts, the
     submission itself), a search sees the parse of the text it asks about - the same as on a fresh report *)
  Theorem seen_independent_of_history history arg st :
    Inv st ->
    seen (reparse arg (run history st)) = parse (code_of arg st).
  Proof.
    intros HI. destruct (run_inv history st HI) as [HI' Hm].
    destruct (reparse_spec arg (run history st) HI') as (_ & Hs & _). rewrite Hs.
    destruct arg; cbn [code_of]; [reflexivity|]. now rewrite Hm.
  Qed.

  (* a fresh report: nothing cached, the Source tool has not run *)
  Definition fresh (main : code) : state := mkSt _ _ [] true None main None.
  Lemma fresh_inv main : Inv (fresh main).
  Proof. split; cbn; [intros c t H; discriminate|intros t H; discriminate]. Qed.

  Corollary same_as_on_a_fresh_report history arg main :
    seen (reparse arg (run history (fresh main))) = seen (reparse arg (fresh main)).
  Proof.
    rewrite (seen_independent_of_history history arg (fresh main) (fresh_inv main)).
    destruct (reparse_spec arg (fresh main) (fresh_inv main)) as (_ & Hs & _). now rewrite Hs.
  Qed.
End Proofs.

(* non-vacuity: texts are numbers, even numbers parse (to themselves), odd ones do not *)
Definition ex_parse (c : nat) : option nat := if Nat.even c then Some c else None.
Example ex_history :
  seen nat nat (reparse nat nat Nat.eqb ex_parse 0 (Some 4)
       (run nat nat Nat.eqb ex_parse 0 [Some 4; Some 3; None; Some 4; Some 7] (fresh nat nat 2))) = Some 4 /\
  seen nat nat (reparse nat nat Nat.eqb ex_parse 0 (Some 3)
       (run nat nat Nat.eqb ex_parse 0 [Some 4; Some 3; None] (fresh nat nat 2))) = None.
Proof. vm_compute. split; reflexivity. Qed.
