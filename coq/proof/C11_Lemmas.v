(* C11 proofs: a pattern DERIVED from the student's own tree by the generalisation steps
     - keep a node as it is,
     - replace a sub-expression by ___ or by an __expr__ placeholder,
     - replace an expression statement by a ___ / __expr__ statement,
     - replace an identifier by the placeholder rho(identifier), rho injective,
     - drop children (sibling statements, arguments, ...) keeping the order of the rest,
   at any subset of positions and any depth, is matched, and the match binds every placeholder to what it replaced. *)
From Coq Require Import List String Bool Arith ZArith Lia.
Import ListNotations.
From Pedal Require Import model.C10_Cait proof.C10_Lemmas proof.C10_Spec.
Open Scope string_scope.
Open Scope list_scope.

(* ------------------------------------------------------------------ reflexivity of the field comparison *)
Lemma zip_ok_refl l : zip_ok l l = true.
Proof. induction l as [|[|p|] l IH]; cbn; auto. now rewrite prim_eqb_refl. Qed.

Lemma in_strs_false_or x ig : in_strs x ig = true \/ in_strs x ig = false.
Proof. destruct (in_strs x ig); auto. Qed.

Lemma field_ok_refl k ig f : field_ok k ig f f = true.
Proof.
  destruct f as [n v]. unfold field_ok. destruct v as [|x|xs].
  - destruct (_ && _); [|reflexivity]. rewrite String.eqb_refl, zip_ok_refl. cbn. apply orb_true_r.
  - destruct (in_strs n ig); [reflexivity|]. rewrite String.eqb_refl, zip_ok_refl, Nat.eqb_refl. cbn. now rewrite orb_true_r.
  - destruct (in_strs n ig); [reflexivity|]. rewrite String.eqb_refl, zip_ok_refl, Nat.eqb_refl. cbn. now rewrite orb_true_r.
Qed.

Lemma fields_ok_refl k ig fl : fields_ok k ig fl fl = true.
Proof. induction fl as [|f fl IH]; cbn; [reflexivity|]. now rewrite field_ok_refl, IH. Qed.

(* ------------------------------------------------------------------ the pattern node is the student node *)
(* same kind, same fields; the same parent field, or the pattern node is the (trimmed) root *)
Definition same_node (i t : tree) : Prop :=
  t_kind i = t_kind t /\ t_flds i = t_flds t /\ (t_field i = t_field t \/ t_field i = NONE_FIELD).

Lemma same_metas i t meta : (t_field i = t_field t \/ t_field i = NONE_FIELD) -> metas i t meta = true.
Proof.
  unfold metas. intros [H|H]; rewrite H.
  - rewrite String.eqb_refl. destruct meta; reflexivity.
  - cbn. now rewrite orb_true_r.
Qed.

Lemma main_same i t meta ig : same_node i t -> shallow_main i t meta ig = Some (pair_map i t).
Proof.
  intros (Hk & Hf & Hfd). unfold shallow_main. rewrite Hk, Hf, Nat.eqb_refl, String.eqb_refl, fields_ok_refl, (same_metas _ _ _ Hfd). reflexivity.
Qed.

(* the student's own identifiers do not look like placeholders *)
Definition plain_names (t : tree) : Prop :=
  (t_kind t = "Name" -> name_class t "id" = CPlain) /\
  (t_kind t = "Attribute" -> name_class t "attr" = CPlain) /\
  (t_kind t = "arg" -> name_class t "arg" = CPlain) /\
  (t_kind t = "FunctionDef" \/ t_kind t = "ClassDef" -> exists n, fld_str "name" (t_flds t) = Some n /\ classify n = CPlain).

Lemma handler_same i t idv meta : same_node i t -> name_class t idv = CPlain ->
  symbol_handler i t idv meta = Some (pair_map i t).
Proof.
  intros Hs Hc. unfold symbol_handler. destruct Hs as (Hk & Hf & Hfd). unfold name_class in Hc. rewrite Hf.
  destruct (fld_str idv (t_flds t)) as [n|]; [rewrite Hc|]; apply main_same; repeat split; auto.
Qed.

Lemma xdef_same i t meta ig tb : same_node i t ->
  (exists n, fld_str "name" (t_flds t) = Some n /\ classify n = CPlain) ->
  xdef i t meta ig tb = Some (pair_map i t).
Proof.
  intros Hs (n & Hn & Hc). unfold xdef. rewrite (main_same _ _ _ _ Hs). destruct Hs as (_ & Hf & _).
  rewrite Hf, Hn, Hc, String.eqb_refl. reflexivity.
Qed.

Lemma shallow_same i t meta : same_node i t -> plain_names t -> shallow i t meta = Some (pair_map i t).
Proof.
  intros Hs (Hn & Ha & Hg & Hd). pose proof Hs as (Hk & Hf & Hfd). unfold shallow. rewrite Hk.
  destruct (String.eqb (t_kind t) "Module") eqn:E0. { cbn. reflexivity. }
  destruct (String.eqb (t_kind t) "Pass" || String.eqb (t_kind t) "Expr") eqn:E1. { now rewrite (same_metas _ _ _ Hfd). }
  destruct (String.eqb (t_kind t) "Name") eqn:E2. { apply String.eqb_eq in E2. apply handler_same; auto. }
  destruct (String.eqb (t_kind t) "arg") eqn:E3. { apply String.eqb_eq in E3. apply handler_same; auto. }
  destruct (String.eqb (t_kind t) "Attribute") eqn:E4.
  { apply String.eqb_eq in E4. destruct (String.eqb (t_field i) "func" && negb (String.eqb (t_field t) "func")) eqn:E.
    - now apply main_same.
    - apply handler_same; auto. }
  destruct (String.eqb (t_kind t) "FunctionDef") eqn:E5. { apply String.eqb_eq in E5. apply xdef_same; auto. }
  destruct (String.eqb (t_kind t) "ClassDef") eqn:E6. { apply String.eqb_eq in E6. apply xdef_same; auto. }
  now apply main_same.
Qed.

(* ------------------------------------------------------------------ derivations *)
Definition name_node (i : tree) (n : string) : Prop :=
  t_kind i = "Name" /\ fld_str "id" (t_flds i) = Some n /\ Forall (fun c => t_field c = "ctx") (t_kids i).

Definition stmt_hole (i : tree) (n : string) : Prop :=
  t_kind i = "Expr" /\ exists v rest, t_kids i = v :: rest /\ t_kind v = "Name" /\ fld_str "id" (t_flds v) = Some n.

Definition field_rel (i t : tree) : Prop := t_field i = t_field t \/ t_field i = NONE_FIELD.

Section Derivation.
  Variable rho : string -> string.

  Inductive Der : tree -> tree -> amap -> Prop :=
  (* a sub-expression replaced by ___ *)
  | D_wild t i : name_node i "___" -> field_rel i t -> Der t i (pair_map i t)
  (* a sub-expression replaced by __n__ *)
  | D_exp t i n : name_node i n -> classify n = CExp -> field_rel i t ->
                  Der t i (mkMap [(t_id i, t_id t)] [] [(n, t_id t)])
  (* an identifier replaced by its placeholder *)
  | D_var t i x : t_kind t = "Name" -> fld_str "id" (t_flds t) = Some x ->
                  name_node i (rho x) -> classify (rho x) = CVar -> field_rel i t ->
                  Der t i (mkMap [(t_id i, t_id t)]
                                 [(if String.eqb (t_field t) "func" && negb (String.eqb (t_field i) NONE_FIELD) then TFunc else TVar, rho x, x)] [])
  (* a statement replaced by a ___ / __n__ statement *)
  | D_stmt_wild t i : stmt_hole i "___" -> field_rel i t -> Der t i (pair_map i t)
  | D_stmt_exp t i n : stmt_hole i n -> is_exp n = true -> field_rel i t ->
                       Der t i (mkMap [(t_id i, t_id t)] [] [(n, t_id t)])
  (* the node is kept; some children are dropped, the others derived, order kept *)
  | D_node t i m : same_node i t -> plain_names t -> is_stmt_hole i = false -> is_flex i = false ->
                   DerKids (t_kind i) (t_kids t) (t_kids i) (pair_map i t) 0 m ->
                   Der t i m
  (* a + or * node is kept with both operands *)
  | D_flex t i il iop ir tl top tr ml mr :
      same_node i t -> plain_names t -> is_flex i = true ->
      t_kids i = [il; iop; ir] -> t_kids t = [tl; top; tr] ->
      same_node iop top -> t_field iop = t_field top -> plain_names top ->
      Der tl il ml -> Der tr ir mr ->
      Der t i (mmerge (mmerge (mmerge (pair_map i t) (pair_map iop top)) ml) mr)
  with DerKids : string -> list tree -> list tree -> amap -> nat -> amap -> Prop :=
  | DK_nil ik sk acc lo : DerKids ik sk [] acc lo acc
  | DK_skip ik sk ic ics acc lo m : ignored_kid ik ic = true -> DerKids ik sk ics acc lo m -> DerKids ik sk (ic :: ics) acc lo m
  | DK_cons ik sk ic ics acc lo j sc mc m :
      ignored_kid ik ic = false -> lo <= j -> nth_error sk j = Some sc ->
      Der sc ic mc -> DerKids ik sk ics (mmerge acc mc) (S j) m ->
      DerKids ik sk (ic :: ics) acc lo m.

  Scheme Der_mut := Induction for Der Sort Prop
    with DerKids_mut := Induction for DerKids Sort Prop.

  (* every symbol entry of a derived map binds rho(x) to x *)
  Definition syms_ok (m : amap) : Prop := forall t k v, In (t, k, v) (syms m) -> k = rho v.

  Hypothesis rho_inj : forall x y, rho x = rho y -> x = y.

  Lemma syms_ok_noconflict m : syms_ok m -> conflictb m = false.
  Proof.
    intros H. unfold conflictb. destruct (existsb _ (syms m)) eqn:E; [|reflexivity].
    apply existsb_exists in E. destruct E as ([[t1 k1] v1] & H1 & E).
    apply existsb_exists in E. destruct E as ([[t2 k2] v2] & H2 & E).
    cbn in E. apply andb_prop in E. destruct E as [E Hv]. apply andb_prop in E. destruct E as [_ Hk].
    apply String.eqb_eq in Hk. subst k2. apply H in H1. apply H in H2. rewrite H1 in H2. apply rho_inj in H2. subst v2.
    rewrite String.eqb_refl in Hv. discriminate.
  Qed.

  Lemma syms_ok_merge a b : syms_ok a -> syms_ok b -> syms_ok (mmerge a b).
  Proof. intros Ha Hb t k v Hin. cbn in Hin. apply in_app_or in Hin. destruct Hin; eauto. Qed.

  Lemma syms_ok_nil m : syms m = [] -> syms_ok m.
  Proof. intros H t k v Hin. rewrite H in Hin. contradiction. Qed.

  Lemma name_node_kids_skipped meta i sk acc lo n : name_node i n -> Kids meta (t_kind i) sk (t_kids i) acc lo acc.
  Proof.
    intros (Hk & _ & Hc). rewrite Hk. induction (t_kids i) as [|c r IH]; [constructor|].
    inversion Hc; subst. apply K_skip; [|now apply IH]. unfold ignored_kid. cbn. now apply String.eqb_eq.
  Qed.

  Lemma name_node_not_hole i n s meta : name_node i n -> expr_hole i s meta = None /\ is_flex i = false.
  Proof. intros (Hk & _). unfold expr_hole, is_flex. rewrite Hk. auto. Qed.

  Lemma name_handler i n : name_node i n -> forall s meta, shallow i s meta = symbol_handler i s "id" meta.
  Proof. intros (Hk & _) s meta. unfold shallow. rewrite Hk. reflexivity. Qed.

  Lemma stmt_hole_eval i n t meta : stmt_hole i n -> field_rel i t ->
    expr_hole i t meta = if is_exp n then Some [mkMap [(t_id i, t_id t)] [] [(n, t_id t)]]
                         else if is_wild n then Some [pair_map i t] else None.
  Proof.
    intros (Hk & v & rest & Hkids & Hkv & Hid) Hf. unfold expr_hole. rewrite Hk, (same_metas _ _ _ Hf), Hkids, Hkv, Hid. reflexivity.
  Qed.

  Lemma not_hole i t meta : is_stmt_hole i = false -> field_rel i t -> expr_hole i t meta = None.
  Proof.
    unfold is_stmt_hole, expr_hole. intros H Hf. destruct (String.eqb (t_kind i) "Expr"); [|reflexivity].
    rewrite (same_metas _ _ _ Hf). cbn in H. destruct (t_kids i) as [|v r]; [reflexivity|].
    destruct (String.eqb (t_kind v) "Name"); [|reflexivity]. cbn in H.
    destruct (fld_str "id" (t_flds v)); [|reflexivity]. apply orb_false_elim in H. destruct H as [-> ->]. reflexivity.
  Qed.

  (* the derived pattern embeds in the tree it was derived from, with the expected map, for both settings of
     check_meta *)
  Theorem der_emb : forall t i m, Der t i m -> forall meta, Emb meta i t m /\ syms_ok m.
  Proof.
    intros t i m H.
    induction H using Der_mut with
      (P0 := fun ik sk ics acc lo m (_ : DerKids ik sk ics acc lo m) =>
               forall meta, syms_ok acc -> Kids meta ik sk ics acc lo m /\ syms_ok m).
    - (* ___ *)
      intros meta. split; [|now apply syms_ok_nil].
      destruct (name_node_not_hole _ _ t meta n) as [Hh Hfx].
      eapply Emb_node; [exact Hh|exact Hfx| |eapply name_node_kids_skipped; exact n].
      rewrite (name_handler _ _ n). destruct n as (_ & Hid & _). unfold symbol_handler. rewrite Hid.
      change (classify "___") with CWild. cbv beta iota. now rewrite (same_metas _ _ _ f).
    - (* __n__ *)
      intros meta. split; [|now apply syms_ok_nil].
      destruct (name_node_not_hole _ _ t meta n0) as [Hh Hfx].
      eapply Emb_node; [exact Hh|exact Hfx| |eapply name_node_kids_skipped; exact n0].
      rewrite (name_handler _ _ n0). destruct n0 as (_ & Hid & _). unfold symbol_handler. rewrite Hid, e.
      cbv beta iota zeta. rewrite (same_metas _ _ _ f). reflexivity.
    - (* _v_ *)
      intros meta. split.
      + destruct (name_node_not_hole _ _ t meta n) as [Hh Hfx].
        eapply Emb_node; [exact Hh|exact Hfx| |eapply name_node_kids_skipped; exact n].
        rewrite (name_handler _ _ n). destruct n as (_ & Hid & _). unfold symbol_handler. rewrite Hid, e1.
        cbv beta iota zeta. rewrite (same_metas _ _ _ f), e, e0. cbn. reflexivity.
      + intros tb k v Hin. destruct Hin as [Hin|[]]. inversion Hin; subst. reflexivity.
    - (* ___ statement *)
      intros meta. split; [|now apply syms_ok_nil].
      eapply Emb_hole; [rewrite (stmt_hole_eval _ _ _ _ s f); reflexivity|left; reflexivity].
    - (* __n__ statement *)
      intros meta. split; [|now apply syms_ok_nil].
      eapply Emb_hole; [rewrite (stmt_hole_eval _ _ _ _ s f), e; reflexivity|left; reflexivity].
    - (* node kept *)
      intros meta. destruct s as (Hk & Hfl & Hfd).
      destruct (IHDer meta) as [HK Hs]; [now apply syms_ok_nil|]. split; [|exact Hs].
      eapply Emb_node; [now apply not_hole|assumption| |exact HK].
      apply shallow_same; [repeat split; auto|assumption].
    - (* + / * kept *)
      intros meta. destruct (IHDer1 false) as [El Sl]. destruct (IHDer2 false) as [Er Sr].
      assert (Hso : syms_ok (mmerge (mmerge (mmerge (pair_map i t) (pair_map iop top)) ml) mr)).
      { repeat apply syms_ok_merge; auto; now apply syms_ok_nil. }
      split; [|exact Hso].
      destruct s as (Hk & Hfl & Hfd).
      eapply (Emb_flex meta i t (pair_map i t) (pair_map iop top) il iop ir tl top tr ml mr false); eauto.
      + apply not_hole; [|exact Hfd]. unfold is_stmt_hole. unfold is_flex in e. apply andb_prop in e. destruct e as [e _].
        apply String.eqb_eq in e. rewrite e. reflexivity.
      + apply shallow_same; [repeat split; auto|assumption].
      + apply shallow_same; assumption.
      + now apply syms_ok_noconflict.
    - intros meta Ha. split; [constructor|exact Ha].
    - intros meta Ha. destruct (IHDer meta Ha) as [HK Hs]. split; [now apply K_skip|exact Hs].
    - intros meta Ha. destruct (IHDer meta) as [He Hm].
      assert (Hacc : syms_ok (mmerge acc mc)) by now apply syms_ok_merge.
      destruct (IHDer0 meta Hacc) as [HK Hs]. split; [|exact Hs].
      eapply K_cons; eauto. now apply syms_ok_noconflict.
  Qed.
End Derivation.

(* find_matches returns the expected match for every derived pattern, wherever in the program it was taken from *)
Theorem derived_pattern_matches rho pattern student t m :
  (forall x y, rho x = rho y -> x = y) ->
  Subtree t (trim_root student) ->
  Der rho t (trim_root pattern) m ->
  In m (find_matches pattern student).
Proof.
  intros Hinj Hsub HD. apply find_matches_spec. exists t. split; [exact Hsub|].
  now apply (der_emb rho Hinj t _ m HD true).
Qed.

(* what the expected match binds: a placeholder rho(x) is bound to x only *)
Theorem derived_binding rho t i m :
  (forall x y, rho x = rho y -> x = y) -> Der rho t i m ->
  forall tb k v, In (tb, k, v) (syms m) -> k = rho v.
Proof. intros Hinj HD. now apply (der_emb rho Hinj t i m HD true). Qed.

(* ------------------------------------------------------------------ non-vacuity: a concrete derivation *)
From Pedal Require Import model.C10_Examples.

Definition rho_us (x : string) : string := String us (String.append x "_").

Lemma append_us_inj : forall x y, String.append x "_" = String.append y "_" -> x = y.
Proof.
  induction x as [|c x IH]; destruct y as [|d y]; cbn; intros H; try reflexivity.
  - inversion H as [[Hc Hy]]. destruct y; discriminate.
  - inversion H as [[Hc Hx]]. destruct x; discriminate.
  - inversion H; subst. f_equal. now apply IH.
Qed.

Lemma rho_us_inj x y : rho_us x = rho_us y -> x = y.
Proof. unfold rho_us. intros H. inversion H. now apply append_us_inj. Qed.

(* x = 1  generalised to  _x_ = ___ *)
Example ex5_derivation :
  Der rho_us (trim_root ex5_student) (trim_root ex5_pattern)
      (mkMap [(1, 1); (2, 2); (4, 4)] [(TVar, "_x_", "x")] []).
Proof.
  eapply D_node.
  - repeat split; auto.
  - repeat split; try discriminate. intros [H|H]; discriminate.
  - reflexivity.
  - reflexivity.
  - cbn [trim_root trim ex5_student ex5_pattern t_kids t_kind set_field].
    eapply DK_cons with (j := 0); [reflexivity|lia|reflexivity| |].
    + apply (D_var rho_us _ _ "x"); try reflexivity.
      * repeat split. repeat constructor.
      * left. reflexivity.
    + eapply DK_cons with (j := 1); [reflexivity|lia|reflexivity| |].
      * apply D_wild; [repeat split; repeat constructor|left; reflexivity].
      * apply DK_nil.
Qed.

Example ex5_found : In (mkMap [(1, 1); (2, 2); (4, 4)] [(TVar, "_x_", "x")] []) (find_matches ex5_pattern ex5_student).
Proof.
  eapply (derived_pattern_matches rho_us); [exact rho_us_inj|apply Sub_refl|exact ex5_derivation].
Qed.

(* the program itself (ex_pattern3) and a generalisation with a dropped loop (ex_pattern4) are found as well *)
Example ex_self_and_dropped :
  List.length (find_matches ex_pattern3 ex_student) = 1 /\ List.length (find_matches ex_pattern4 ex_student) = 1.
Proof. vm_compute. split; reflexivity. Qed.

(* the expression placeholders of the expected match are bound to nodes of the tree the pattern was derived from *)
Definition in_kids (sk : list tree) (x : nat) : Prop := exists sc t', In sc sk /\ Subtree t' sc /\ x = t_id t'.

Lemma subtree_of_kid t sc t' : In sc (t_kids t) -> Subtree t' sc -> Subtree t' t.
Proof. destruct t as [id k f fl ks]. cbn. intros Hin Hs. eapply Sub_kid; eassumption. Qed.

Theorem derived_exps rho t i m : Der rho t i m ->
  forall n x, In (n, x) (exps m) -> exists t', Subtree t' t /\ x = t_id t'.
Proof.
  intros H.
  induction H using Der_mut with
    (P0 := fun ik sk ics acc lo m (_ : DerKids rho ik sk ics acc lo m) =>
             (forall n x, In (n, x) (exps acc) -> in_kids sk x) -> forall n x, In (n, x) (exps m) -> in_kids sk x).
  - intros n0 x [].
  - intros n1 x [Hin|[]]. inversion Hin; subst. exists t. split; [apply Sub_refl|reflexivity].
  - intros n0 x0 [].
  - intros n0 x [].
  - intros n0 x [Hin|[]]. inversion Hin; subst. exists t. split; [apply Sub_refl|reflexivity].
  - intros n x Hin. destruct (IHDer (fun n x (H : In (n, x) []) => match H with end) n x Hin) as (sc & t' & Hsc & Hsub & ->).
    exists t'. split; [|reflexivity]. eapply subtree_of_kid; eassumption.
  - intros n x Hin. cbn in Hin.
    assert (Hkl : In tl (t_kids t)) by (match goal with H : t_kids t = _ |- _ => rewrite H end; left; reflexivity).
    assert (Hkr : In tr (t_kids t)) by (match goal with H : t_kids t = _ |- _ => rewrite H end; right; right; left; reflexivity).
    apply in_app_or in Hin. destruct Hin as [Hin|Hin].
    + destruct (IHDer1 _ _ Hin) as (t' & Hs & ->). exists t'. split; [|reflexivity]. exact (subtree_of_kid _ _ _ Hkl Hs).
    + destruct (IHDer2 _ _ Hin) as (t' & Hs & ->). exists t'. split; [|reflexivity]. exact (subtree_of_kid _ _ _ Hkr Hs).
  - auto.
  - auto.
  - intros Hacc. apply IHDer0. intros n x Hin. cbn in Hin. apply in_app_or in Hin. destruct Hin as [Hin|Hin]; [eapply Hacc; eassumption|].
    destruct (IHDer _ _ Hin) as (t' & Hs & ->). exists sc, t'. split; [|auto]. match goal with H : nth_error sk ?j = Some sc |- _ => exact (nth_error_In _ _ H) end.
Qed.
