(* C10, last clause: a pattern whose concrete content occurs nowhere in the program yields no match.
   [required i]: the literal / identifier content of the pattern that has to be found - every primitive of a plain
   value field (a single value or a list of plain values, not ignored for the node's kind, not an absent optional
   field) of every concrete node outside statement holes and outside the ignored ctx of names.
   [tree_prims s]: every primitive anywhere in the student tree.  If the pattern embeds, required ⊆ tree_prims. *)
From Coq Require Import List String Bool Arith ZArith Lia.
Import ListNotations.
From Pedal Require Import model.C10_Cait proof.C10_Lemmas proof.C10_Spec.
Open Scope string_scope.
Open Scope list_scope.

Definition pv_prims (v : pv) : list prim := match v with PPrim p => [p] | _ => [] end.
Definition field_prims (f : string * fval) : list prim := flat_map pv_prims (as_list (snd f)).

Fixpoint tree_prims (t : tree) : list prim :=
  match t with
  | Node _ _ _ fl ks => flat_map field_prims fl ++ flat_map tree_prims ks
  end.

Definition plain_field (ikind : string) (f : string * fval) : bool :=
  carries_content ikind (allowed_ignores ikind) f &&
  match snd f with FvNone => false | _ => true end &&
  forallb is_prim (as_list (snd f)).

Definition node_required (i : tree) : list prim :=
  if loose i || var_placeholder i then []
  else flat_map (fun f => if plain_field (t_kind i) f then field_prims f else []) (t_flds i).

Fixpoint required (i : tree) : list prim :=
  match i with
  | Node id k f fl ks =>
      if is_stmt_hole (Node id k f fl ks) then []
      else if is_flex (Node id k f fl ks) then
        match ks with
        | [il; iop; ir] => node_required (Node id k f fl ks) ++ required il ++ node_required iop ++ required ir
        | _ => []
        end
      else node_required (Node id k f fl ks) ++
           flat_map (fun c => if ignored_kid k c then [] else required c) ks
  end.

Lemma required_unfold i :
  required i = if is_stmt_hole i then []
               else if is_flex i then
                 match t_kids i with
                 | [il; iop; ir] => node_required i ++ required il ++ node_required iop ++ required ir
                 | _ => []
                 end
               else node_required i ++ flat_map (fun c => if ignored_kid (t_kind i) c then [] else required c) (t_kids i).
Proof. destruct i; reflexivity. Qed.

Lemma tree_prims_unfold t : tree_prims t = flat_map field_prims (t_flds t) ++ flat_map tree_prims (t_kids t).
Proof. destruct t; reflexivity. Qed.

(* ------------------------------------------------------------------ one field *)
Lemma in_strs_incl x ig ig' : incl ig ig' -> in_strs x ig = true -> in_strs x ig' = true.
Proof.
  unfold in_strs. intros Hi H. apply existsb_exists in H. destruct H as (y & Hy & E).
  apply existsb_exists. exists y. split; [now apply Hi|exact E].
Qed.

Lemma carries_incl k ig ig' f : incl ig ig' -> carries_content k ig' f = true -> carries_content k ig f = true.
Proof.
  unfold carries_content. intros Hi H. apply andb_prop in H. destruct H as [H1 H2]. rewrite H2, andb_true_r.
  apply negb_true_iff in H1. apply negb_true_iff. destruct (in_strs (fst f) ig) eqn:E; [|reflexivity].
  rewrite (in_strs_incl _ _ _ Hi E) in H1. discriminate.
Qed.

Lemma all_prim_positions : forall l p, forallb is_prim l = true -> In p (flat_map pv_prims l) ->
  exists j, nth_error l j = Some (PPrim p).
Proof.
  induction l as [|v l IH]; intros p Ha Hin; [contradiction|].
  cbn in Ha. apply andb_prop in Ha. destruct Ha as [Hv Ha]. cbn in Hin. apply in_app_or in Hin. destruct Hin as [Hin|Hin].
  - destruct v; try discriminate. destruct Hin as [<-|[]]. exists 0. reflexivity.
  - destruct (IH _ Ha Hin) as [j Hj]. exists (S j). exact Hj.
Qed.

Lemma nth_in_field_prims l j p : nth_error l j = Some (PPrim p) -> In p (flat_map pv_prims l).
Proof.
  revert j. induction l as [|v l IH]; intros j H; [destruct j; discriminate|].
  destruct j as [|j]; cbn in H |- *.
  - inversion H; subst. left. reflexivity.
  - apply in_or_app. right. eapply IH; eassumption.
Qed.

Lemma field_required_found k ig fi fs n f g p :
  incl ig (allowed_ignores k) ->
  fields_ok k ig fi fs = true -> nth_error fi n = Some f -> nth_error fs n = Some g ->
  plain_field k f = true -> In p (field_prims f) -> In p (field_prims g).
Proof.
  intros Hig Hf Hn Hg Hp Hin. unfold plain_field in Hp. apply andb_prop in Hp. destruct Hp as [Hp Hall].
  apply andb_prop in Hp. destruct Hp as [Hc Hnn].
  pose proof (carries_incl _ _ _ _ Hig Hc) as Hc'.
  destruct (content_equal _ _ _ _ _ _ _ Hf Hn Hg Hc') as (_ & Hz & Hl).
  unfold field_prims in *. destruct (all_prim_positions _ _ Hall Hin) as [j Hj].
  assert (Hne : as_list (snd f) <> []) by (intros E; rewrite E in Hj; destruct j; discriminate).
  assert (Hnone : snd f <> FvNone) by (destruct (snd f); [discriminate|discriminate|discriminate]).
  specialize (Hl Hall Hne Hnone).
  assert (Hlt : j < List.length (as_list (snd g))).
  { rewrite <- Hl. apply nth_error_Some. rewrite Hj. discriminate. }
  destruct (nth_error (as_list (snd g)) j) as [x|] eqn:Hx; [|apply nth_error_None in Hx; lia].
  rewrite (Hz _ _ _ Hj Hx) in Hx. eapply nth_in_field_prims; eassumption.
Qed.

(* ------------------------------------------------------------------ one node *)
Lemma node_required_found i s p : node_ok i s -> In p (node_required i) -> In p (flat_map field_prims (t_flds s)).
Proof.
  unfold node_required. intros Hok Hin.
  destruct (loose i) eqn:Hl; [contradiction|]. destruct (var_placeholder i) eqn:Hv; [contradiction|]. cbn [orb] in Hin.
  destruct Hok as [Hok|(Hk & [Hok|(ig & Hig & Hlen & Hf)])]; [congruence|congruence|].
  apply in_flat_map in Hin. destruct Hin as (f & Hfin & Hin).
  destruct (plain_field (t_kind i) f) eqn:Hp; [|contradiction].
  destruct (In_nth_error _ _ Hfin) as [n Hn].
  assert (Hlt : n < List.length (t_flds s)) by (rewrite <- Hlen; apply nth_error_Some; rewrite Hn; discriminate).
  destruct (nth_error (t_flds s) n) as [g|] eqn:Hg; [|apply nth_error_None in Hg; lia].
  apply in_flat_map. exists g. split; [eapply nth_error_In; eassumption|].
  eapply field_required_found; eassumption.
Qed.

(* ------------------------------------------------------------------ the whole pattern *)
Lemma in_tree_prims_kid s sc p : In sc (t_kids s) -> In p (tree_prims sc) -> In p (tree_prims s).
Proof.
  intros Hk Hp. rewrite tree_prims_unfold. apply in_or_app. right. apply in_flat_map. exists sc. auto.
Qed.

Lemma in_tree_prims_node s p : In p (flat_map field_prims (t_flds s)) -> In p (tree_prims s).
Proof. intros H. rewrite tree_prims_unfold. apply in_or_app. now left. Qed.

Theorem witness_has_the_content m i s : Wit m i s -> forall p, In p (required i) -> In p (tree_prims s).
Proof.
  intros H.
  induction H using Wit_mut with
    (P0 := fun ik sk ics lo (_ : WitKids m ik sk ics lo) =>
             forall p, In p (flat_map (fun c => if ignored_kid ik c then [] else required c) ics) ->
             exists sc, In sc sk /\ In p (tree_prims sc)).
  - (* statement hole: nothing required *)
    intros p Hp. rewrite required_unfold, e in Hp. contradiction.
  - (* + / * *)
    intros p Hp. rewrite required_unfold, e in Hp. destruct (is_stmt_hole i); [contradiction|]. rewrite e0 in Hp.
    assert (Hsl : In sl (t_kids s)) by (rewrite e1; left; reflexivity).
    assert (Hso : In sop (t_kids s)) by (rewrite e1; right; left; reflexivity).
    assert (Hsr : In sr (t_kids s)) by (rewrite e1; right; right; left; reflexivity).
    repeat (apply in_app_or in Hp; destruct Hp as [Hp|Hp]).
    + apply in_tree_prims_node. eapply node_required_found; eassumption.
    + specialize (IHWit1 _ Hp). destruct swap; [exact (in_tree_prims_kid _ _ _ Hsr IHWit1)|exact (in_tree_prims_kid _ _ _ Hsl IHWit1)].
    + eapply in_tree_prims_kid; [exact Hso|]. apply in_tree_prims_node. eapply node_required_found; eassumption.
    + specialize (IHWit2 _ Hp). destruct swap; [exact (in_tree_prims_kid _ _ _ Hsl IHWit2)|exact (in_tree_prims_kid _ _ _ Hsr IHWit2)].
  - intros p Hp. rewrite required_unfold, e in Hp. destruct (is_stmt_hole i); [contradiction|].
    apply in_app_or in Hp. destruct Hp as [Hp|Hp].
    + apply in_tree_prims_node. eapply node_required_found; eassumption.
    + destruct (IHWit _ Hp) as (sc & Hsc & Hin). eapply in_tree_prims_kid; eassumption.
  - intros p [].
  - intros p Hp. cbn [flat_map] in Hp. rewrite e in Hp. cbn [app] in Hp. now apply IHWit.
  - intros p Hp. cbn [flat_map] in Hp. apply in_app_or in Hp. destruct Hp as [Hp|Hp].
    + destruct (ignored_kid ik ic); [contradiction|]. exists sc. split; [eapply nth_error_In; eassumption|now apply IHWit].
    + now apply IHWit0.
Qed.

(* find_matches: a pattern with required content that occurs nowhere in the program has no match *)
Lemma subtree_prims s' s p : Subtree s' s -> In p (tree_prims s') -> In p (tree_prims s).
Proof.
  induction 1; intros Hp; [exact Hp|].
  rewrite tree_prims_unfold. cbn [t_kids]. apply in_or_app. right. apply in_flat_map. exists c. auto.
Qed.

Theorem no_match_without_the_content pattern student p :
  In p (required (trim_root pattern)) -> ~ In p (tree_prims (trim_root student)) ->
  find_matches pattern student = [].
Proof.
  intros Hreq Hno. destruct (find_matches pattern student) as [|m ms] eqn:E; [reflexivity|]. exfalso.
  assert (Hin : In m (find_matches pattern student)) by (rewrite E; left; reflexivity).
  apply find_matches_spec in Hin. destruct Hin as (s' & Hs & He). apply emb_witness in He.
  apply Hno. eapply subtree_prims; [exact Hs|]. eapply witness_has_the_content; eassumption.
Qed.

(* non-vacuity: the identifier "k" of  for k in xs: ...  is required by a pattern that spells it out *)
From Pedal Require Import model.C10_Examples.
Example ex_required : In (PrStr "t") (required (trim_root ex_pattern3)) /\ In (PrInt 0%Z) (required (trim_root ex_pattern3)) /\
                      ~ In (PrStr "zzq") (tree_prims (trim_root ex_student)).
Proof. vm_compute. repeat split; auto 20. intros H. repeat (destruct H as [H|H]; [discriminate|]). exact H. Qed.
