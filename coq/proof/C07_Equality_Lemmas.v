(* C07, equality: "equality honours the documented float tolerance and string normalisation INDEPENDENT OF ARGUMENT ORDER".
   Proved of the model of equality_test (model/C07_Equality.v) for values of any size and nesting built from scalars, lists,
   tuples, sets and frozensets; dicts are modelled and tied by the correspondence run but not covered by the theorem.
   The one-directional set comparison the code had before fix 5caf932 is refuted by a witness. *)
From Coq Require Import ZArith QArith Qabs List Bool Arith Lia.
Import ListNotations.
From Pedal Require Import model.C07_Equality.

(* ------------------------------------------------------------------ scalars *)
Lemma Qle_bool_compat d q1 q2 : q1 == q2 -> Qle_bool d q1 = Qle_bool d q2.
Proof.
  intros E. destruct (Qle_bool d q1) eqn:E1, (Qle_bool d q2) eqn:E2; try reflexivity.
  - apply Qle_bool_iff in E1. rewrite E in E1. apply Qle_bool_iff in E1. congruence.
  - apply Qle_bool_iff in E2. rewrite <- E in E2. apply Qle_bool_iff in E2. congruence.
Qed.

Lemma Qabs_minus_sym x y : Qabs (y - x) == Qabs (x - y).
Proof. rewrite <- (Qabs_opp (y - x)). apply Qabs_wd. ring. Qed.

Lemma Qeq_bool_sym x y : Qeq_bool x y = Qeq_bool y x.
Proof.
  destruct (Qeq_bool x y) eqn:E1, (Qeq_bool y x) eqn:E2; try reflexivity.
  - apply Qeq_bool_iff in E1. symmetry in E1. apply Qeq_bool_iff in E1. congruence.
  - apply Qeq_bool_iff in E2. symmetry in E2. apply Qeq_bool_iff in E2. congruence.
Qed.

Lemma speq_sym a e : speq a e = speq e a.
Proof.
  destruct a, e; cbn; try reflexivity; try apply Qeq_bool_sym; apply Nat.eqb_sym.
Qed.

Theorem sc_eq_sym exact delta a e : sc_eq exact delta a e = sc_eq exact delta e a.
Proof.
  unfold sc_eq. rewrite (orb_comm (is_floaty e && is_real a)).
  destruct ((is_floaty a && is_real e) || (is_floaty e && is_real a)) eqn:C.
  - destruct (qof a) as [x|], (qof e) as [y|]; try reflexivity.
    f_equal. apply Qle_bool_compat, Qabs_minus_sym.
  - destruct a, e; cbn; try reflexivity; try apply Qeq_bool_sym;
      destruct exact; apply Nat.eqb_sym.
Qed.

(* ------------------------------------------------------------------ sets: both directions are checked, so the relation on the
   elements need not even be symmetric *)
Theorem sets_eq_sym R x y : sets_eq R x y = sets_eq R y x.
Proof.
  unfold sets_eq. rewrite (Nat.eqb_sym (length x)).
  destruct (Nat.eqb (length y) (length x)); cbn [andb]; [apply andb_comm|reflexivity].
Qed.

(* the comparison as it was before the fix: only "every element of x has a partner in y" *)
Definition sets_eq_one_way (R : scalar -> scalar -> bool) (x y : list scalar) : bool :=
  Nat.eqb (length x) (length y) && forallb (fun a => contains R a y) x.

Theorem one_way_set_comparison_refuted :
  exists x y, sets_eq_one_way (sc_eq false (1 # 1000)) x y = true /\ sets_eq_one_way (sc_eq false (1 # 1000)) y x = false.
Proof.
  exists [SFloat 0; SFloat (5 # 10000)], [SFloat (4 # 10000); SFloat (2 # 1000)]. split; vm_compute; reflexivity.
Qed.

(* ------------------------------------------------------------------ values *)
Fixpoint dfree (v : val) : bool :=
  match v with
  | Sc _ | VSet _ | VFrozen _ => true
  | VList l | VTuple l => (fix all (l : list val) : bool := match l with [] => true | x :: r => dfree x && all r end) l
  | VDict _ => false
  end.

Section ValInd.
  Variable P : val -> Prop.
  Hypothesis Hsc : forall s, P (Sc s).
  Hypothesis Hlist : forall l, Forall P l -> P (VList l).
  Hypothesis Htuple : forall l, Forall P l -> P (VTuple l).
  Hypothesis Hset : forall l, P (VSet l).
  Hypothesis Hfrozen : forall l, P (VFrozen l).
  Hypothesis Hdict : forall l, Forall (fun kv => P (snd kv)) l -> P (VDict l).

  Fixpoint val_ind' (v : val) : P v :=
    match v with
    | Sc s => Hsc s
    | VList l => Hlist l ((fix go (l : list val) : Forall P l :=
                             match l with [] => Forall_nil _ | x :: r => Forall_cons _ (val_ind' x) (go r) end) l)
    | VTuple l => Htuple l ((fix go (l : list val) : Forall P l :=
                               match l with [] => Forall_nil _ | x :: r => Forall_cons _ (val_ind' x) (go r) end) l)
    | VSet l => Hset l
    | VFrozen l => Hfrozen l
    | VDict l => Hdict l ((fix go (l : list (scalar * val)) : Forall (fun kv => P (snd kv)) l :=
                             match l with [] => Forall_nil _ | kv :: r => Forall_cons _ (val_ind' (snd kv)) (go r) end) l)
    end.
End ValInd.

(* the element-wise loops of the model, named *)
Fixpoint py_all (la le : list val) : bool :=
  match la, le with [], [] => true | x :: la', y :: le' => py_eq x y && py_all la' le' | _, _ => false end.
Fixpoint eqt_all (flip exact : bool) (delta : Q) (la le : list val) : bool :=
  match la, le with [], [] => true | x :: la', y :: le' => eqt flip exact delta x y && eqt_all flip exact delta la' le' | _, _ => false end.

Lemma py_eq_list la le : py_eq (VList la) (VList le) = py_all la le.
Proof. cbn [py_eq]. revert le. induction la as [|x la IH]; intros [|y le]; cbn; try reflexivity; try (now rewrite IH). Qed.
Lemma py_eq_tuple la le : py_eq (VTuple la) (VTuple le) = py_all la le.
Proof. cbn [py_eq]. revert le. induction la as [|x la IH]; intros [|y le]; cbn; try reflexivity; try (now rewrite IH). Qed.

Lemma eqt_list f ex d la le :
  eqt f ex d (VList la) (VList le) = (if f then py_eq (VList le) (VList la) else py_eq (VList la) (VList le)) || eqt_all f ex d la le.
Proof.
  cbn [eqt]. f_equal. revert le. induction la as [|x la IH]; intros [|y le]; cbn; try reflexivity; try (now rewrite IH).
Qed.
Lemma eqt_tuple f ex d la le :
  eqt f ex d (VTuple la) (VTuple le) = (if f then py_eq (VTuple le) (VTuple la) else py_eq (VTuple la) (VTuple le)) || eqt_all f ex d la le.
Proof.
  cbn [eqt]. f_equal. revert le. induction la as [|x la IH]; intros [|y le]; cbn; try reflexivity; try (now rewrite IH).
Qed.

Lemma dfree_list l : dfree (VList l) = forallb dfree l.
Proof. cbn [dfree]. induction l as [|x l IH]; cbn; [reflexivity|now rewrite IH]. Qed.
Lemma dfree_tuple l : dfree (VTuple l) = forallb dfree l.
Proof. cbn [dfree]. induction l as [|x l IH]; cbn; [reflexivity|now rewrite IH]. Qed.

Lemma py_all_sym la : Forall (fun x => forall e, py_eq x e = py_eq e x) la -> forall le, py_all la le = py_all le la.
Proof.
  induction 1 as [|x la Hx _ IH]; intros [|y le]; cbn; try reflexivity. now rewrite Hx, IH.
Qed.

(* Python's == is symmetric on these values *)
Theorem py_eq_sym a : dfree a = true -> forall e, dfree e = true -> py_eq a e = py_eq e a.
Proof.
  induction a as [s|l IH|l IH|l|l|l _] using val_ind'; intros Ha e He.
  - destruct e; cbn; try reflexivity. apply speq_sym.
  - destruct e as [s|l'|l'|l'|l'|l']; try reflexivity.
    rewrite !py_eq_list. rewrite dfree_list in Ha, He. revert l' He.
    induction IH as [|x l Hx _ IHl]; intros [|y l'] He; cbn; try reflexivity.
    cbn in Ha, He. apply andb_prop in Ha, He. destruct Ha as [Ha1 Ha2], He as [He1 He2].
    now rewrite (Hx Ha1 y He1), (IHl Ha2 l' He2).
  - destruct e as [s|l'|l'|l'|l'|l']; try reflexivity.
    rewrite !py_eq_tuple. rewrite dfree_tuple in Ha, He. revert l' He.
    induction IH as [|x l Hx _ IHl]; intros [|y l'] He; cbn; try reflexivity.
    cbn in Ha, He. apply andb_prop in Ha, He. destruct Ha as [Ha1 Ha2], He as [He1 He2].
    now rewrite (Hx Ha1 y He1), (IHl Ha2 l' He2).
  - destruct e; cbn; try reflexivity; apply sets_eq_sym.
  - destruct e; cbn; try reflexivity; apply sets_eq_sym.
  - discriminate.
Qed.

Lemma sc_eq'_sym f ex d x y : sc_eq' f ex d x y = sc_eq' f ex d y x.
Proof. unfold sc_eq'. destruct f; apply sc_eq_sym. Qed.
Lemma sets_eq'_sym f R x y : sets_eq' f R x y = sets_eq' f R y x.
Proof. unfold sets_eq'. destruct f; apply sets_eq_sym. Qed.

(* equality_test is independent of the order of its two operands - in either orientation the dict branch may call it *)
Theorem eqt_sym ex d a : dfree a = true -> forall f e, dfree e = true -> eqt f ex d a e = eqt f ex d e a.
Proof.
  induction a as [s|l IH|l IH|l|l|l _] using val_ind'; intros Ha f e He.
  - destruct e; cbn; try reflexivity. apply sc_eq'_sym.
  - destruct e as [s|l'|l'|l'|l'|l']; try reflexivity.
    rewrite !eqt_list.
    assert (Hp : py_eq (VList l) (VList l') = py_eq (VList l') (VList l)) by (apply py_eq_sym; assumption).
    replace (eqt_all f ex d l l') with (eqt_all f ex d l' l); [destruct f; now rewrite Hp|].
    rewrite dfree_list in Ha, He. clear Hp. revert l' He.
    induction IH as [|x l Hx _ IHl]; intros [|y l'] He; cbn; try reflexivity.
    cbn in Ha, He. apply andb_prop in Ha, He. destruct Ha as [Ha1 Ha2], He as [He1 He2].
    now rewrite (Hx Ha1 f y He1), (IHl Ha2 l' He2).
  - destruct e as [s|l'|l'|l'|l'|l']; try reflexivity.
    rewrite !eqt_tuple.
    assert (Hp : py_eq (VTuple l) (VTuple l') = py_eq (VTuple l') (VTuple l)) by (apply py_eq_sym; assumption).
    replace (eqt_all f ex d l l') with (eqt_all f ex d l' l); [destruct f; now rewrite Hp|].
    rewrite dfree_tuple in Ha, He. clear Hp. revert l' He.
    induction IH as [|x l Hx _ IHl]; intros [|y l'] He; cbn; try reflexivity.
    cbn in Ha, He. apply andb_prop in Ha, He. destruct Ha as [Ha1 Ha2], He as [He1 He2].
    now rewrite (Hx Ha1 f y He1), (IHl Ha2 l' He2).
  - destruct e as [s|l'|l'|l'|l'|l']; try reflexivity; cbn [eqt].
    + rewrite (sets_eq'_sym f _ l l'), (py_eq_sym (VSet l) eq_refl (VSet l') eq_refl). destruct f; reflexivity.
    + rewrite (py_eq_sym (VSet l) eq_refl (VFrozen l') eq_refl). destruct f; reflexivity.
  - destruct e as [s|l'|l'|l'|l'|l']; try reflexivity; cbn [eqt].
    + rewrite (py_eq_sym (VFrozen l) eq_refl (VSet l') eq_refl). destruct f; reflexivity.
    + rewrite (sets_eq'_sym f _ l l'), (py_eq_sym (VFrozen l) eq_refl (VFrozen l') eq_refl). destruct f; reflexivity.
  - discriminate.
Qed.

Theorem equality_is_order_independent exact delta a e :
  dfree a = true -> dfree e = true -> equality_test exact delta a e = equality_test exact delta e a.
Proof. intros Ha He. unfold equality_test. now apply eqt_sym. Qed.

(* non-vacuity: nested values that are equal only within the tolerance, in either order; and the former counterexample *)
Example ex_order :
  let a := VList [VSet [SFloat 1; SFloat 5]; VTuple [Sc (SInt 3); Sc (SStr 0 0)]] in
  let e := VList [VSet [SFloat (50004 # 10000); SFloat (10004 # 10000)]; VTuple [Sc (SFloat (30001 # 10000)); Sc (SStr 1 0)]] in
  dfree a = true /\ dfree e = true /\ equality_test false (1 # 1000) a e = true /\ equality_test false (1 # 1000) e a = true
  /\ equality_test true (1 # 1000) a e = false
  /\ equality_test false (1 # 1000) (VSet [SFloat 0; SFloat (5 # 10000)]) (VSet [SFloat (4 # 10000); SFloat (2 # 1000)]) = false.
Proof. vm_compute. repeat split; reflexivity. Qed.
