(* C07, equality: "equality honours the documented float tolerance and string normalisation INDEPENDENT OF ARGUMENT ORDER".
   Proved of the model of equality_test (model/C07_Equality.v) for values of any size and nesting built from scalars, lists,
   tuples, sets and frozensets; values that contain dicts are covered in C07_Equality_Dicts.v / C07_Equality_DictSym.v.
   The one-directional set comparison the code had before fix 5caf932 is refuted by a witness. *)
From Coq Require Import ZArith QArith Qabs List Bool Arith Lia.
Import ListNotations.
From Pedal Require Import model.C07_Equality.

(* ------------------------------------------------------------------ scalars *)
Lemma Qle_bool_compat d q1 q2 : q1 == q2 -> Qle_bool d q1 = Qle_bool d q2.
Proof.
  intros E. destruct (Qle_bool d q1) eqn:E1, (Qle_bool d q2) eqn:E2; try reflexivity.
  - apply Qle_bool_iff in E1. rewrite E in E1. apply Qle_bool_iff in E1. congruence.
  - apply Qle_bool_iff in E2. rewrite <- E in E2. apply Qle_bool_iff in E2. congruence.
Qed.

Lemma Qabs_minus_sym x y : Qabs (y - x) == Qabs (x - y).
Proof. rewrite <- (Qabs_opp (y - x)). apply Qabs_wd. ring. Qed.

Lemma Qeq_bool_sym x y : Qeq_bool x y = Qeq_bool y x.
Proof.
  destruct (Qeq_bool x y) eqn:E1, (Qeq_bool y x) eqn:E2; try reflexivity.
  - apply Qeq_bool_iff in E1. symmetry in E1. apply Qeq_bool_iff in E1. congruence.
  - apply Qeq_bool_iff in E2. symmetry in E2. apply Qeq_bool_iff in E2. congruence.
Qed.

Lemma speq_sym a e : speq a e = speq e a.
Proof.
  destruct a, e; cbn; try reflexivity; try apply Qeq_bool_sym; apply Nat.eqb_sym.
Qed.

Theorem sc_eq_sym exact delta a e : sc_eq exact delta a e = sc_eq exact delta e a.
Proof.
  unfold sc_eq. rewrite (orb_comm (is_floaty e && is_real a)).
  destruct ((is_floaty a && is_real e) || (is_floaty e && is_real a)) eqn:C.
  - destruct (qof a) as [x|], (qof e) as [y|]; try reflexivity.
    f_equal. apply Qle_bool_compat, Qabs_minus_sym.
  - destruct a, e; cbn; try reflexivity; try apply Qeq_bool_sym;
      destruct exact; apply Nat.eqb_sym.
Qed.

(* ------------------------------------------------------------------ sets: both directions are checked, so the relation on the
   elements need not even be symmetric *)
Theorem sets_eq_sym R x y : sets_eq R x y = sets_eq R y x.
Proof.
  unfold sets_eq. rewrite (Nat.eqb_sym (length x)).
  destruct (Nat.eqb (length y) (length x)); cbn [andb]; [apply andb_comm|reflexivity].
Qed.

(* the comparison as it was before the fix: only "every element of x has a partner in y" *)
Definition sets_eq_one_way (R : scalar -> scalar -> bool) (x y : list scalar) : bool :=
  Nat.eqb (length x) (length y) && forallb (fun a => contains R a y) x.

Theorem one_way_set_comparison_refuted :
  exists x y, sets_eq_one_way (sc_eq false (1 # 1000)) x y = true /\ sets_eq_one_way (sc_eq false (1 # 1000)) y x = false.
Proof.
  exists [SFloat 0; SFloat (5 # 10000)], [SFloat (4 # 10000); SFloat (2 # 1000)]. split; vm_compute; reflexivity.
Qed.

(* ------------------------------------------------------------------ values *)
Fixpoint dfree (v : val) : bool :=
  match v with
  | Sc _ | VSet _ | VFrozen _ => true
  | VList l | VTuple l => (fix all (l : list val) : bool := match l with [] => true | x :: r => dfree x && all r end) l
  | VDict _ => false
  end.

Section ValInd.
  Variable P : val -> Prop.
  Hypothesis Hsc : forall s, P (Sc s).
  Hypothesis Hlist : forall l, Forall P l -> P (VList l).
  Hypothesis Htuple : forall l, Forall P l -> P (VTuple l).
  Hypothesis Hset : forall l, P (VSet l).
  Hypothesis Hfrozen : forall l, P (VFrozen l).
  Hypothesis Hdict : forall l, Forall (fun kv => P (snd kv)) l -> P (VDict l).

  Fixpoint val_ind' (v : val) : P v :=
    match v with
    | Sc s => Hsc s
    | VList l => Hlist l ((fix go (l : list val) : Forall P l :=
                             match l with [] => Forall_nil _ | x :: r => Forall_cons _ (val_ind' x) (go r) end) l)
    | VTuple l => Htuple l ((fix go (l : list val) : Forall P l :=
                               match l with [] => Forall_nil _ | x :: r => Forall_cons _ (val_ind' x) (go r) end) l)
    | VSet l => Hset l
    | VFrozen l => Hfrozen l
    | VDict l => Hdict l ((fix go (l : list (scalar * val)) : Forall (fun kv => P (snd kv)) l :=
                             match l with [] => Forall_nil _ | kv :: r => Forall_cons _ (val_ind' (snd kv)) (go r) end) l)
    end.
End ValInd.

(* the element-wise loops of the model, named *)
Fixpoint py_all (la le : list val) : bool :=
  match la, le with [], [] => true | x :: la', y :: le' => py_eq x y && py_all la' le' | _, _ => false end.
Fixpoint eqt_all (flip exact : bool) (delta : Q) (la le : list val) : bool :=
  match la, le with [], [] => true | x :: la', y :: le' => eqt flip exact delta x y && eqt_all flip exact delta la' le' | _, _ => false end.

Lemma py_eq_list la le : py_eq (VList la) (VList le) = py_all la le.
Proof. cbn [py_eq]. revert le. induction la as [|x la IH]; intros [|y le]; cbn; try reflexivity; try (now rewrite IH). Qed.
Lemma py_eq_tuple la le : py_eq (VTuple la) (VTuple le) = py_all la le.
Proof. cbn [py_eq]. revert le. induction la as [|x la IH]; intros [|y le]; cbn; try reflexivity; try (now rewrite IH). Qed.

Lemma eqt_list f ex d la le :
  eqt f ex d (VList la) (VList le) = (if f then py_eq (VList le) (VList la) else py_eq (VList la) (VList le)) || eqt_all f ex d la le.
Proof.
  cbn [eqt]. f_equal. revert le. induction la as [|x la IH]; intros [|y le]; cbn; try reflexivity; try (now rewrite IH).
Qed.
Lemma eqt_tuple f ex d la le :
  eqt f ex d (VTuple la) (VTuple le) = (if f then py_eq (VTuple le) (VTuple la) else py_eq (VTuple la) (VTuple le)) || eqt_all f ex d la le.
Proof.
  cbn [eqt]. f_equal. revert le. induction la as [|x la IH]; intros [|y le]; cbn; try reflexivity; try (now rewrite IH).
Qed.

Lemma dfree_list l : dfree (VList l) = forallb dfree l.
Proof. cbn [dfree]. induction l as [|x l IH]; cbn; [reflexivity|now rewrite IH]. Qed.
Lemma dfree_tuple l : dfree (VTuple l) = forallb dfree l.
Proof. cbn [dfree]. induction l as [|x l IH]; cbn; [reflexivity|now rewrite IH]. Qed.

Lemma py_all_sym la : Forall (fun x => forall e, py_eq x e = py_eq e x) la -> forall le, py_all la le = py_all le la.
Proof.
  induction 1 as [|x la Hx _ IH]; intros [|y le]; cbn; try reflexivity. now rewrite Hx, IH.
Qed.

(* Python's == is symmetric on these values *)
Theorem py_eq_sym a : dfree a = true -> forall e, dfree e = true -> py_eq a e = py_eq e a.
Proof.
  induction a as [s|l IH|l IH|l|l|l _] using val_ind'; intros Ha e He.
  - destruct e; cbn; try reflexivity. apply speq_sym.
  - destruct e as [s|l'|l'|l'|l'|l']; try reflexivity.
    rewrite !py_eq_list. rewrite dfree_list in Ha, He. revert l' He.
    induction IH as [|x l Hx _ IHl]; intros [|y l'] He; cbn; try reflexivity.
    cbn in Ha, He. apply andb_prop in Ha, He. destruct Ha as [Ha1 Ha2], He as [He1 He2].
    now rewrite (Hx Ha1 y He1), (IHl Ha2 l' He2).
  - destruct e as [s|l'|l'|l'|l'|l']; try reflexivity.
    rewrite !py_eq_tuple. rewrite dfree_tuple in Ha, He. revert l' He.
    induction IH as [|x l Hx _ IHl]; intros [|y l'] He; cbn; try reflexivity.
    cbn in Ha, He. apply andb_prop in Ha, He. destruct Ha as [Ha1 Ha2], He as [He1 He2].
    now rewrite (Hx Ha1 y He1), (IHl Ha2 l' He2).
  - destruct e; cbn; try reflexivity; apply sets_eq_sym.
  - destruct e; cbn; try reflexivity; apply sets_eq_sym.
  - discriminate.
Qed.

Lemma sc_eq'_sym f ex d x y : sc_eq' f ex d x y = sc_eq' f ex d y x.
Proof. unfold sc_eq'. destruct f; apply sc_eq_sym. Qed.
Lemma sets_eq'_sym f R x y : sets_eq' f R x y = sets_eq' f R y x.
Proof. unfold sets_eq'. destruct f; apply sets_eq_sym. Qed.

(* equality_test is independent of the order of its two operands - in either orientation the dict branch may call it *)
Theorem eqt_sym ex d a : dfree a = true -> forall f e, dfree e = true -> eqt f ex d a e = eqt f ex d e a.
Proof.
  induction a as [s|l IH|l IH|l|l|l _] using val_ind'; intros Ha f e He.
  - destruct e; cbn; try reflexivity. apply sc_eq'_sym.
  - destruct e as [s|l'|l'|l'|l'|l']; try reflexivity.
    rewrite !eqt_list.
    assert (Hp : py_eq (VList l) (VList l') = py_eq (VList l') (VList l)) by (apply py_eq_sym; assumption).
    replace (eqt_all f ex d l l') with (eqt_all f ex d l' l); [destruct f; now rewrite Hp|].
    rewrite dfree_list in Ha, He. clear Hp. revert l' He.
    induction IH as [|x l Hx _ IHl]; intros [|y l'] He; cbn; try reflexivity.
    cbn in Ha, He. apply andb_prop in Ha, He. destruct Ha as [Ha1 Ha2], He as [He1 He2].
    now rewrite (Hx Ha1 f y He1), (IHl Ha2 l' He2).
  - destruct e as [s|l'|l'|l'|l'|l']; try reflexivity.
    rewrite !eqt_tuple.
    assert (Hp : py_eq (VTuple l) (VTuple l') = py_eq (VTuple l') (VTuple l)) by (apply py_eq_sym; assumption).
    replace (eqt_all f ex d l l') with (eqt_all f ex d l' l); [destruct f; now rewrite Hp|].
    rewrite dfree_tuple in Ha, He. clear Hp. revert l' He.
    induction IH as [|x l Hx _ IHl]; intros [|y l'] He; cbn; try reflexivity.
    cbn in Ha, He. apply andb_prop in Ha, He. destruct Ha as [Ha1 Ha2], He as [He1 He2].
    now rewrite (Hx Ha1 f y He1), (IHl Ha2 l' He2).
  - destruct e as [s|l'|l'|l'|l'|l']; try reflexivity; cbn [eqt].
    + rewrite (sets_eq'_sym f _ l l'), (py_eq_sym (VSet l) eq_refl (VSet l') eq_refl). destruct f; reflexivity.
    + rewrite (py_eq_sym (VSet l) eq_refl (VFrozen l') eq_refl). destruct f; reflexivity.
  - destruct e as [s|l'|l'|l'|l'|l']; try reflexivity; cbn [eqt].
    + rewrite (py_eq_sym (VFrozen l) eq_refl (VSet l') eq_refl). destruct f; reflexivity.
    + rewrite (sets_eq'_sym f _ l l'), (py_eq_sym (VFrozen l) eq_refl (VFrozen l') eq_refl). destruct f; reflexivity.
  - discriminate.
Qed.

Theorem equality_is_order_independent exact delta a e :
  dfree a = true -> dfree e = true -> equality_test exact delta a e = equality_test exact delta e a.
Proof. intros Ha He. unfold equality_test. now apply eqt_sym. Qed.

(* ------------------------------------------------------------------ the tolerance *)
(* two floats (or a float and an int / bool) are equal exactly when they differ by less than delta *)
Theorem float_tolerance_spec exact delta x y :
  sc_eq exact delta (SFloat x) (SFloat y) = negb (Qle_bool delta (Qabs (y - x))).
Proof. reflexivity. Qed.

Lemma sc_eq_mono exact d d' a e : d <= d' -> sc_eq exact d a e = true -> sc_eq exact d' a e = true.
Proof.
  intros Hd. unfold sc_eq. destruct ((is_floaty e && is_real a) || (is_floaty a && is_real e)); [|auto].
  destruct (qof a) as [x|], (qof e) as [y|]; auto.
  intros H. apply negb_true_iff in H. apply negb_true_iff.
  destruct (Qle_bool d' (Qabs (y - x))) eqn:E; [|reflexivity].
  apply Qle_bool_iff in E. assert (H2 : d <= Qabs (y - x)) by (eapply Qle_trans; eassumption).
  apply Qle_bool_iff in H2. congruence.
Qed.

Lemma existsb_mono {A} (f g : A -> bool) l : (forall x, f x = true -> g x = true) -> existsb f l = true -> existsb g l = true.
Proof.
  intros H. induction l as [|x l IH]; cbn; [auto|]. intros E. apply orb_prop in E. apply orb_true_iff.
  destruct E as [E|E]; [left; now apply H|right; now apply IH].
Qed.
Lemma forallb_mono {A} (f g : A -> bool) l : (forall x, f x = true -> g x = true) -> forallb f l = true -> forallb g l = true.
Proof.
  intros H. induction l as [|x l IH]; cbn; [auto|]. intros E. apply andb_prop in E. destruct E as [E1 E2].
  apply andb_true_iff. split; [now apply H|now apply IH].
Qed.

Lemma sets_eq_mono (R R' : scalar -> scalar -> bool) x y :
  (forall a b, R a b = true -> R' a b = true) -> sets_eq R x y = true -> sets_eq R' x y = true.
Proof.
  intros H. unfold sets_eq, contains. intros E. apply andb_prop in E. destruct E as [E E3]. apply andb_prop in E. destruct E as [E1 E2].
  rewrite E1. cbn [andb]. apply andb_true_iff. split.
  - eapply forallb_mono; [|exact E2]. intros a. apply existsb_mono. intros el. apply H.
  - eapply forallb_mono; [|exact E3]. intros a. apply existsb_mono. intros el. apply H.
Qed.

(* a larger tolerance never rejects what a smaller one accepts *)
Theorem eqt_mono ex d d' : d <= d' -> forall a, dfree a = true -> forall f e, eqt f ex d a e = true -> eqt f ex d' a e = true.
Proof.
  intros Hd a. induction a as [s|l IH|l IH|l|l|l _] using val_ind'; intros Ha f e.
  - destruct e; cbn; try discriminate. unfold sc_eq'. destruct f; apply sc_eq_mono; exact Hd.
  - destruct e as [s|l'|l'|l'|l'|l']; try (cbn; discriminate).
    rewrite !eqt_list. intros E. apply orb_prop in E. apply orb_true_iff. destruct E as [E|E]; [now left|right].
    rewrite dfree_list in Ha. revert l' E. induction IH as [|x l Hx _ IHl]; intros [|y l']; cbn; auto.
    cbn in Ha. apply andb_prop in Ha. destruct Ha as [Ha1 Ha2]. intros E. apply andb_prop in E. destruct E as [E1 E2].
    apply andb_true_iff. split; [now apply Hx|now apply IHl].
  - destruct e as [s|l'|l'|l'|l'|l']; try (cbn; discriminate).
    rewrite !eqt_tuple. intros E. apply orb_prop in E. apply orb_true_iff. destruct E as [E|E]; [now left|right].
    rewrite dfree_tuple in Ha. revert l' E. induction IH as [|x l Hx _ IHl]; intros [|y l']; cbn; auto.
    cbn in Ha. apply andb_prop in Ha. destruct Ha as [Ha1 Ha2]. intros E. apply andb_prop in E. destruct E as [E1 E2].
    apply andb_true_iff. split; [now apply Hx|now apply IHl].
  - destruct e as [s|l'|l'|l'|l'|l']; cbn [eqt]; try discriminate; [|auto].
    intros E. apply orb_prop in E. apply orb_true_iff. destruct E as [E|E]; [now left|right].
    unfold sets_eq' in *. destruct f; (eapply sets_eq_mono; [|exact E]); intros a b; apply sc_eq_mono; exact Hd.
  - destruct e as [s|l'|l'|l'|l'|l']; cbn [eqt]; try discriminate; [auto|].
    intros E. apply orb_prop in E. apply orb_true_iff. destruct E as [E|E]; [now left|right].
    unfold sets_eq' in *. destruct f; (eapply sets_eq_mono; [|exact E]); intros a b; apply sc_eq_mono; exact Hd.
  - discriminate.
Qed.

Theorem equality_monotone_in_the_tolerance exact d d' a e :
  d <= d' -> dfree a = true -> equality_test exact d a e = true -> equality_test exact d' a e = true.
Proof. intros Hd Ha. unfold equality_test. now apply eqt_mono. Qed.

(* ------------------------------------------------------------------ a value equals itself (NaN apart, as in Python) *)
Definition sc_nan_free (s : scalar) : bool := match s with SNaN => false | _ => true end.
Fixpoint nan_free (v : val) : bool :=
  match v with
  | Sc s => sc_nan_free s
  | VSet l | VFrozen l => forallb sc_nan_free l
  | VList l | VTuple l => (fix all (l : list val) : bool := match l with [] => true | x :: r => nan_free x && all r end) l
  | VDict _ => false
  end.
Lemma nan_free_list l : nan_free (VList l) = forallb nan_free l.
Proof. cbn [nan_free]. induction l as [|x l IH]; cbn; [reflexivity|now rewrite IH]. Qed.
Lemma nan_free_tuple l : nan_free (VTuple l) = forallb nan_free l.
Proof. cbn [nan_free]. induction l as [|x l IH]; cbn; [reflexivity|now rewrite IH]. Qed.

Lemma Qeq_bool_refl x : Qeq_bool x x = true.
Proof. apply Qeq_bool_iff. reflexivity. Qed.

Lemma speq_refl s : sc_nan_free s = true -> speq s s = true.
Proof. destruct s; cbn; intros H; try discriminate; try apply Qeq_bool_refl; try apply Nat.eqb_refl; reflexivity. Qed.

Lemma sc_eq_refl exact delta s : 0 < delta -> sc_nan_free s = true -> sc_eq exact delta s s = true.
Proof.
  intros Hd Hs. unfold sc_eq. destruct ((is_floaty s && is_real s) || (is_floaty s && is_real s)) eqn:C.
  - destruct s; try (cbn in C; discriminate); try (cbn in Hs; discriminate). cbn [qof].
    apply negb_true_iff. destruct (Qle_bool delta (Qabs (q - q))) eqn:E; [|reflexivity].
    apply Qle_bool_iff in E. assert (Z : Qabs (q - q) == 0) by (rewrite <- Qabs_wd with (x := 0); [reflexivity|ring]).
    rewrite Z in E. exfalso. apply (Qlt_not_le _ _ Hd E).
  - destruct s; try (cbn in C; discriminate); try (cbn in Hs; discriminate); cbn [speq qof]; try apply Qeq_bool_refl; try reflexivity;
      destruct exact; apply Nat.eqb_refl.
Qed.

Lemma sets_eq_refl R x : (forall a, In a x -> R a a = true) -> sets_eq R x x = true.
Proof.
  intros H. unfold sets_eq, contains. rewrite Nat.eqb_refl. cbn [andb].
  assert (A : forallb (fun a => existsb (fun el => R el a) x) x = true).
  { apply forallb_forall. intros a Ha. apply existsb_exists. exists a. split; [exact Ha|now apply H]. }
  now rewrite A.
Qed.

Theorem py_eq_refl a : dfree a = true -> nan_free a = true -> py_eq a a = true.
Proof.
  induction a as [s|l IH|l IH|l|l|l _] using val_ind'; intros Hd Hn.
  - cbn. now apply speq_refl.
  - rewrite py_eq_list. rewrite dfree_list in Hd. rewrite nan_free_list in Hn.
    induction IH as [|x l Hx _ IHl]; cbn; [reflexivity|]. cbn in Hd, Hn. apply andb_prop in Hd, Hn.
    destruct Hd as [Hd1 Hd2], Hn as [Hn1 Hn2]. now rewrite Hx, IHl.
  - rewrite py_eq_tuple. rewrite dfree_tuple in Hd. rewrite nan_free_tuple in Hn.
    induction IH as [|x l Hx _ IHl]; cbn; [reflexivity|]. cbn in Hd, Hn. apply andb_prop in Hd, Hn.
    destruct Hd as [Hd1 Hd2], Hn as [Hn1 Hn2]. now rewrite Hx, IHl.
  - cbn. apply sets_eq_refl. intros a Ha. apply speq_refl. cbn in Hn. rewrite forallb_forall in Hn. now apply Hn.
  - cbn. apply sets_eq_refl. intros a Ha. apply speq_refl. cbn in Hn. rewrite forallb_forall in Hn. now apply Hn.
  - discriminate.
Qed.

Theorem equality_reflexive exact delta a :
  0 < delta -> dfree a = true -> nan_free a = true -> equality_test exact delta a a = true.
Proof.
  intros Hdelta Hd Hn. unfold equality_test. destruct a as [s|l|l|l|l|l].
  - cbn. unfold sc_eq'. now apply sc_eq_refl.
  - rewrite eqt_list. now rewrite py_eq_refl.
  - rewrite eqt_tuple. now rewrite py_eq_refl.
  - cbn [eqt]. now rewrite py_eq_refl.
  - cbn [eqt]. now rewrite py_eq_refl.
  - discriminate.
Qed.

(* non-vacuity: nested values that are equal only within the tolerance, in either order; and the former counterexample *)
Example ex_order :
  let a := VList [VSet [SFloat 1; SFloat 5]; VTuple [Sc (SInt 3); Sc (SStr 0 0)]] in
  let e := VList [VSet [SFloat (50004 # 10000); SFloat (10004 # 10000)]; VTuple [Sc (SFloat (30001 # 10000)); Sc (SStr 1 0)]] in
  dfree a = true /\ dfree e = true /\ equality_test false (1 # 1000) a e = true /\ equality_test false (1 # 1000) e a = true
  /\ equality_test true (1 # 1000) a e = false
  /\ equality_test false (1 # 1000) (VSet [SFloat 0; SFloat (5 # 10000)]) (VSet [SFloat (4 # 10000); SFloat (2 # 1000)]) = false.
Proof. vm_compute. repeat split; reflexivity. Qed.
