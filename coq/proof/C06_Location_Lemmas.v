(* C04 / C06: the failure is located on the learner's own line whenever the learner's code is on the stack. *)
From Coq Require Import List Bool Arith Lia.
Import ListNotations.
From Pedal Require Import model.C06_Location.

Lemma find_rev_last {A} (p : A -> bool) pre f post :
  p f = true -> (forall g, In g post -> p g = false) -> find p (rev (pre ++ f :: post)) = Some f.
Proof.
  intros Hf Hpost. rewrite rev_app_distr. cbn [rev]. rewrite <- app_assoc. cbn [app].
  assert (N : forall l, (forall g, In g l -> p g = false) -> forall rest, find p (l ++ rest) = find p rest).
  { induction l as [|x l IH]; intros Hl rest; [reflexivity|]. cbn [app find]. rewrite (Hl x (or_introl eq_refl)).
    apply IH. intros g Hg. apply Hl. now right. }
  rewrite N.
  - cbn [find]. now rewrite Hf.
  - intros g Hg. apply Hpost. now apply in_rev.
Qed.

(* the innermost frame in a learner's file decides, whatever library frames lie below it *)
Theorem location_is_the_innermost_student_frame student offset pre f post :
  student (fst f) = true -> (forall g, In g post -> student (fst g) = false) ->
  location student offset None (pre ++ f :: post) = Some (snd f + offset (fst f)).
Proof.
  intros Hf Hpost. unfold location, chosen, innermost_student, frame in *.
  rewrite (find_rev_last (fun g => student (fst g)) pre f post Hf Hpost). reflexivity.
Qed.

(* ... so with learner code on the stack the location is never a line of another file *)
Theorem location_is_a_student_line_when_student_code_is_on_the_stack student offset frames :
  (exists f, In f frames /\ student (fst f) = true) ->
  exists f, In f frames /\ student (fst f) = true /\ location student offset None frames = Some (snd f + offset (fst f)).
Proof.
  intros (f0 & Hin & Hs). unfold location, chosen, innermost_student, frame in *.
  destruct (find (fun g => student (fst g)) (rev frames)) as [f|] eqn:E.
  - apply find_some in E. destruct E as [Hf Hsf]. exists f. split; [now apply in_rev|]. split; [exact Hsf|reflexivity].
  - exfalso. apply in_rev in Hin. pose proof (find_none _ _ E f0 Hin) as X. cbn in X. congruence.
Qed.

Lemma last_frame_cons x r : r <> [] -> last_frame (x :: r) = last_frame r.
Proof. destruct r; [congruence|reflexivity]. Qed.
Lemma last_frame_app pre f : last_frame (pre ++ [f]) = Some f.
Proof.
  induction pre as [|x pre IH]; [reflexivity|]. cbn [app]. rewrite last_frame_cons; [exact IH|]. destruct pre; discriminate.
Qed.

(* no learner frame at all (a failure inside the instructor's own call expression): the innermost frame of any file *)
Theorem location_without_student_frames student offset pre f :
  (forall g, In g (pre ++ [f]) -> student (fst g) = false) ->
  location student offset None (pre ++ [f]) = Some (snd f + offset (fst f)).
Proof.
  intros H. unfold location, chosen, innermost_student, frame in *.
  destruct (find (fun g => student (fst g)) (rev (pre ++ [f]))) as [g|] eqn:E.
  - apply find_some in E. destruct E as [Hg Hsg]. apply in_rev in Hg. rewrite (H g Hg) in Hsg. discriminate.
  - now rewrite last_frame_app.
Qed.

(* a learner's file that does not compile: the line the parser names, in whole-file numbering *)
Theorem location_of_a_syntax_error student offset s frames f :
  chosen student frames = Some f -> student (fst s) = true ->
  location student offset (Some s) frames = Some (snd s + offset (fst s)).
Proof. intros C Hs. unfold location. rewrite C, Hs. reflexivity. Qed.

(* the rule the code had before the repair is refuted:  random.choice([])  on line 3 of answer.py (file 0), raised on
   line 347 of random.py (file 1) *)
Theorem innermost_frame_of_any_file_refuted :
  exists frames, (exists f, In f frames /\ fst f = 0) /\
                 location_before (fun _ => 0) frames = Some 347 /\
                 location (fun file => Nat.eqb file 0) (fun _ => 0) None frames = Some 3.
Proof. exists [(2, 40); (0, 3); (1, 347)]. split; [exists (0, 3); split; [right; now left|reflexivity]|]. split; reflexivity. Qed.

(* non-vacuity: a call chain through two learner files and a library, with a section offset on the main file *)
Example ex_location :
  location (fun file => Nat.eqb file 0 || Nat.eqb file 3) (fun file => if Nat.eqb file 0 then 10 else 0) None
           [(2, 5); (0, 4); (3, 7); (0, 2); (1, 99); (1, 120)] = Some 12.
Proof. reflexivity. Qed.
