(* C12: "the feedback's line is the line CPython reports (shifted to whole-file numbering inside a section)".
   Over the arithmetic of syntax_error.__init__ regenerated on every run (gen/C12_Line_Gen.v): the line the parser names, or
   the first line when it names none, plus the offset of the file - in the field the message shows and in the location alike.
   (That the offset IS the number of lines before the section in the whole file is C17's theorem.) *)
From Coq Require Import Arith Lia.
From Pedal Require Import gen.C12_Line_Gen.

(* what syntax_error reports for a parser line (None: the parser names no line) under a file offset:
   (the 'lineno' field of the message, the line of the location) *)
Definition reported (parser_line : option nat) (off : nat) : nat * nat :=
  let l := match parser_line with Some l => l | None => gen_default_line end in
  (gen_lineno_field l off, gen_location_line l off).

Theorem reported_line_is_the_parsers_line_plus_offset l off : reported (Some l) off = (l + off, l + off).
Proof. reflexivity. Qed.

Theorem message_and_location_name_the_same_line pl off : fst (reported pl off) = snd (reported pl off).
Proof. reflexivity. Qed.

(* no line from the parser (a NUL character): the first line of the analysed text, i.e. line offset + 1 of the file - in
   particular a line of the submission, never a number from somewhere else *)
Theorem reported_line_without_a_parser_line off : reported None off = (1 + off, 1 + off).
Proof. reflexivity. Qed.

(* outside a section (no offset registered for the file) nothing is added *)
Theorem no_offset_by_default l : gen_offset_default = 0 /\ reported (Some l) gen_offset_default = (l, l).
Proof. split; [reflexivity|]. unfold reported, gen_lineno_field, gen_location_line, gen_offset_default. now rewrite Nat.add_0_r. Qed.

Example ex_reported : reported (Some 3) 6 = (9, 9) /\ reported None 6 = (7, 7).
Proof. split; reflexivity. Qed.
