(* C09, loops: no missed uninitialised read for `while`.
   TIFA analyses   while c: B   as   c; ( B; c | nothing )   - the body once, the condition read again, merged with
   the path that never enters (visit_While).  In the syntax of the model that is   If l rs (B ++ [Expr l rs]) [].
   A real execution runs the body any number of times:   U 0 = Expr l rs,   U (k+1) = If l rs (B ++ [U k]) [].
   Theorem: every read that is unassigned on some path of a program with loops unrolled ANY number of times is a
   read that is unassigned on some path of the once-unrolled program - at the same line, for the same variable -
   and therefore (tifa_exact_init) reported by TIFA. *)
From Coq Require Import List Bool Arith Lia.
Import ListNotations.
From Pedal Require Import model.C09_Tifa proof.C09_Lemmas.

(* [Rel n real analysed]: the same program, every loop unrolled n times on the left and once on the right *)
Inductive Rel (n : nat) : stmt -> stmt -> Prop :=
| R_assign l x rs : Rel n (Assign l x rs) (Assign l x rs)
| R_expr l rs : Rel n (Expr l rs) (Expr l rs)
| R_if l rs th el th1 el1 : RelB n th th1 -> RelB n el el1 -> Rel n (If l rs th el) (If l rs th1 el1)
| R_while l rs body body1 : RelB n body body1 -> Rel n (unroll l rs body n) (once l rs body1)
with RelB (n : nat) : block -> block -> Prop :=
| RB_nil : RelB n BNil BNil
| RB_cons s s1 b b1 : Rel n s s1 -> RelB n b b1 -> RelB n (BCons s b) (BCons s1 b1).

Scheme Rel_mut := Induction for Rel Sort Prop
  with RelB_mut := Induction for RelB Sort Prop.

(* ------------------------------------------------------------------ domination between sets of paths *)
(* every path on the left has at least the assignments of some path on the right *)
Definition covers (c c1 : cenv) : Prop := forall x, c_is_assigned c1 x = true -> c_is_assigned c x = true.
Definition dom (S S1 : list cenv) : Prop := forall c, In c S -> exists c1, In c1 S1 /\ covers c c1.

Lemma covers_refl c : covers c c.
Proof. intros x H. exact H. Qed.
Lemma covers_trans a b c : covers a b -> covers b c -> covers a c.
Proof. intros H1 H2 x H. apply H1, H2, H. Qed.
Lemma dom_refl S : dom S S.
Proof. intros c H. exists c. split; [exact H|apply covers_refl]. Qed.
Lemma dom_trans A B C : dom A B -> dom B C -> dom A C.
Proof.
  intros H1 H2 c Hc. destruct (H1 c Hc) as (b & Hb & Hcb). destruct (H2 b Hb) as (c1 & Hc1 & Hbc).
  exists c1. split; [exact Hc1|eapply covers_trans; eassumption].
Qed.
Lemma dom_app A B A1 B1 : dom A A1 -> dom B B1 -> dom (A ++ B) (A1 ++ B1).
Proof.
  intros H1 H2 c Hc. apply in_app_or in Hc. destruct Hc as [Hc|Hc].
  - destruct (H1 c Hc) as (c1 & Hi & Hv). exists c1. split; [apply in_or_app; now left|exact Hv].
  - destruct (H2 c Hc) as (c1 & Hi & Hv). exists c1. split; [apply in_or_app; now right|exact Hv].
Qed.
Lemma dom_incl_r A B B' : dom A B -> incl B B' -> dom A B'.
Proof. intros H Hi c Hc. destruct (H c Hc) as (c1 & H1 & Hv). exists c1. split; [now apply Hi|exact Hv]. Qed.

(* loads and stores act path by path and keep the order *)
Lemma assigned_load c y x : c_is_assigned (c_load c y) x = c_is_assigned c x.
Proof.
  unfold c_load, c_is_assigned, cupd. destruct (Nat.eqb y x) eqn:E; [|reflexivity].
  apply Nat.eqb_eq in E. subst. unfold c_is_assigned. reflexivity.
Qed.
Lemma assigned_store c y x : c_is_assigned (c_store c y) x = (Nat.eqb y x || c_is_assigned c x)%bool.
Proof. unfold c_store, c_is_assigned, cupd. destruct (Nat.eqb y x); reflexivity. Qed.

Lemma covers_load c c1 y : covers c c1 -> covers (c_load c y) (c_load c1 y).
Proof. intros H x. rewrite !assigned_load. apply H. Qed.
Lemma covers_store c c1 y : covers c c1 -> covers (c_store c y) (c_store c1 y).
Proof.
  intros H x. rewrite !assigned_store. intros Hx. apply orb_prop in Hx. destruct Hx as [Hx|Hx]; [now rewrite Hx|].
  rewrite (H _ Hx). apply orb_true_r.
Qed.

Lemma dom_map (f : cenv -> cenv) S S1 :
  (forall c c1, covers c c1 -> covers (f c) (f c1)) -> dom S S1 -> dom (map f S) (map f S1).
Proof.
  intros Hf H c Hc. apply in_map_iff in Hc. destruct Hc as (c0 & <- & Hc0).
  destruct (H c0 Hc0) as (c1 & H1 & Hv). exists (f c1). split; [now apply in_map|now apply Hf].
Qed.

(* a step only adds assignments *)
Definition grows (S' S : list cenv) : Prop := dom S' S.

(* ------------------------------------------------------------------ where an issue can come from *)
Definition site (i : issue) : line * var := (fst (fst i), snd (fst i)).
Definition sites_incl (a b : list issue) : Prop := forall i, In i a -> exists j, In j b /\ site j = site i.

Lemma sites_incl_app a b a1 b1 : sites_incl a a1 -> sites_incl b b1 -> sites_incl (a ++ b) (a1 ++ b1).
Proof.
  intros H1 H2 i Hi. apply in_app_or in Hi. destruct Hi as [Hi|Hi].
  - destruct (H1 i Hi) as (j & Hj & E). exists j. split; [apply in_or_app; now left|exact E].
  - destruct (H2 i Hi) as (j & Hj & E). exists j. split; [apply in_or_app; now right|exact E].
Qed.
Lemma sites_incl_refl a : sites_incl a a.
Proof. intros i H. exists i. auto. Qed.
Lemma sites_incl_trans a b c : sites_incl a b -> sites_incl b c -> sites_incl a c.
Proof.
  intros H1 H2 i Hi. destruct (H1 i Hi) as (j & Hj & E). destruct (H2 j Hj) as (k & Hk & E2). exists k. split; [exact Hk|congruence].
Qed.
Lemma sites_incl_l a b c : sites_incl a b -> sites_incl a (b ++ c).
Proof. intros H i Hi. destruct (H i Hi) as (j & Hj & E). exists j. split; [apply in_or_app; now left|exact E]. Qed.
Lemma sites_incl_r a b c : sites_incl a c -> sites_incl a (b ++ c).
Proof. intros H i Hi. destruct (H i Hi) as (j & Hj & E). exists j. split; [apply in_or_app; now right|exact E]. Qed.

(* classify reports (l, x) exactly when some path has x unassigned *)
Lemma forallb_true_all {A} (f : A -> bool) l : forallb f l = true -> forall x, In x l -> f x = true.
Proof. intros H x Hx. rewrite forallb_forall in H. now apply H. Qed.

Lemma classify_some l S x : (exists c, In c S /\ c_is_assigned c x = false) -> exists k, classify l S x = [(l, x, k)].
Proof.
  intros (c & Hc & Hx). unfold classify, tri_of.
  destruct (forallb (fun b => b) (map (fun c0 => c_is_assigned c0 x) S)) eqn:E.
  - exfalso. pose proof (forallb_true_all _ _ E (c_is_assigned c x)) as H.
    rewrite Hx in H. discriminate H. apply in_map_iff. exists c. auto.
  - destruct (forallb negb _); eexists; reflexivity.
Qed.

Lemma classify_in l S x i : In i (classify l S x) -> site i = (l, x) /\ exists c, In c S /\ c_is_assigned c x = false.
Proof.
  unfold classify, tri_of.
  destruct (forallb (fun b => b) (map (fun c0 => c_is_assigned c0 x) S)) eqn:E; [intros []|].
  assert (Hex : exists c, In c S /\ c_is_assigned c x = false).
  { clear -E. induction S as [|c S IH]; [discriminate|]. cbn in E. destruct (c_is_assigned c x) eqn:Hc.
    - cbn in E. destruct (IH E) as (c' & Hi & Hx). exists c'. split; [now right|exact Hx].
    - exists c. split; [now left|exact Hc]. }
  destruct (forallb negb _); intros [<-|[]]; split; auto.
Qed.

Lemma classify_dom l S S1 x : dom S S1 -> sites_incl (classify l S x) (classify l S1 x).
Proof.
  intros Hd i Hi. destruct (classify_in _ _ _ _ Hi) as (Hs & c & Hc & Hx).
  destruct (Hd c Hc) as (c1 & Hc1 & Hv).
  assert (Hx1 : c_is_assigned c1 x = false).
  { destruct (c_is_assigned c1 x) eqn:E; [|reflexivity]. rewrite (Hv _ E) in Hx. discriminate. }
  destruct (classify_some l S1 x (ex_intro _ c1 (conj Hc1 Hx1))) as [k Hk].
  exists (l, x, k). rewrite Hk. split; [now left|]. rewrite Hs. reflexivity.
Qed.

(* reading a list of variables *)
Lemma loads_dom l rs : forall S S1, dom S S1 ->
  dom (fst (s_loads l S rs)) (fst (s_loads l S1 rs)) /\ sites_incl (snd (s_loads l S rs)) (snd (s_loads l S1 rs)).
Proof.
  induction rs as [|x rs IH]; intros S S1 Hd; cbn [s_loads]; [split; [exact Hd|apply sites_incl_refl]|].
  assert (Hd' : dom (map (fun c => c_load c x) S) (map (fun c => c_load c x) S1)).
  { apply dom_map; [|exact Hd]. intros c c1 H. now apply covers_load. }
  destruct (IH _ _ Hd') as [H1 H2].
  destruct (s_loads l (map (fun c => c_load c x) S) rs) as [S2 i2].
  destruct (s_loads l (map (fun c => c_load c x) S1) rs) as [S3 i3]. cbn [fst snd] in *.
  split; [exact H1|]. apply sites_incl_app; [now apply classify_dom|exact H2].
Qed.

Lemma loads_grow l rs : forall S, dom (fst (s_loads l S rs)) S.
Proof.
  induction rs as [|x rs IH]; intros S; cbn [s_loads]; [apply dom_refl|].
  specialize (IH (map (fun c => c_load c x) S)).
  destruct (s_loads l (map (fun c => c_load c x) S) rs) as [S2 i2]. cbn [fst] in *.
  eapply dom_trans; [exact IH|].
  intros c Hc. apply in_map_iff in Hc. destruct Hc as (c0 & <- & H0). exists c0. split; [exact H0|].
  intros y. rewrite assigned_load. auto.
Qed.

(* ------------------------------------------------------------------ the same program on dominated sets *)
Lemma fst_snd_pair {A B} (p : A * B) : p = (fst p, snd p).
Proof. destruct p; reflexivity. Qed.

Lemma stmt_unfold_assign l x rs S :
  s_stmt (Assign l x rs) S = (map (fun c => c_store c x) (fst (s_loads l S rs)), snd (s_loads l S rs)).
Proof. cbn [s_stmt]. destruct (s_loads l S rs); reflexivity. Qed.

Lemma stmt_unfold_if l rs th el S :
  s_stmt (If l rs th el) S =
  (fst (s_block th (fst (s_loads l S rs))) ++ fst (s_block el (fst (s_loads l S rs))),
   snd (s_loads l S rs) ++ snd (s_block th (fst (s_loads l S rs))) ++ snd (s_block el (fst (s_loads l S rs)))).
Proof.
  cbn [s_stmt]. destruct (s_loads l S rs) as [S1 i1]. cbn [fst snd].
  destruct (s_block th S1) as [Si ii]. destruct (s_block el S1) as [Se ie]. reflexivity.
Qed.

Lemma block_unfold_cons s b S :
  s_block (BCons s b) S = (fst (s_block b (fst (s_stmt s S))), snd (s_stmt s S) ++ snd (s_block b (fst (s_stmt s S)))).
Proof. cbn [s_block]. destruct (s_stmt s S) as [S1 i1]. cbn [fst snd]. destruct (s_block b S1); reflexivity. Qed.

Lemma block_app a : forall b S,
  s_block (bapp a b) S =
  (fst (s_block b (fst (s_block a S))), snd (s_block a S) ++ snd (s_block b (fst (s_block a S)))).
Proof.
  induction a as [|s a IH]; intros b S.
  - cbn [bapp s_block fst snd app]. apply fst_snd_pair.
  - cbn [bapp]. rewrite !block_unfold_cons, IH. cbn [fst snd]. now rewrite app_assoc.
Qed.

(* running code only adds assignments *)
Lemma grow_both : (forall s S, dom (fst (s_stmt s S)) S) /\ (forall b S, dom (fst (s_block b S)) S).
Proof.
  apply stmt_block_ind.
  - intros l x rs S. rewrite stmt_unfold_assign. cbn [fst].
    eapply dom_trans; [|apply (loads_grow l rs)].
    intros c Hc. apply in_map_iff in Hc. destruct Hc as (c0 & <- & H0). exists c0. split; [exact H0|].
    intros y Hy. rewrite assigned_store, Hy. apply orb_true_r.
  - intros l rs S. cbn [s_stmt]. apply loads_grow.
  - intros l rs th IHt el IHe S. rewrite stmt_unfold_if. cbn [fst].
    intros c Hc. apply in_app_or in Hc.
    assert (Hl := loads_grow l rs S).
    destruct Hc as [Hc|Hc]; [destruct (IHt _ c Hc) as (c1 & H1 & Hv)|destruct (IHe _ c Hc) as (c1 & H1 & Hv)];
      destruct (Hl c1 H1) as (c2 & H2 & Hv2); exists c2; (split; [exact H2|eapply covers_trans; eassumption]).
  - intros S. cbn. apply dom_refl.
  - intros s IHs b IHb S. rewrite block_unfold_cons. cbn [fst]. eapply dom_trans; [apply IHb|apply IHs].
Qed.

(* the analysed program itself is monotone: a dominated start gives dominated results and no new sites *)
Lemma mono_both :
  (forall s S S1, dom S S1 -> dom (fst (s_stmt s S)) (fst (s_stmt s S1)) /\ sites_incl (snd (s_stmt s S)) (snd (s_stmt s S1))) /\
  (forall b S S1, dom S S1 -> dom (fst (s_block b S)) (fst (s_block b S1)) /\ sites_incl (snd (s_block b S)) (snd (s_block b S1))).
Proof.
  apply stmt_block_ind.
  - intros l x rs S S1 Hd. rewrite !stmt_unfold_assign. cbn [fst snd]. destruct (loads_dom l rs _ _ Hd) as [H1 H2].
    split; [|exact H2]. apply dom_map; [|exact H1]. intros c c1 H. now apply covers_store.
  - intros l rs S S1 Hd. cbn [s_stmt]. now apply loads_dom.
  - intros l rs th IHt el IHe S S1 Hd. rewrite !stmt_unfold_if. cbn [fst snd].
    destruct (loads_dom l rs _ _ Hd) as [H1 H2]. destruct (IHt _ _ H1) as [Ht1 Ht2]. destruct (IHe _ _ H1) as [He1 He2].
    split; [now apply dom_app|]. apply sites_incl_app; [exact H2|now apply sites_incl_app].
  - intros S S1 Hd. cbn. split; [exact Hd|apply sites_incl_refl].
  - intros s IHs b IHb S S1 Hd. rewrite !block_unfold_cons. cbn [fst snd].
    destruct (IHs _ _ Hd) as [H1 H2]. destruct (IHb _ _ H1) as [H3 H4]. split; [exact H3|now apply sites_incl_app].
Qed.

(* ------------------------------------------------------------------ loops *)
Section Loop.
  Variables (l : line) (rs : list var) (body body1 : block).
  (* induction hypothesis on the body *)
  Hypothesis body_rel : forall S S1, dom S S1 ->
    dom (fst (s_block body S)) (fst (s_block body1 S1)) /\ sites_incl (snd (s_block body S)) (snd (s_block body1 S1)).

  Lemma once_unfold S1 :
    let A1 := fst (s_loads l S1 rs) in
    let A2 := fst (s_block body1 A1) in
    s_stmt (once l rs body1) S1 =
    (fst (s_loads l A2 rs) ++ A1,
     snd (s_loads l S1 rs) ++ snd (s_block body1 A1) ++ snd (s_loads l A2 rs)).
  Proof.
    cbv zeta. unfold once. rewrite stmt_unfold_if, block_app. cbn [fst snd bsingle s_block s_stmt].
    destruct (s_loads l (fst (s_block body1 (fst (s_loads l S1 rs)))) rs) as [A3 i3]. cbn [fst snd].
    rewrite !app_nil_r. reflexivity.
  Qed.

  Lemma once_has_cond S1 : sites_incl (snd (s_loads l S1 rs)) (snd (s_stmt (once l rs body1) S1)).
  Proof. rewrite once_unfold. cbn zeta. cbn [snd]. apply sites_incl_l, sites_incl_refl. Qed.

  Lemma once_has_body S1 :
    sites_incl (snd (s_block body1 (fst (s_loads l S1 rs)))) (snd (s_stmt (once l rs body1) S1)).
  Proof. rewrite once_unfold. cbn zeta. cbn [snd]. apply sites_incl_r, sites_incl_l, sites_incl_refl. Qed.

  Lemma once_exit S1 : incl (fst (s_loads l S1 rs)) (fst (s_stmt (once l rs body1) S1)).
  Proof. rewrite once_unfold. cbn zeta. cbn [fst]. intros c Hc. apply in_or_app. now right. Qed.

  Lemma sites_incl_app3 a b c R :
    sites_incl a R -> sites_incl b R -> sites_incl c R -> sites_incl (a ++ b ++ c) R.
  Proof.
    intros Ha Hb Hc i Hi. apply in_app_or in Hi. destruct Hi as [Hi|Hi]; [now apply Ha|].
    apply in_app_or in Hi. destruct Hi as [Hi|Hi]; [now apply Hb|now apply Hc].
  Qed.

  Lemma unroll_step k S :
    let R1 := fst (s_loads l S rs) in
    let R2 := fst (s_block body R1) in
    s_stmt (unroll l rs body (Datatypes.S k)) S =
    (fst (s_stmt (unroll l rs body k) R2) ++ R1,
     snd (s_loads l S rs) ++ snd (s_block body R1) ++ snd (s_stmt (unroll l rs body k) R2)).
  Proof.
    cbv zeta. cbn [unroll]. rewrite stmt_unfold_if, block_app. cbn [fst snd bsingle s_block].
    destruct (s_stmt (unroll l rs body k) (fst (s_block body (fst (s_loads l S rs))))) as [Sk ik]. cbn [fst snd].
    rewrite !app_nil_r. reflexivity.
  Qed.

  (* a loop run at most k more times, from a set of paths dominated by the analysed entry set: every unassigned
     read is one of the once-unrolled loop, and the exit paths are dominated by its exit paths *)
  Lemma unroll_sound : forall k S S1, dom S S1 ->
    dom (fst (s_stmt (unroll l rs body k) S)) (fst (s_stmt (once l rs body1) S1)) /\
    sites_incl (snd (s_stmt (unroll l rs body k) S)) (snd (s_stmt (once l rs body1) S1)).
  Proof.
    induction k as [|k IH]; intros S S1 Hd; destruct (loads_dom l rs _ _ Hd) as [H1 H2].
    - cbn [unroll s_stmt]. split.
      + eapply dom_incl_r; [exact H1|apply once_exit].
      + eapply sites_incl_trans; [exact H2|apply once_has_cond].
    - rewrite unroll_step. cbn zeta. cbn [fst snd].
      destruct (body_rel _ _ H1) as [Hb1 Hb2].
      (* the state after one real iteration is still dominated by the analysed ENTRY state *)
      assert (HR2 : dom (fst (s_block body (fst (s_loads l S rs)))) S1).
      { eapply dom_trans; [exact Hb1|]. eapply dom_trans; [apply (proj2 grow_both)|]. apply loads_grow. }
      destruct (IH _ _ HR2) as [Hk1 Hk2]. split.
      + intros c Hc. apply in_app_or in Hc. destruct Hc as [Hc|Hc]; [exact (Hk1 c Hc)|].
        exact (dom_incl_r _ _ _ H1 (once_exit S1) c Hc).
      + apply sites_incl_app3.
        * eapply sites_incl_trans; [exact H2|apply once_has_cond].
        * eapply sites_incl_trans; [exact Hb2|apply once_has_body].
        * exact Hk2.
  Qed.
End Loop.

(* ------------------------------------------------------------------ whole programs *)
Section Whole.
  Variable n : nat.
  Definition PS (s s1 : stmt) : Prop := forall S S1, dom S S1 ->
    dom (fst (s_stmt s S)) (fst (s_stmt s1 S1)) /\ sites_incl (snd (s_stmt s S)) (snd (s_stmt s1 S1)).
  Definition PB (b b1 : block) : Prop := forall S S1, dom S S1 ->
    dom (fst (s_block b S)) (fst (s_block b1 S1)) /\ sites_incl (snd (s_block b S)) (snd (s_block b1 S1)).

  Lemma case_same s : PS s s.
  Proof. intros S S1 Hd. now apply (proj1 mono_both). Qed.

  Lemma case_if l rs th el th1 el1 : PB th th1 -> PB el el1 -> PS (If l rs th el) (If l rs th1 el1).
  Proof.
    intros IHt IHe S S1 Hd. rewrite !stmt_unfold_if. cbn [fst snd].
    destruct (loads_dom l rs _ _ Hd) as [H1 H2]. destruct (IHt _ _ H1) as [Ht1 Ht2]. destruct (IHe _ _ H1) as [He1 He2].
    split; [now apply dom_app|apply sites_incl_app; [exact H2|now apply sites_incl_app]].
  Qed.

  Lemma case_while l rs body body1 : PB body body1 -> PS (unroll l rs body n) (once l rs body1).
  Proof. intros IHb S S1 Hd. now apply unroll_sound. Qed.

  Lemma case_nil : PB BNil BNil.
  Proof. intros S S1 Hd. cbn. split; [exact Hd|apply sites_incl_refl]. Qed.

  Lemma case_cons s s1 b b1 : PS s s1 -> PB b b1 -> PB (BCons s b) (BCons s1 b1).
  Proof.
    intros IHs IHb S S1 Hd. rewrite !block_unfold_cons. cbn [fst snd].
    destruct (IHs _ _ Hd) as [H1 H2]. destruct (IHb _ _ H1) as [H3 H4]. split; [exact H3|now apply sites_incl_app].
  Qed.

  Theorem unrolled_program_sound :
    (forall s s1, Rel n s s1 -> PS s s1) /\ (forall b b1, RelB n b b1 -> PB b b1).
  Proof.
    split.
    - intros s s1 H. apply (Rel_mut n (fun s s1 _ => PS s s1) (fun b b1 _ => PB b b1)); intros;
        auto using case_same, case_if, case_while, case_nil, case_cons.
    - intros b b1 H. apply (RelB_mut n (fun s s1 _ => PS s s1) (fun b b1 _ => PB b b1)); intros;
        auto using case_same, case_if, case_while, case_nil, case_cons.
  Qed.
End Whole.

(* TIFA reports, at that line and for that variable, every read that is unassigned on some real execution *)
Theorem while_no_missed_uninitialised_read n b b1 :
  RelB n b b1 ->
  forall i, In i (snd (s_block b [cempty])) ->
  exists j, In j (snd (t_block b1 aempty)) /\ site j = site i.
Proof.
  intros HR i Hi. rewrite tifa_exact_init.
  destruct (proj2 (unrolled_program_sound n) _ _ HR [cempty] [cempty] (dom_refl _)) as [_ Hs]. exact (Hs i Hi).
Qed.

(* non-vacuity: x assigned only inside a loop whose body may never run, read after the loop.
     real program (loop run up to 3 times):  while v1: v0 = 1     print(v0)
     analysed once:                          if v1: {v0 = 1; read v1}   print(v0)  *)
Definition ex_body : block := BCons (Assign 2 0 []) BNil.
Definition ex_real (n : nat) : block := BCons (unroll 1 [1] ex_body n) (BCons (Expr 3 [0]) BNil).
Definition ex_once : block := BCons (once 1 [1] ex_body) (BCons (Expr 3 [0]) BNil).

Example ex_rel : RelB 3 (ex_real 3) ex_once.
Proof.
  unfold ex_real, ex_once. apply RB_cons; [apply R_while; unfold ex_body; apply RB_cons; [apply R_assign|apply RB_nil]|].
  apply RB_cons; [apply R_expr|apply RB_nil].
Qed.

Example ex_reported :
  exists j, In j (snd (t_block ex_once aempty)) /\ site j = (3, 0).
Proof.
  assert (Hi : In (3, 0, PossibleInitProblem) (snd (s_block (ex_real 3) [cempty]))) by (vm_compute; auto 10).
  destruct (while_no_missed_uninitialised_read 3 _ _ ex_rel _ Hi) as (j & Hj & E). exists j. split; [exact Hj|exact E].
Qed.
