(* C19 proofs: finite theorems over the REGENERATED operator table. *)
From Coq Require Import List String Bool.
Import ListNotations.
From Pedal Require Import model.C19_Types gen.C19_Gen.
Open Scope string_scope.

Definition T := tifa_binop gen_binop_table.
Definition core_of_ptype_b (t : ptype) : bool :=
  match t with PInt | PFloat | PStr | PList | PTuple => true | _ => false end.

Definition triples : list (string * core * core) :=
  flat_map (fun op => flat_map (fun a => map (fun b => (op, a, b)) all_core) all_core) binops.

Lemma in_triples op a b : In op binops -> In (op, a, b) triples.
Proof.
  intros H. unfold triples. apply in_flat_map. exists op. split; [exact H|].
  apply in_flat_map. exists a. split; [destruct a; cbn; auto 6|].
  apply in_map_iff. exists b. split; [reflexivity|destruct b; cbn; auto 6].
Qed.

(* (1) whenever CPython raises TypeError for the operand types, TIFA reports incompatible types *)
Definition reports_b : bool :=
  forallb (fun '(op, a, b) => if cpy_raises op a b then match T op a b with PImpossible => true | _ => false end else true) triples.
Lemma reports_ok : reports_b = true.
Proof. vm_compute. reflexivity. Qed.

Theorem reports_when_cpython_raises op a b :
  In op binops -> cpy_raises op a b = true -> T op a b = PImpossible.
Proof.
  intros Hop Hr. pose proof reports_ok as H. unfold reports_b in H. rewrite forallb_forall in H.
  specialize (H (op, a, b) (in_triples op a b Hop)). cbn beta iota in H. rewrite Hr in H.
  destruct (T op a b); try discriminate. reflexivity.
Qed.

(* (2) when TIFA reports nothing, every possible run-time result conforms to the inferred type -
   except for the cells listed as known findings *)
Definition excluded (op : string) (a b : core) : bool :=
  (String.eqb op "Pow" && core_eqb a CInt && core_eqb b CInt)        (* 2 ** -1 : float, TIFA says int *)
  || false.

Definition conforms_b : bool :=
  forallb (fun '(op, a, b) =>
             if excluded op a b then true else
             match T op a b with
             | PImpossible => true
             | t => forallb (fun r => conforms r t) (cpy_binop op a b)
             end) triples.
Lemma conforms_ok : conforms_b = true.
Proof. vm_compute. reflexivity. Qed.

Theorem result_conforms op a b r :
  In op binops -> excluded op a b = false -> T op a b <> PImpossible ->
  In r (cpy_binop op a b) -> conforms r (T op a b) = true.
Proof.
  intros Hop He Hn Hr. pose proof conforms_ok as H. unfold conforms_b in H. rewrite forallb_forall in H.
  specialize (H (op, a, b) (in_triples op a b Hop)). cbn beta iota in H. rewrite He in H.
  destruct (T op a b) eqn:E; try congruence; rewrite forallb_forall in H; apply H; exact Hr.
Qed.

(* closure: the result of an operator on core-typed operands is again one of the core types (or an issue) -
   never the vague NumType, so the typing of nested expressions keeps its precision *)
Definition closed_b : bool :=
  forallb (fun '(op, a, b) => match T op a b with PImpossible => true | t => match core_of_ptype_b t with true => true | false => false end end) triples.
Lemma closed_ok : closed_b = true.
Proof. vm_compute. reflexivity. Qed.
Theorem results_stay_core op a b :
  In op binops -> T op a b = PImpossible \/ core_of_ptype_b (T op a b) = true.
Proof.
  intros Hop. pose proof closed_ok as H. unfold closed_b in H. rewrite forallb_forall in H.
  specialize (H (op, a, b) (in_triples op a b Hop)). cbn beta iota in H.
  destruct (T op a b); cbn in *; auto; discriminate.
Qed.

(* (3) expression trees of any depth over core-typed variables *)
Inductive expr := Var (c : core) | Bin (op : string) (l r : expr).

(* TIFA's static type: results of core-typed operands stay core-typed (checked below), so the table is re-entered *)
Definition core_of_ptype (t : ptype) : option core :=
  match t with PInt => Some CInt | PFloat => Some CFloat | PStr => Some CStr | PList => Some CList | PTuple => Some CTuple
  | _ => None end.

(* static analysis: None = an incompatible_types issue somewhere in the tree (or a type outside the core set) *)
Fixpoint static (e : expr) : option core :=
  match e with
  | Var c => Some c
  | Bin op l r => match static l, static r with
                  | Some a, Some b => core_of_ptype (T op a b)
                  | _, _ => None
                  end
  end.

(* run time: the set of core types the value can have; None = TypeError possible for these operand types *)
Fixpoint dynamic (e : expr) : option (list core) :=
  match e with
  | Var c => Some [c]
  | Bin op l r =>
      match dynamic l, dynamic r with
      | Some ls, Some rs =>
          if forallb (fun a => forallb (fun b => negb (cpy_raises op a b)) rs) ls
          then Some (flat_map (fun a => flat_map (fun b => cpy_binop op a b) rs) ls)
          else None
      | _, _ => None
      end
  end.

Fixpoint ops_ok (e : expr) : Prop :=
  match e with
  | Var _ => True
  | Bin op l r => In op binops /\ ops_ok l /\ ops_ok r /\
                  (forall a b, static l = Some a -> static r = Some b -> excluded op a b = false)
  end.

(* on non-excluded cells the table is EXACT on core types: a single run-time type, equal to the static one *)
Definition exact_b : bool :=
  forallb (fun '(op, a, b) =>
             if excluded op a b then true else
             match core_of_ptype (T op a b) with
             | Some c => match cpy_binop op a b with [r] => core_eqb r c | _ => false end
             | None => true
             end) triples.
Lemma exact_ok : exact_b = true.
Proof. vm_compute. reflexivity. Qed.

Lemma core_eqb_eq a b : core_eqb a b = true -> a = b.
Proof. destruct a, b; cbn; congruence. Qed.

(* if TIFA reports nothing anywhere in the tree, no TypeError is possible at run time and the value has exactly
   the inferred type - for trees of ANY depth *)
Theorem static_sound e c :
  ops_ok e -> static e = Some c -> dynamic e = Some [c].
Proof.
  revert c. induction e as [k|op l IHl r IHr]; intros c Hok Hs; cbn in *.
  - now injection Hs as <-.
  - destruct Hok as (Hop & Hl & Hr & Hex).
    destruct (static l) as [a|] eqn:El; [|discriminate]. destruct (static r) as [b|] eqn:Er; [|discriminate].
    rewrite (IHl a Hl eq_refl), (IHr b Hr eq_refl). cbn.
    pose proof exact_ok as H. unfold exact_b in H. rewrite forallb_forall in H.
    specialize (H (op, a, b) (in_triples op a b Hop)). cbn beta iota in H.
    rewrite (Hex a b eq_refl eq_refl) in H. rewrite Hs in H.
    unfold cpy_raises. destruct (cpy_binop op a b) as [|x [|y ys]]; try discriminate.
    apply core_eqb_eq in H. subst x. cbn. reflexivity.
Qed.

(* non-vacuity *)
Example ex_tree :
  static (Bin "Add" (Bin "Mult" (Var CInt) (Var CStr)) (Var CStr)) = Some CStr /\
  static (Bin "LShift" (Bin "Div" (Var CInt) (Var CInt)) (Var CInt)) = None /\
  T "FloorDiv" CFloat CInt = PFloat /\ T "Add" CTuple CTuple = PTuple.
Proof. vm_compute. repeat split; reflexivity. Qed.

(* the excluded cell is a genuine counterexample of the full statement: int ** int is typed IntType, yet a float is among the
   possible run-time results (2 ** -1) and does not conform to it - the recorded finding nonconforming:Pow:int:int *)
Theorem pow_int_int_refuted :
  T "Pow" CInt CInt <> PImpossible /\ exists r, In r (cpy_binop "Pow" CInt CInt) /\ conforms r (T "Pow" CInt CInt) = false.
Proof. split; [vm_compute; discriminate|]. exists CFloat. vm_compute. auto. Qed.
