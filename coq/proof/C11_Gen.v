(* C11, last sentence: generalising a MATCHING pattern never loses the match.
   [Gen p p']: p' is p with, at any positions and depths, sub-trees replaced by ___ or __n__ names (standing in the
   same parent field) and children dropped (order kept).  If p embeds in s, so does p' - for ANY pattern p, not
   only one derived from the program. *)
From Coq Require Import List String Bool Arith ZArith Lia.
Import ListNotations.
From Pedal Require Import model.C10_Cait proof.C10_Lemmas proof.C10_Spec proof.C11_Lemmas.
Open Scope string_scope.
Open Scope list_scope.

(* ------------------------------------------------------------------ conflicts only shrink with the symbols *)
Lemma conflict_incl a b : incl (syms a) (syms b) -> conflictb b = false -> conflictb a = false.
Proof.
  intros Hi Hb. unfold conflictb in *. destruct (existsb _ (syms a)) eqn:E; [|reflexivity].
  apply existsb_exists in E. destruct E as (x & Hx & E). apply existsb_exists in E. destruct E as (y & Hy & E).
  assert (existsb (fun a0 => existsb (fun b0 => sym_clash a0 b0) (syms b)) (syms b) = true); [|congruence].
  apply existsb_exists. exists x. split; [now apply Hi|]. apply existsb_exists. exists y. split; [now apply Hi|exact E].
Qed.

(* ------------------------------------------------------------------ a matched node stands in the right field *)
Lemma main_metas i s meta ig b : shallow_main i s meta ig = Some b -> metas i s meta = true.
Proof. intros H. apply shallow_main_spec in H. tauto. Qed.

Lemma handler_metas i s idv meta b : symbol_handler i s idv meta = Some b -> metas i s meta = true.
Proof.
  unfold symbol_handler. intros H. cbv zeta in H.
  destruct (fld_str idv (t_flds i)) as [name|]; [|eapply main_metas; eassumption].
  destruct (classify name).
  - destruct (metas i s meta) eqn:Hm; [reflexivity|]. rewrite <- Hm. eapply main_metas; eassumption.
  - destruct (metas i s meta) eqn:Hm; [reflexivity|]. cbn in H. rewrite <- Hm. eapply main_metas; eassumption.
  - destruct (metas i s meta) eqn:Hm; [reflexivity|]. rewrite <- Hm. eapply main_metas; eassumption.
  - eapply main_metas; eassumption.
Qed.

Lemma xdef_metas i s meta ig t b : xdef i s meta ig t = Some b -> metas i s meta = true.
Proof.
  unfold xdef. intros H. destruct (shallow_main i s meta ig) eqn:Hm; [|discriminate]. eapply main_metas; eassumption.
Qed.

Lemma shallow_metas i s meta b : shallow i s meta = Some b -> t_kind i <> "Module" -> metas i s meta = true.
Proof.
  unfold shallow. intros H Hk.
  destruct (String.eqb (t_kind i) "Module") eqn:E0; [apply String.eqb_eq in E0; contradiction|].
  destruct (String.eqb (t_kind i) "Pass" || String.eqb (t_kind i) "Expr").
  { destruct (metas i s meta); [reflexivity|discriminate]. }
  destruct (String.eqb (t_kind i) "Name"); [eapply handler_metas; eassumption|].
  destruct (String.eqb (t_kind i) "arg"); [eapply handler_metas; eassumption|].
  destruct (String.eqb (t_kind i) "Attribute").
  { destruct (String.eqb (t_kind s) "Attribute"); [|eapply main_metas; eassumption].
    destruct (_ && _); [eapply main_metas; eassumption|eapply handler_metas; eassumption]. }
  destruct (String.eqb (t_kind i) "FunctionDef"); [eapply xdef_metas; eassumption|].
  destruct (String.eqb (t_kind i) "ClassDef"); [eapply xdef_metas; eassumption|].
  eapply main_metas; eassumption.
Qed.

Lemma hole_metas i s meta r m : expr_hole i s meta = Some r -> In m r -> metas i s meta = true.
Proof.
  unfold expr_hole. intros H Hin. destruct (String.eqb (t_kind i) "Expr"); [|discriminate].
  destruct (metas i s meta); [reflexivity|]. inversion H; subst. contradiction.
Qed.

Lemma flex_kind i : is_flex i = true -> t_kind i = "BinOp".
Proof. unfold is_flex. intros H. apply andb_prop in H. destruct H as [H _]. now apply String.eqb_eq. Qed.

Theorem emb_metas meta i s m : Emb meta i s m -> t_kind i <> "Module" -> metas i s meta = true.
Proof.
  intros H Hk. destruct H.
  - eapply hole_metas; eassumption.
  - eapply shallow_metas; eassumption.
  - eapply shallow_metas; eassumption.
Qed.

(* ------------------------------------------------------------------ wildcard and expression names embed anywhere
   their field allows *)
Lemma wild_emb w s meta : name_node w "___" -> metas w s meta = true -> Emb meta w s (pair_map w s).
Proof.
  intros Hn Hm. destruct (name_node_not_hole _ _ s meta Hn) as [Hh Hf].
  eapply Emb_node; [exact Hh|exact Hf| |eapply name_node_kids_skipped; exact Hn].
  rewrite (name_handler _ _ Hn). destruct Hn as (_ & Hid & _). unfold symbol_handler. rewrite Hid.
  change (classify "___") with CWild. cbv beta iota zeta. now rewrite Hm.
Qed.

Lemma exp_emb w n s meta : name_node w n -> classify n = CExp -> metas w s meta = true ->
  Emb meta w s (mkMap [(t_id w, t_id s)] [] [(n, t_id s)]).
Proof.
  intros Hn Hc Hm. destruct (name_node_not_hole _ _ s meta Hn) as [Hh Hf].
  eapply Emb_node; [exact Hh|exact Hf| |eapply name_node_kids_skipped; exact Hn].
  rewrite (name_handler _ _ Hn). destruct Hn as (_ & Hid & _). unfold symbol_handler. rewrite Hid, Hc.
  cbv beta iota zeta. rewrite Hm. reflexivity.
Qed.

Lemma metas_field i i' s meta : t_field i' = t_field i -> metas i' s meta = metas i s meta.
Proof. unfold metas. now intros ->. Qed.

(* ------------------------------------------------------------------ generalisation of a pattern *)
Inductive Gen : tree -> tree -> Prop :=
| Gen_wild p w : name_node w "___" -> t_field w = t_field p -> t_kind p <> "Module" -> Gen p w
| Gen_exp p w n : name_node w n -> classify n = CExp -> t_field w = t_field p -> t_kind p <> "Module" -> Gen p w
(* an expression statement keeps its single child *)
| Gen_expr id f fl v v' : Gen v v' -> Gen (Node id "Expr" f fl [v]) (Node id "Expr" f fl [v'])
(* any other node: children generalised or dropped *)
| Gen_node id k f fl ks ks' :
    k <> "Expr" -> is_flex (Node id k f fl ks) = false -> is_flex (Node id k f fl ks') = false ->
    GenKids ks ks' -> Gen (Node id k f fl ks) (Node id k f fl ks')
(* a + or * node keeps its operator and both operands *)
| Gen_flex id k f fl l op r l' r' :
    is_flex (Node id k f fl [l; op; r]) = true -> Gen l l' -> Gen r r' ->
    Gen (Node id k f fl [l; op; r]) (Node id k f fl [l'; op; r'])
with GenKids : list tree -> list tree -> Prop :=
| GK_nil : GenKids [] []
| GK_keep k k' ks ks' : Gen k k' -> GenKids ks ks' -> GenKids (k :: ks) (k' :: ks')
| GK_drop k ks ks' : GenKids ks ks' -> GenKids (k :: ks) ks'.

Lemma gen_field p p' : Gen p p' -> t_field p' = t_field p.
Proof. destruct 1; auto. Qed.

Lemma gen_refl_kids : forall ks, (forall k, In k ks -> Gen k k) -> GenKids ks ks.
Proof. induction ks as [|k ks IH]; intros H; constructor; [apply H; left; reflexivity|apply IH; intros; apply H; now right]. Qed.

(* only the children differ: the node test, and the pair it records, are the same *)
Lemma shallow_kids_irrelevant id k f fl ks ks' s meta :
  shallow (Node id k f fl ks') s meta = shallow (Node id k f fl ks) s meta.
Proof. reflexivity. Qed.

Lemma hole_single_value i s meta :
  metas i s meta = true -> expr_hole i s meta = None \/ exists m, expr_hole i s meta = Some [m] /\ syms m = [].
Proof.
  intros Hm. unfold expr_hole. destruct (String.eqb (t_kind i) "Expr"); [|auto]. rewrite Hm.
  destruct (t_kids i) as [|v r]; [auto|]. destruct (String.eqb (t_kind v) "Name"); [|auto].
  destruct (fld_str "id" (t_flds v)) as [name|]; [|auto].
  destruct (is_exp name); [right; eexists; split; [reflexivity|reflexivity]|].
  destruct (is_wild name); [right; eexists; split; [reflexivity|reflexivity]|auto].
Qed.

Lemma expr_not_flex id f fl ks : is_flex (Node id "Expr" f fl ks) = false.
Proof. reflexivity. Qed.

Lemma expr_shallow id f fl ks s meta :
  metas (Node id "Expr" f fl ks) s meta = true ->
  shallow (Node id "Expr" f fl ks) s meta = Some (pair_map (Node id "Expr" f fl ks) s).
Proof. intros Hm. unfold shallow. cbn [t_kind]. cbn. cbn in Hm. now rewrite Hm. Qed.

(* placeholder names stay placeholder names *)
Definition is_ph (v : tree) : bool :=
  String.eqb (t_kind v) "Name" &&
  match fld_str "id" (t_flds v) with Some n => is_exp n || is_wild n | None => false end.

Lemma classify_exp n : classify n = CExp -> is_exp n = true.
Proof. unfold classify. destruct (is_var n); [discriminate|]. destruct (is_exp n); [reflexivity|]. destruct (is_wild n); discriminate. Qed.

Lemma gen_ph v v' : Gen v v' -> is_ph v = true -> is_ph v' = true.
Proof.
  intros HG Hp. destruct HG as [p w Hn _ _|p w n Hn Hc _ _|id f fl x x' _|id k f fl ks ks' _ _ _ _|id k f fl l op r l' r' Hf _ _].
  - destruct Hn as (Hk & Hid & _). unfold is_ph. rewrite Hk, Hid. reflexivity.
  - destruct Hn as (Hk & Hid & _). unfold is_ph. rewrite Hk, Hid, (classify_exp _ Hc). reflexivity.
  - discriminate.
  - exact Hp.
  - apply flex_kind in Hf. unfold is_ph in Hp. cbn [t_kind] in *. subst k. discriminate.
Qed.

Lemma hole_ph id f fl v s meta r :
  expr_hole (Node id "Expr" f fl [v]) s meta = Some r -> metas (Node id "Expr" f fl [v]) s meta = true -> is_ph v = true.
Proof.
  unfold expr_hole, is_ph. cbn [t_kind t_kids]. cbn. intros H Hm. cbn in Hm. rewrite Hm in H.
  destruct (String.eqb (t_kind v) "Name"); [|discriminate]. destruct (fld_str "id" (t_flds v)) as [n|]; [|discriminate].
  destruct (is_exp n); [reflexivity|]. destruct (is_wild n); [reflexivity|discriminate].
Qed.

Lemma nohole_ph id f fl v s meta :
  expr_hole (Node id "Expr" f fl [v]) s meta = None -> is_ph v = false.
Proof.
  unfold expr_hole, is_ph. cbn [t_kind t_kids]. cbn. intros H.
  destruct (metas (Node id "Expr" f fl [v]) s meta); [|discriminate].
  destruct (String.eqb (t_kind v) "Name"); [|reflexivity]. destruct (fld_str "id" (t_flds v)) as [n|]; [|reflexivity].
  destruct (is_exp n); [discriminate|]. destruct (is_wild n); [discriminate|reflexivity].
Qed.

Theorem generalising_keeps_the_match :
  forall meta p s m, Emb meta p s m ->
  forall p', Gen p p' -> exists m', Emb meta p' s m' /\ incl (syms m') (syms m).
Proof.
  intros meta p s m H.
  induction H using Emb_mut with
    (P0 := fun meta ik sk ics acc lo m (_ : Kids meta ik sk ics acc lo m) =>
             forall ks' acc' lo', GenKids ics ks' -> incl (syms acc') (syms acc) -> conflictb acc' = false -> lo' <= lo ->
             exists m', Kids meta ik sk ks' acc' lo' m' /\ incl (syms m') (syms m)).
  - (* the pattern is a statement hole *)
    intros p' HG. pose proof (hole_metas _ _ _ _ _ e i0) as Hm. pose proof (hole_kind _ _ _ _ e) as Hk.
    inversion HG; subst.
    + exists (pair_map p' s). split; [|intros x []]. apply wild_emb; [assumption|]. now rewrite (metas_field i p').
    + eexists. split; [eapply exp_emb; eauto; now rewrite (metas_field i p')|intros x []].
    + (* Expr kept: the child of a hole is a placeholder name and stays one, or becomes one *)
      assert (Hm' : metas (Node id "Expr" f fl [v']) s meta = true) by exact Hm.
      destruct (hole_single_value _ s meta Hm') as [Hn|(m' & Hs & Hsy)].
      * (* the new child is no placeholder: impossible, the old one was and Gen keeps or introduces one *)
        exfalso. apply nohole_ph in Hn. pose proof (hole_ph _ _ _ _ _ _ _ e Hm) as Hp.
        match goal with HGv : Gen v v' |- _ => rewrite (gen_ph _ _ HGv Hp) in Hn end. discriminate.
      * exists m'. split; [eapply Emb_hole; [exact Hs|left; reflexivity]|rewrite Hsy; intros x []].
    + cbn in Hk. congruence.
    + match goal with Hx : is_flex _ = true |- _ => apply flex_kind in Hx; cbn in Hx, Hk; congruence end.
  - (* the pattern is a + / * node *)
    intros p' HG. pose proof (flex_kind _ e0) as Hkb.
    assert (Hmod : t_kind i <> "Module") by (rewrite Hkb; discriminate).
    pose proof (shallow_metas _ _ _ _ e1 Hmod) as Hm.
    inversion HG; subst.
    + exists (pair_map p' s). split; [|intros x []]. apply wild_emb; [assumption|]. now rewrite (metas_field i p').
    + eexists. split; [eapply exp_emb; eauto; now rewrite (metas_field i p')|intros x []].
    + cbn in Hkb. discriminate.
    + congruence.
    + cbn [t_kids] in e2. inversion e2; subst.
      match type of IHEmb1 with forall q, Gen ?X q -> _ =>
        match goal with Ha : Gen X _ |- _ => destruct (IHEmb1 _ Ha) as (ml' & El & Il) end end.
      match type of IHEmb2 with forall q, Gen ?X q -> _ =>
        match goal with Ha : Gen X _ |- _ => destruct (IHEmb2 _ Ha) as (mr' & Er & Ir) end end.
      exists (mmerge (mmerge (mmerge b o) ml') mr'). split.
      * cbn in Hkb. subst k.
        eapply (Emb_flex meta _ s b o _ iop _ sl sop sr ml' mr' swap);
          [reflexivity|exact e0|exact e1|reflexivity|exact e3|exact e4|exact El|exact Er|].
        eapply conflict_incl; [|exact e5]. cbn. intros x Hx.
        repeat (apply in_app_or in Hx; destruct Hx as [Hx|Hx]).
        -- apply in_or_app. left. apply in_or_app. left. apply in_or_app. now left.
        -- apply in_or_app. left. apply in_or_app. left. apply in_or_app. now right.
        -- apply in_or_app. left. apply in_or_app. right. now apply Il.
        -- apply in_or_app. right. now apply Ir.
      * cbn. intros x Hx.
        repeat (apply in_app_or in Hx; destruct Hx as [Hx|Hx]).
        -- apply in_or_app. left. apply in_or_app. left. apply in_or_app. now left.
        -- apply in_or_app. left. apply in_or_app. left. apply in_or_app. now right.
        -- apply in_or_app. left. apply in_or_app. right. now apply Il.
        -- apply in_or_app. right. now apply Ir.
  - (* an ordinary node *)
    intros p' HG.
    assert (Hsmall : conflictb b = false) by (apply small_noconflict; eapply shallow_small; eassumption).
    inversion HG; subst.
    + assert (Hm : metas i s meta = true) by (eapply shallow_metas; eassumption).
      exists (pair_map p' s). split; [|intros x []]. apply wild_emb; [assumption|]. now rewrite (metas_field i p').
    + assert (Hm : metas i s meta = true) by (eapply shallow_metas; eassumption).
      eexists. split; [eapply exp_emb; eauto; now rewrite (metas_field i p')|intros x []].
    + (* Expr statement (not a hole) with its child generalised *)
      assert (Hm : metas (Node id "Expr" f fl [v]) s meta = true) by (eapply shallow_metas; [eassumption|discriminate]).
      assert (Hm' : metas (Node id "Expr" f fl [v']) s meta = true) by exact Hm.
      destruct (hole_single_value (Node id "Expr" f fl [v']) s meta Hm') as [Hn|(m' & Hs & Hsy)].
      * cbn [t_kind t_kids] in IHEmb.
        destruct (IHEmb [v'] b 0) as (m' & HK & Hi); [apply GK_keep; [assumption|apply GK_nil]|apply incl_refl|exact Hsmall|lia|].
        exists m'. split; [|exact Hi].
        eapply Emb_node; [exact Hn|apply expr_not_flex| |exact HK].
        exact e1.
      * exists m'. split; [eapply Emb_hole; [exact Hs|left; reflexivity]|rewrite Hsy; intros x []].
    + cbn [t_kind t_kids] in IHEmb.
      destruct (IHEmb ks' b 0) as (m' & HK & Hi); [assumption|apply incl_refl|exact Hsmall|lia|].
      exists m'. split; [|exact Hi].
      eapply Emb_node; [|eassumption| |exact HK].
      * unfold expr_hole. cbn [t_kind].
        match goal with Hne : ?kk <> "Expr" |- _ =>
          destruct (String.eqb kk "Expr") eqn:E; [apply String.eqb_eq in E; contradiction|reflexivity] end.
      * exact e1.
    + congruence.
  - (* no children left *)
    intros ks' acc' lo' HG Hi Hc Hl. inversion HG; subst. exists acc'. split; [constructor|exact Hi].
  - (* an ignored child (the ctx of a Name) *)
    intros ks' acc' lo' HG Hi Hc Hl. inversion HG; subst.
    + match goal with Hg : Gen ic ?k', Hks : GenKids ics ?kk |- _ =>
        destruct (IHEmb kk acc' lo' Hks Hi Hc Hl) as (m' & HK & Him); exists m'; split; [|exact Him];
        apply K_skip; [|exact HK]; unfold ignored_kid in *; now rewrite (gen_field _ _ Hg) end.
    + now apply IHEmb.
  - (* a matched child: kept (generalised) or dropped *)
    intros ks' acc' lo' HG Hi Hc Hl. inversion HG; subst.
    + match goal with Hg : Gen ic ?k', Hks : GenKids ics ?kk |- _ =>
        destruct (IHEmb _ Hg) as (mc' & Ec & Ic);
        assert (Hi2 : incl (syms (mmerge acc' mc')) (syms (mmerge acc mc)))
          by (cbn; intros x Hx; apply in_app_or in Hx; apply in_or_app; destruct Hx; [left; now apply Hi|right; now apply Ic]);
        assert (Hc2 : conflictb (mmerge acc' mc') = false) by (eapply conflict_incl; eassumption);
        destruct (IHEmb0 kk (mmerge acc' mc') (S j) Hks Hi2 Hc2 (le_n _)) as (m' & HK & Him);
        exists m'; split; [|exact Him];
        eapply K_cons; [| |exact e0|exact Ec|exact Hc2|exact HK];
        [unfold ignored_kid in *; now rewrite (gen_field _ _ Hg)|lia] end.
    + assert (Hi2 : incl (syms acc') (syms (mmerge acc mc))).
      { cbn. intros x Hx. apply in_or_app. left. now apply Hi. }
      match goal with Hks : GenKids ics ks' |- _ => apply (IHEmb0 ks' acc' lo' Hks Hi2 Hc) end. lia.
Qed.

(* at the level of find_matches *)
Theorem generalised_pattern_still_matches pattern pattern' student m :
  In m (find_matches pattern student) -> Gen (trim_root pattern) (trim_root pattern') ->
  exists m', In m' (find_matches pattern' student).
Proof.
  intros Hin HG. apply find_matches_spec in Hin. destruct Hin as (s' & Hs & He).
  destruct (generalising_keeps_the_match _ _ _ _ He _ HG) as (m' & He' & _).
  exists m'. apply find_matches_spec. eauto.
Qed.

(* non-vacuity:  _x_ = ___   generalised to   ___ = ___  (the target replaced by a wildcard) *)
From Pedal Require Import model.C10_Examples.

Definition ex5_general : tree :=
  Node 0 "Module" "none" [("body", FvList [PNode]); ("type_ignores", FvList [])]
    [Node 1 "Assign" "body" [("targets", FvList [PNode]); ("value", FvOne PNode); ("type_comment", FvNone)]
       [Node 2 "Name" "targets" [("id", FvOne (PPrim (PrStr "___"))); ("ctx", FvOne PNode)] [Node 3 "Store" "ctx" [] []];
        Node 4 "Name" "value" [("id", FvOne (PPrim (PrStr "___"))); ("ctx", FvOne PNode)] [Node 5 "Load" "ctx" [] []]]].

Example ex5_gen : Gen (trim_root ex5_pattern) (trim_root ex5_general).
Proof.
  cbn [trim_root trim ex5_pattern ex5_general set_field String.eqb Ascii.eqb Bool.eqb orb].
  apply Gen_node; [discriminate|reflexivity|reflexivity|].
  apply GK_keep.
  - apply Gen_wild; [repeat split; repeat constructor|reflexivity|discriminate].
  - apply GK_keep; [|apply GK_nil].
    apply Gen_node; [discriminate|reflexivity|reflexivity|].
    apply GK_keep; [|apply GK_nil]. apply Gen_node; [discriminate|reflexivity|reflexivity|apply GK_nil].
Qed.

Example ex5_general_matches : exists m', In m' (find_matches ex5_general ex5_student).
Proof. eapply generalised_pattern_still_matches; [exact ex5_found|exact ex5_gen]. Qed.
