(* C07 proofs. *)
From Coq Require Import List String Bool.
Import ListNotations.
From Pedal Require Import model.C07_Assert gen.C07_Gen.
Open Scope string_scope.

Definition all_match : bool := forallb (fun d => condition_matches gen_conditions doc_relations (fst d)) doc_relations.
Lemma all_match_ok : all_match = true.
Proof. vm_compute. reflexivity. Qed.

(* with no operand error, stripping "errors(..) or" and double negations does not change what a condition evaluates to *)
Lemma eval_strip_both atom f :
  eval atom false f = eval atom false (strip f) /\ eval atom false (FNot f) = eval atom false (strip (FNot f)).
Proof.
  induction f as [|r|g [IH1 IH2]|a [IHa1 IHa2] b [IHb1 IHb2]].
  - split; reflexivity.
  - split; reflexivity.
  - split.
    + exact IH2.
    + change (strip (FNot (FNot g))) with (strip g). rewrite <- IH1. cbn [eval]. destruct (eval atom false g); reflexivity.
  - split.
    + destruct a; try reflexivity. change (strip (FOr FErr b)) with (strip b). rewrite <- IHb1. reflexivity.
    + reflexivity.
Qed.

Lemma eval_strip atom f : eval atom false f = eval atom false (strip f).
Proof. apply eval_strip_both. Qed.

(* MAIN: for every assertion of the regenerated table, for EVERY interpretation of the atomic relation (it may hold,
   not hold, or raise) and whether or not an operand is an error: the assertion stays silent exactly when no operand
   is an error and the documented relation is evaluable and holds (resp. does not hold, for the negated assertions) *)
Theorem assert_spec n a pos c :
  lookup n doc_relations = Some (a, pos) -> lookup n gen_conditions = Some c ->
  forall atom err,
    silent atom err c = true <-> err = false /\ atom a = (if pos then ETrue else EFalse).
Proof.
  intros Hd Hc atom err.
  assert (Hm : condition_matches gen_conditions doc_relations n = true).
  { pose proof all_match_ok as H. unfold all_match in H. rewrite forallb_forall in H.
    assert (Hin : In (n, (a, pos)) doc_relations).
    { clear - Hd. induction doc_relations as [|[m x] l IH]; cbn in Hd; [discriminate|].
      destruct (String.eqb_spec n m); [injection Hd as <-; subst; now left|right; now apply IH]. }
    exact (H _ Hin). }
  unfold condition_matches in Hm. rewrite Hc, Hd in Hm.
  unfold silent, fires. destruct err.
  - cbn. split; [discriminate|intros [H _]; discriminate].
  - rewrite eval_strip. destruct (strip c) as [|r|g|x y]; try (destruct pos; discriminate).
    + (* FAtom r : negated assertion *)
      destruct pos; [discriminate|]. apply String.eqb_eq in Hm. subst r. cbn [eval].
      destruct (atom a); cbn; split; try tauto; try discriminate; try (intros [_ H]; discriminate).
    + (* FNot (FAtom r) : positive assertion *)
      destruct g as [|r|h|x y]; try (destruct pos; discriminate).
      destruct pos; [|discriminate]. apply String.eqb_eq in Hm. subst r. cbn [eval].
      destruct (atom a); cbn; split; try tauto; try discriminate; try (intros [_ H]; discriminate).
Qed.

(* an assertion and its negated counterpart: on evaluable operands without errors exactly one of them is silent *)
Theorem negation_pair n n' a c c' :
  lookup n doc_relations = Some (a, true) -> lookup n' doc_relations = Some (a, false) ->
  lookup n gen_conditions = Some c -> lookup n' gen_conditions = Some c' ->
  forall atom, atom a <> ERaise -> silent atom false c = negb (silent atom false c').
Proof.
  intros H1 H2 H3 H4 atom Hev.
  pose proof (assert_spec n a true c H1 H3 atom false) as S1.
  pose proof (assert_spec n' a false c' H2 H4 atom false) as S2.
  destruct (silent atom false c) eqn:E1, (silent atom false c') eqn:E2; cbn; try reflexivity.
  - destruct S1 as [S1 _]. destruct S2 as [S2 _]. destruct (S1 eq_refl) as [_ A1]. destruct (S2 eq_refl) as [_ A2]. congruence.
  - destruct (atom a) eqn:Ea; [| |congruence].
    + destruct S1 as [_ S1]. rewrite S1 in E1; [discriminate|auto].
    + destruct S2 as [_ S2]. rewrite S2 in E2; [discriminate|auto].
Qed.

(* operands that are errors, or for which the relation cannot be evaluated, never pass *)
Theorem error_or_unevaluable_fails n a pos c :
  lookup n doc_relations = Some (a, pos) -> lookup n gen_conditions = Some c ->
  forall atom err, err = true \/ atom a = ERaise -> silent atom err c = false.
Proof.
  intros Hd Hc atom err H. destruct (silent atom err c) eqn:E; [|reflexivity].
  apply (assert_spec n a pos c Hd Hc) in E. destruct E as [E1 E2].
  destruct H as [H|H]; [congruence|]. rewrite H in E2. destruct pos; discriminate.
Qed.

Example ex_less : exists c, lookup "assert_less" gen_conditions = Some c /\
  silent (fun _ => ETrue) false c = true /\ silent (fun _ => ERaise) false c = false /\ silent (fun _ => ETrue) true c = false.
Proof. eexists. split; [reflexivity|]. vm_compute. repeat split; reflexivity. Qed.
