(* C09, for loops.
   TIFA analyses   for x in f(rs): B   as the straight-line block   x = f(rs); B   (visit_For: the iterable is read, the
   target stored, the body visited once in the same path).  A real execution reads the iterable once and runs
   x = <item>; B   k times, k >= 0  (model/C09_Tifa.v: for_analysed / for_run).
   (1) when the body runs at least once, no uninitialised read is missed - anywhere in the loop or after it, for any
       number of iterations;
   (2) when the iterable is empty the statement is FALSE: for_zero_iterations_refuted exhibits a program on which TIFA
       reports nothing although an execution reads an unassigned variable.  That witness, replayed on the
       implementation, is the recorded finding  missed-uninitialised-read:for-zero-iterations. *)
From Coq Require Import List Bool Arith Lia.
Import ListNotations.
From Pedal Require Import model.C09_Tifa proof.C09_Lemmas proof.C09_While.

Lemma sites_incl_both a b c : sites_incl a c -> sites_incl b c -> sites_incl (a ++ b) c.
Proof.
  intros Ha Hb i Hi. apply in_app_or in Hi. destruct Hi as [Hi|Hi]; [exact (Ha i Hi)|exact (Hb i Hi)].
Qed.

Section OneLoop.
  Variables (l : line) (x : var) (rs : list var) (body : block).

  Definition iter_block : block := BCons (Assign l x []) body.

  Lemma iterations_succ k : iterations l x body (S k) = bapp iter_block (iterations l x body k).
  Proof. reflexivity. Qed.

  (* reading the iterable and then binding the target is what  x = f(rs)  does *)
  Lemma run_once_more k St :
    s_block (for_run l x rs body (S k)) St = s_block (bapp (for_analysed l x rs body) (iterations l x body k)) St.
  Proof.
    unfold for_run, for_analysed. rewrite iterations_succ. unfold iter_block. cbn [bapp].
    rewrite !block_unfold_cons. rewrite !stmt_unfold_assign. cbn [s_stmt s_loads fst snd app]. reflexivity.
  Qed.

  (* one more iteration from a state that covers T reports nothing that the iteration from T does not report *)
  Lemma iterations_sound k : forall St T, dom St T ->
    sites_incl (snd (s_block (iterations l x body k) St)) (snd (s_block iter_block T)).
  Proof.
    induction k as [|k IH]; intros St T Hd.
    - cbn. intros i [].
    - rewrite iterations_succ, block_app. cbn [snd]. apply sites_incl_both.
      + exact (proj2 (proj2 mono_both iter_block St T Hd)).
      + apply IH. eapply dom_trans; [apply (proj2 grow_both)|exact Hd].
  Qed.

  (* the state after the analysed block covers the state in which its body started *)
  Lemma after_analysed_covers St :
    dom (fst (s_block (for_analysed l x rs body) St)) (fst (s_loads l St rs)).
  Proof.
    unfold for_analysed. rewrite block_unfold_cons, stmt_unfold_assign. cbn [fst].
    eapply dom_trans; [apply (proj2 grow_both)|].
    intros c Hc. apply in_map_iff in Hc. destruct Hc as (c0 & <- & H0). exists c0. split; [exact H0|].
    intros y Hy. rewrite assigned_store, Hy. apply orb_true_r.
  Qed.

  Lemma iter_issues_are_body_issues St :
    sites_incl (snd (s_block iter_block (fst (s_loads l St rs)))) (snd (s_block (for_analysed l x rs body) St)).
  Proof.
    unfold iter_block, for_analysed. rewrite !block_unfold_cons, !stmt_unfold_assign. cbn [s_loads fst snd app].
    apply sites_incl_r. apply sites_incl_refl.
  Qed.

  Lemma loop_then_rest_sound k rest St :
    sites_incl (snd (s_block (bapp (for_run l x rs body (S k)) rest) St))
               (snd (s_block (bapp (for_analysed l x rs body) rest) St)).
  Proof.
    rewrite !block_app, run_once_more, block_app. cbn [fst snd].
    set (SA := fst (s_block (for_analysed l x rs body) St)).
    rewrite <- app_assoc. apply sites_incl_both; [apply sites_incl_l, sites_incl_refl|].
    apply sites_incl_both.
    - (* the further iterations *)
      apply sites_incl_l. eapply sites_incl_trans; [apply (iterations_sound k SA _ (after_analysed_covers St))|].
      apply iter_issues_are_body_issues.
    - (* what follows the loop *)
      apply sites_incl_r.
      exact (proj2 (proj2 mono_both rest _ _ (proj2 grow_both (iterations l x body k) SA))).
  Qed.
End OneLoop.

(* TIFA reports, at that line and for that variable, every read that is unassigned on some execution in which the loop
   body runs at least once (k + 1 iterations, any k), whatever precedes and follows the loop *)
Theorem for_no_missed_read_when_the_body_runs pre l x rs body rest k :
  forall i, In i (snd (s_block (bapp pre (bapp (for_run l x rs body (S k)) rest)) [cempty])) ->
  exists j, In j (snd (t_block (bapp pre (bapp (for_analysed l x rs body) rest)) aempty)) /\ site j = site i.
Proof.
  intros i Hi. rewrite tifa_exact_init. rewrite block_app in Hi |- *. cbn [snd] in Hi |- *.
  apply in_app_or in Hi. destruct Hi as [Hi|Hi].
  - exists i. split; [apply in_or_app; now left|reflexivity].
  - destruct (loop_then_rest_sound l x rs body k rest _ i Hi) as (j & Hj & E).
    exists j. split; [apply in_or_app; now right|exact E].
Qed.

(* exactly one iteration is exactly what TIFA analyses *)
Theorem for_one_iteration_is_what_tifa_analyses l x rs body St :
  s_block (for_run l x rs body 1) St = s_block (for_analysed l x rs body) St.
Proof.
  rewrite run_once_more. cbn [iterations]. rewrite block_app. cbn [s_block fst snd].
  rewrite app_nil_r. symmetry. apply fst_snd_pair.
Qed.

(* (2) zero iterations:   for v2 in f(): v0 = ...     print(v0)   - TIFA reports nothing, the execution with an empty
   iterable reads v0 unassigned on line 3 *)
Definition ex_for_body : block := BCons (Assign 2 0 []) BNil.
Definition ex_for_rest : block := BCons (Expr 3 [0]) BNil.

Theorem for_zero_iterations_refuted :
  exists l x rs body rest,
    snd (t_block (bapp (for_analysed l x rs body) rest) aempty) = [] /\
    In (3, 0, InitProblem) (snd (s_block (bapp (for_run l x rs body 0) rest) [cempty])).
Proof.
  exists 1, 2, [], ex_for_body, ex_for_rest. split; vm_compute; auto.
Qed.

(* non-vacuity of (1): the same program with the body run three times has no unassigned read, and TIFA agrees *)
Example ex_for_three_iterations :
  snd (s_block (bapp (for_run 1 2 [] ex_for_body 3) ex_for_rest) [cempty]) = [] /\
  snd (t_block (bapp (for_analysed 1 2 [] ex_for_body) ex_for_rest) aempty) = [].
Proof. split; vm_compute; reflexivity. Qed.

(* ... and a read the loop does not protect is reported in both *)
Example ex_for_reported :
  exists j, In j (snd (t_block (bapp (for_analysed 1 2 [1] ex_for_body) ex_for_rest) aempty)) /\ site j = (1, 1).
Proof.
  assert (Hi : In (1, 1, InitProblem) (snd (s_block (bapp BNil (bapp (for_run 1 2 [1] ex_for_body 2) ex_for_rest)) [cempty])))
    by (vm_compute; auto).
  destruct (for_no_missed_read_when_the_body_runs BNil 1 2 [1] ex_for_body ex_for_rest 1 _ Hi) as (j & Hj & E).
  exists j. split; [exact Hj|exact E].
Qed.
