(* C16: without the hypothesis that the real types' slots decline a proxy operand (declines_proxy), right-hand transparency
   is FALSE.  Witness: a type whose `%` slot accepts any right operand that looks like a mapping - CPython's str.__mod__:
   'ab' % 7 raises TypeError, but 'ab' % proxy(7) returns 'ab' because the proxy defines __getitem__ and is never asked for
   its value.  This is the recorded finding  str-formatting-with-proxied-argument  (and the shape of the other three
   findings where CPython never consults the proxy). *)
From Coq Require Import List String Bool Arith.
Import ListNotations.
From Pedal Require Import model.C16_Proxy gen.C16_Gen.

Definition greedy_nb (t : nat) (o : bop) : option (xval bool -> xval bool -> res bool) :=
  match o with
  | Mod => Some (fun a b => match b with Proxy _ => RVal a | Real _ => RRaise end)
  | _ => None
  end.

Theorem transparent_right_without_declining_slots_refuted :
  exists (nb : nat -> bop -> option (xval bool -> xval bool -> res bool)) x w,
    binop bool (fun _ => 0) nb (fun _ _ => None) gen_dunders Mod (Real x) (Proxy w)
    <> wrap bool (binop_real bool (fun _ => 0) nb (fun _ _ => None) Mod x w).
Proof. exists greedy_nb, true, false. vm_compute. discriminate. Qed.
