(* C19: the operator theorems hold whichever pedal class the operands carry - a variable assigned a literal holds a Literal*
   type, which apply_binary_operation promotes before the table is consulted. *)
From Coq Require Import List String Bool.
Import ListNotations.
From Pedal Require Import model.C19_Types gen.C19_Gen model.C19_Compare model.C19_Apply proof.C19_Lemmas.
Open Scope string_scope.

Definition rep_pairs : list (core * string) := flat_map (fun c => map (fun n => (c, n)) (reps c)) all_core.

Lemma in_rep_pairs c n : In n (reps c) -> In (c, n) rep_pairs.
Proof.
  intros H. unfold rep_pairs. apply in_flat_map. exists c. split; [destruct c; cbn; auto 6|].
  apply in_map_iff. exists n. auto.
Qed.

Definition ptype_eqb' (x y : ptype) : bool :=
  match x, y with
  | PNum, PNum | PInt, PInt | PFloat, PFloat | PStr, PStr | PBool, PBool | PList, PList | PTuple, PTuple
  | PImpossible, PImpossible => true
  | _, _ => false
  end.
Lemma ptype_eqb'_eq x y : ptype_eqb' x y = true -> x = y.
Proof. destruct x, y; cbn; congruence. Qed.

Definition apply_is_table_b : bool :=
  forallb (fun op =>
    forallb (fun al =>
      forallb (fun br =>
        match apply_binop op (OClass (snd al)) (OClass (snd br)) with
        | RType t => ptype_eqb' t (T op (fst al) (fst br))
        | RSame _ => false
        end) rep_pairs) rep_pairs) binops.
Lemma apply_is_table_ok : apply_is_table_b = true.
Proof. vm_compute. reflexivity. Qed.

(* with operands typed by ANY class that stands for their core type (plain or literal), apply_binary_operation gives what the
   table gives for the core types *)
Theorem apply_on_any_representation op a b la rb :
  In op binops -> In la (reps a) -> In rb (reps b) -> apply_binop op (OClass la) (OClass rb) = RType (T op a b).
Proof.
  intros Hop Hl Hr. pose proof apply_is_table_ok as H. unfold apply_is_table_b in H.
  rewrite forallb_forall in H. specialize (H op Hop). rewrite forallb_forall in H.
  specialize (H (a, la) (in_rep_pairs a la Hl)). rewrite forallb_forall in H.
  specialize (H (b, rb) (in_rep_pairs b rb Hr)). cbn [fst snd] in H.
  destruct (apply_binop op (OClass la) (OClass rb)) as [o|t]; [discriminate|]. apply ptype_eqb'_eq in H. now subst.
Qed.

(* hence: whenever CPython raises TypeError for the operand types, incompatible types are reported - for literal operands too *)
Theorem reports_when_cpython_raises_any_representation op a b la rb :
  In op binops -> In la (reps a) -> In rb (reps b) -> cpy_raises op a b = true ->
  apply_binop op (OClass la) (OClass rb) = RType PImpossible.
Proof.
  intros Hop Hl Hr Hc. rewrite (apply_on_any_representation op a b la rb Hop Hl Hr).
  now rewrite (reports_when_cpython_raises op a b Hop Hc).
Qed.

(* an operand of unknown type (AnyType) is never grounds for a report: the other operand's type is handed back *)
Theorem unknown_operand_is_never_reported op x : apply_binop op OAny x = RSame x /\ (x <> OAny -> apply_binop op x OAny = RSame x).
Proof. split; [reflexivity|]. destruct x; [congruence|reflexivity]. Qed.

Example ex_apply :
  apply_binop "Add" (OClass "LiteralInt") (OClass "LiteralStr") = RType PImpossible /\
  apply_binop "Mult" (OClass "LiteralStr") (OClass "IntType") = RType PStr /\
  apply_binop "Add" OAny (OClass "LiteralStr") = RSame (OClass "LiteralStr").
Proof. vm_compute. repeat split; reflexivity. Qed.
