(* C19 proofs, comparisons: finite theorems over the REGENERATED visit_Compare surface. *)
From Coq Require Import List String Bool.
Import ListNotations.
From Pedal Require Import model.C19_Types gen.C19_Gen model.C19_Compare.
Open Scope string_scope.

Definition cmp_cells : list (string * core * core) :=
  flat_map (fun op => flat_map (fun a => map (fun b => (op, a, b)) all_core) all_core) cmpops.

Lemma in_cmp_cells op a b : In op cmpops -> In (op, a, b) cmp_cells.
Proof.
  intros H. unfold cmp_cells. apply in_flat_map. exists op. split; [exact H|].
  apply in_flat_map. exists a. split; [destruct a; cbn; auto 6|].
  apply in_map_iff. exists b. split; [reflexivity|destruct b; cbn; auto 6].
Qed.

Definition all_reps (P : string -> string -> bool) (a b : core) : bool :=
  forallb (fun l => forallb (fun r => P l r) (reps b)) (reps a).

Lemma all_reps_spec P a b l r : all_reps P a b = true -> In l (reps a) -> In r (reps b) -> P l r = true.
Proof.
  unfold all_reps. intros H Hl Hr. rewrite forallb_forall in H. specialize (H l Hl).
  rewrite forallb_forall in H. exact (H r Hr).
Qed.

(* (1) whenever CPython raises TypeError for the operand types, visit_Compare reports incompatible types -
   whichever pedal class (plain or Literal-prefixed) the operands were typed with *)
Definition cmp_reports_b : bool :=
  forallb (fun '(op, a, b) =>
             if cpy_cmp_raises op a b
             then all_reps (fun l r => match tifa_cmp op l r with Some true => true | _ => false end) a b
             else true) cmp_cells.
Lemma cmp_reports_ok : cmp_reports_b = true.
Proof. vm_compute. reflexivity. Qed.

Theorem compare_reports_when_cpython_raises op a b l r :
  In op cmpops -> In l (reps a) -> In r (reps b) -> cpy_cmp_raises op a b = true -> tifa_cmp op l r = Some true.
Proof.
  intros Hop Hl Hr Hc. pose proof cmp_reports_ok as H. unfold cmp_reports_b in H. rewrite forallb_forall in H.
  specialize (H (op, a, b) (in_cmp_cells op a b Hop)). cbn beta iota in H. rewrite Hc in H.
  pose proof (all_reps_spec _ a b l r H Hl Hr) as H1. cbn beta in H1.
  destruct (tifa_cmp op l r) as [[|]|]; try discriminate. reflexivity.
Qed.

(* (2) exactness where the model decides: equality, identity and ordering comparisons, and membership in a number or a
   str, are reported IF AND ONLY IF CPython raises for those operand types (no false report on comparable operands) *)
Definition decided (op : string) (b : core) : bool :=
  negb (mem op ["In"; "NotIn"]) || match b with CList | CTuple => false | _ => true end.

Definition cmp_exact_b : bool :=
  forallb (fun '(op, a, b) =>
             if decided op b
             then all_reps (fun l r => match tifa_cmp op l r with Some x => Bool.eqb x (cpy_cmp_raises op a b) | None => false end) a b
             else true) cmp_cells.
Lemma cmp_exact_ok : cmp_exact_b = true.
Proof. vm_compute. reflexivity. Qed.

Theorem compare_exact op a b l r :
  In op cmpops -> In l (reps a) -> In r (reps b) -> decided op b = true ->
  tifa_cmp op l r = Some (cpy_cmp_raises op a b).
Proof.
  intros Hop Hl Hr Hd. pose proof cmp_exact_ok as H. unfold cmp_exact_b in H. rewrite forallb_forall in H.
  specialize (H (op, a, b) (in_cmp_cells op a b Hop)). cbn beta iota in H. rewrite Hd in H.
  pose proof (all_reps_spec _ a b l r H Hl Hr) as H1. cbn beta in H1.
  destruct (tifa_cmp op l r) as [x|]; [|discriminate]. apply eqb_prop in H1. now subst.
Qed.

(* the cells the model leaves open are exactly those where CPython never raises TypeError (membership in a list or tuple
   compares with ==): nothing the property demands is left undecided *)
Theorem undecided_cells_never_raise op a b : decided op b = false -> cpy_cmp_raises op a b = false.
Proof.
  unfold decided. intros H. apply orb_false_iff in H. destruct H as [H1 H2]. apply negb_false_iff in H1.
  unfold cpy_cmp_raises. destruct b; try discriminate.
  - destruct (mem op ["Eq"; "NotEq"; "Is"; "IsNot"]); [reflexivity|].
    destruct (mem op ["Lt"; "LtE"; "Gt"; "GtE"]) eqn:E.
    + exfalso. revert H1 E. unfold mem. cbn [existsb]. rewrite !orb_false_r.
      intros H1 E. repeat (apply orb_prop in E; destruct E as [E|E]); apply String.eqb_eq in E; subst op; discriminate.
    + rewrite H1. reflexivity.
  - destruct (mem op ["Eq"; "NotEq"; "Is"; "IsNot"]); [reflexivity|].
    destruct (mem op ["Lt"; "LtE"; "Gt"; "GtE"]) eqn:E.
    + exfalso. revert H1 E. unfold mem. cbn [existsb]. rewrite !orb_false_r.
      intros H1 E. repeat (apply orb_prop in E; destruct E as [E|E]); apply String.eqb_eq in E; subst op; discriminate.
    + rewrite H1. reflexivity.
Qed.

(* non-vacuity *)
Example ex_compare :
  tifa_cmp "Lt" "LiteralInt" "LiteralStr" = Some true /\ tifa_cmp "Lt" "IntType" "LiteralFloat" = Some false /\
  tifa_cmp "In" "ListType" "StrType" = Some true /\ tifa_cmp "In" "LiteralStr" "StrType" = Some false /\
  tifa_cmp "In" "IntType" "ListType" = None /\ tifa_cmp "Eq" "ListType" "IntType" = Some false /\
  cpy_cmp_raises "In" CList CStr = true.
Proof. vm_compute. repeat split; reflexivity. Qed.
