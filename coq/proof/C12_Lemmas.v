(* C12 proofs over the regenerated skeleton of verify(). *)
From Coq Require Import List Bool Arith.
Import ListNotations.
From Pedal Require Import lib.ExnFlow model.C12_Effects gen.C12_Gen.

Lemma verify_paths_ok : forallb verify_ok (paths veff None gen_verify) = true.
Proof. vm_compute. reflexivity. Qed.

(* for EVERY parser outcome (tree, SyntaxError, IndentationError, RecursionError/MemoryError) and every branch *)
Theorem verify_decision_table : forall o, verify_ok (exec veff o None gen_verify) = true.
Proof. exact (forall_paths veff verify_ok gen_verify verify_paths_ok). Qed.

(* consequences spelled out *)
Theorem verify_never_raises o : match fst (exec veff o None gen_verify) with Raised _ => False | _ => True end.
Proof.
  pose proof (verify_decision_table o) as H. destruct (exec veff o None gen_verify) as [oc t].
  cbn. destruct oc; [exact I|exact I|]. cbn in H. discriminate.
Qed.

(* indentation errors are reported as such (handler order: IndentationError before SyntaxError) *)
Definition indent_first (p : outcome * list veff) : bool :=
  negb (has VFbIndent (snd p) && has VFbSyntax (snd p)).
Lemma indent_paths : forallb indent_first (paths veff None gen_verify) = true.
Proof. vm_compute. reflexivity. Qed.
Theorem never_both_kinds : forall o, indent_first (exec veff o None gen_verify) = true.
Proof. exact (forall_paths veff indent_first gen_verify indent_paths). Qed.

(* non-vacuity: all four kinds of path exist *)
Example verify_paths_exist :
  existsb (fun p => has VParsed (snd p)) (paths veff None gen_verify) = true /\
  existsb (fun p => has VFbSyntax (snd p)) (paths veff None gen_verify) = true /\
  existsb (fun p => has VFbIndent (snd p)) (paths veff None gen_verify) = true /\
  existsb (fun p => has VFbBlank (snd p) && has VParsed (snd p)) (paths veff None gen_verify) = true.
Proof. vm_compute. repeat split; reflexivity. Qed.
