(* C09 proofs: TIFA's three-valued analysis is the EXACT abstraction of the path semantics on the branch subset. *)
From Coq Require Import List Bool Arith Lia.
Import ListNotations.
From Pedal Require Import model.C09_Tifa.

(* ------------------------------------------------------------------ tri_of *)
Lemma all_true_not_all_false (l : list bool) : l <> [] -> forallb (fun b => b) l = true -> forallb negb l = false.
Proof. destruct l as [|b l]; [congruence|]. cbn. destruct b; cbn; [reflexivity|discriminate]. Qed.

Lemma tri_of_app l1 l2 : l1 <> [] -> l2 <> [] -> tri_of (l1 ++ l2) = match_rso (tri_of l1) (tri_of l2).
Proof.
  intros H1 H2. unfold tri_of. rewrite !forallb_app.
  destruct (forallb (fun b => b) l1) eqn:T1, (forallb (fun b => b) l2) eqn:T2; cbn.
  - reflexivity.
  - rewrite (all_true_not_all_false l1 H1 T1). cbn. destruct (forallb negb l2); reflexivity.
  - rewrite (all_true_not_all_false l2 H2 T2). rewrite andb_false_r. destruct (forallb negb l1); reflexivity.
  - destruct (forallb negb l1), (forallb negb l2); reflexivity.
Qed.

Lemma tri_of_all_false l : l <> [] -> forallb negb l = true -> tri_of l = No.
Proof.
  intros Hn H. unfold tri_of. rewrite H.
  destruct (forallb (fun b => b) l) eqn:T; [|reflexivity].
  rewrite (all_true_not_all_false l Hn T) in H. discriminate.
Qed.
Lemma tri_of_all_true l : forallb (fun b => b) l = true -> tri_of l = Yes.
Proof. unfold tri_of. now intros ->. Qed.

Lemma map_nonempty {A B} (f : A -> B) l : l <> [] -> map f l <> [].
Proof. destruct l; [congruence|discriminate]. Qed.

(* ------------------------------------------------------------------ pointwise equality of abstract environments *)
Definition aeq (a b : aenv) : Prop := forall x, a x = b x.

Lemma alpha_none S x : alpha S x = None -> forall c, In c S -> c x = None.
Proof.
  unfold alpha. destruct (any_touched S x) eqn:E; [discriminate|]. intros _ c Hc.
  destruct (c x) eqn:Ec; [|reflexivity].
  assert (any_touched S x = true).
  { apply existsb_exists. exists c. unfold touched. rewrite Ec. auto. }
  congruence.
Qed.

Lemma untouched_flags S x :
  (forall c, In c S -> c x = None) ->
  forallb negb (map (fun c => c_is_assigned c x) S) = true /\ forallb negb (map (fun c => c_is_read c x) S) = true.
Proof.
  intros H. split; apply forallb_forall; intros b Hb; apply in_map_iff in Hb; destruct Hb as (c & <- & Hc);
    unfold c_is_assigned, c_is_read; rewrite (H c Hc); reflexivity.
Qed.

(* ---- load ---- *)
Lemma load_exact l a S x :
  S <> [] -> aeq a (alpha S) ->
  aeq (fst (t_load l a x)) (alpha (map (fun c => c_load c x) S)) /\ snd (t_load l a x) = classify l S x.
Proof.
  intros HS Ha. unfold t_load. rewrite (Ha x).
  assert (Hex : any_touched (map (fun c => c_load c x) S) x = true).
  { destruct S as [|c S]; [congruence|]. cbn. unfold touched, c_load, cupd. now rewrite Nat.eqb_refl. }
  assert (Hread : tri_of (map (fun c => c_is_read c x) (map (fun c => c_load c x) S)) = Yes).
  { apply tri_of_all_true. apply forallb_forall. intros b Hb. rewrite map_map in Hb. apply in_map_iff in Hb.
    destruct Hb as (c & <- & _). unfold c_is_read, c_load, cupd. now rewrite Nat.eqb_refl. }
  assert (Hass : map (fun c => c_is_assigned c x) (map (fun c => c_load c x) S) = map (fun c => c_is_assigned c x) S).
  { rewrite map_map. apply map_ext. intros c. unfold c_is_assigned at 1. unfold c_load, cupd. rewrite Nat.eqb_refl. reflexivity. }
  assert (Hother : forall y, Nat.eqb x y = false ->
            alpha (map (fun c => c_load c x) S) y = alpha S y).
  { intros y Hy. unfold alpha. rewrite !map_map.
    assert (E1 : forall (f : cenv -> bool), (forall c, f (c_load c x) = f c) -> True) by trivial.
    replace (any_touched (map (fun c => c_load c x) S) y) with (any_touched S y).
    2:{ clear - Hy. unfold any_touched. induction S as [|c S IH]; cbn; [reflexivity|]. rewrite IH. unfold touched, c_load, cupd. now rewrite Hy. }
    replace (map (fun c => c_is_assigned (c_load c x) y) S) with (map (fun c => c_is_assigned c y) S).
    2:{ apply map_ext. intros c. unfold c_is_assigned, c_load, cupd. now rewrite Hy. }
    replace (map (fun c => c_is_read (c_load c x) y) S) with (map (fun c => c_is_read c y) S).
    2:{ apply map_ext. intros c. unfold c_is_read, c_load, cupd. now rewrite Hy. }
    reflexivity. }
  destruct (alpha S x) as [s|] eqn:Eal.
  - (* the variable exists *)
    cbn [fst snd]. split.
    + intros y. unfold aupd. destruct (Nat.eqb x y) eqn:Exy.
      * apply Nat.eqb_eq in Exy. subst y. unfold alpha at 1. rewrite Hex, Hread, Hass.
        unfold alpha in Eal. destruct (any_touched S x); [|discriminate]. injection Eal as <-. reflexivity.
      * rewrite (Hother y Exy). apply Ha.
    + unfold classify. unfold alpha in Eal. destruct (any_touched S x); [|discriminate]. injection Eal as <-. cbn [a_set].
      destruct (tri_of (map (fun c => c_is_assigned c x) S)); reflexivity.
  - (* never seen on any path *)
    cbn [fst snd]. pose proof (alpha_none S x Eal) as Hnone.
    destruct (untouched_flags S x Hnone) as [HA _].
    assert (HtA : tri_of (map (fun c => c_is_assigned c x) S) = No)
      by (apply tri_of_all_false; [now apply map_nonempty|exact HA]).
    split.
    + intros y. unfold aupd. destruct (Nat.eqb x y) eqn:Exy.
      * apply Nat.eqb_eq in Exy. subst y. unfold alpha. rewrite Hex, Hread, Hass, HtA. reflexivity.
      * rewrite (Hother y Exy). apply Ha.
    + unfold classify. rewrite HtA. reflexivity.
Qed.

Lemma loads_exact l rs : forall a S,
  S <> [] -> aeq a (alpha S) ->
  aeq (fst (t_loads l a rs)) (alpha (fst (s_loads l S rs))) /\ snd (t_loads l a rs) = snd (s_loads l S rs)
  /\ fst (s_loads l S rs) <> [].
Proof.
  induction rs as [|x rs IH]; intros a S HS Ha; cbn [t_loads s_loads fst snd].
  - auto.
  - destruct (load_exact l a S x HS Ha) as [H1 H2].
    destruct (t_load l a x) as [a1 i1]. cbn [fst snd] in *.
    specialize (IH a1 (map (fun c => c_load c x) S) (map_nonempty _ S HS) H1).
    destruct (t_loads l a1 rs) as [a2 i2]. destruct (s_loads l (map (fun c => c_load c x) S) rs) as [S2 j2].
    cbn [fst snd] in *. destruct IH as (I1 & I2 & I3). repeat split; [exact I1|congruence|exact I3].
Qed.

(* ---- store ---- *)
Lemma store_exact a S x :
  S <> [] -> aeq a (alpha S) -> aeq (t_store a x) (alpha (map (fun c => c_store c x) S)).
Proof.
  intros HS Ha y. unfold t_store, aupd. destruct (Nat.eqb x y) eqn:Exy.
  - apply Nat.eqb_eq in Exy. subst y. unfold alpha.
    assert (Hex : any_touched (map (fun c => c_store c x) S) x = true).
    { destruct S as [|c S]; [congruence|]. cbn. unfold touched, c_store, cupd. now rewrite Nat.eqb_refl. }
    rewrite Hex. f_equal. f_equal.
    + symmetry. apply tri_of_all_true. apply forallb_forall. intros b Hb. rewrite map_map in Hb. apply in_map_iff in Hb.
      destruct Hb as (c & <- & _). unfold c_is_assigned, c_store, cupd. now rewrite Nat.eqb_refl.
    + symmetry. apply tri_of_all_false; [now apply map_nonempty, map_nonempty|].
      apply forallb_forall. intros b Hb. rewrite map_map in Hb. apply in_map_iff in Hb.
      destruct Hb as (c & <- & _). unfold c_is_read, c_store, cupd. now rewrite Nat.eqb_refl.
  - rewrite (Ha y). unfold alpha. rewrite !map_map.
    replace (any_touched (map (fun c => c_store c x) S) y) with (any_touched S y).
    2:{ clear - Exy. unfold any_touched. induction S as [|c S IH]; cbn; [reflexivity|]. rewrite IH. unfold touched, c_store, cupd. now rewrite Exy. }
    replace (map (fun c => c_is_assigned (c_store c x) y) S) with (map (fun c => c_is_assigned c y) S).
    2:{ apply map_ext. intros c. unfold c_is_assigned, c_store, cupd. now rewrite Exy. }
    replace (map (fun c => c_is_read (c_store c x) y) S) with (map (fun c => c_is_read c y) S).
    2:{ apply map_ext. intros c. unfold c_is_read, c_store, cupd. now rewrite Exy. }
    reflexivity.
Qed.

(* ---- merge ---- *)
Lemma any_touched_app S1 S2 x : any_touched (S1 ++ S2) x = (any_touched S1 x || any_touched S2 x)%bool.
Proof. unfold any_touched. apply existsb_app. Qed.

Lemma merge_exact ai ae S1 S2 :
  S1 <> [] -> S2 <> [] -> aeq ai (alpha S1) -> aeq ae (alpha S2) -> aeq (t_merge ai ae) (alpha (S1 ++ S2)).
Proof.
  intros H1 H2 Hi He x. unfold t_merge. rewrite (Hi x), (He x).
  assert (Hr : alpha (S1 ++ S2) x =
               if (any_touched S1 x || any_touched S2 x)%bool
               then Some (mkA (tri_of (map (fun c => c_is_assigned c x) S1 ++ map (fun c => c_is_assigned c x) S2))
                              (tri_of (map (fun c => c_is_read c x) S1 ++ map (fun c => c_is_read c x) S2)))
               else None).
  { unfold alpha. now rewrite any_touched_app, !map_app. }
  rewrite Hr. clear Hr.
  assert (N1a := map_nonempty (fun c => c_is_assigned c x) S1 H1).
  assert (N2a := map_nonempty (fun c => c_is_assigned c x) S2 H2).
  assert (N1r := map_nonempty (fun c => c_is_read c x) S1 H1).
  assert (N2r := map_nonempty (fun c => c_is_read c x) S2 H2).
  rewrite (tri_of_app _ _ N1a N2a), (tri_of_app _ _ N1r N2r).
  destruct (alpha S1 x) as [l|] eqn:E1; destruct (alpha S2 x) as [r|] eqn:E2.
  - unfold alpha in E1, E2.
    destruct (any_touched S1 x); [|discriminate]. destruct (any_touched S2 x); [|discriminate].
    injection E1 as <-. injection E2 as <-. reflexivity.
  - pose proof (alpha_none S2 x E2) as Hn. destruct (untouched_flags S2 x Hn) as [HA HR].
    rewrite (tri_of_all_false _ N2a HA), (tri_of_all_false _ N2r HR).
    unfold alpha in E1, E2. destruct (any_touched S1 x); [|discriminate]. destruct (any_touched S2 x); [discriminate|].
    injection E1 as <-. cbn [orb]. unfold combine_none. cbn [a_set a_read].
    f_equal. f_equal.
    + destruct (tri_of (map (fun c => c_is_assigned c x) S1)); reflexivity.
    + destruct (tri_of (map (fun c => c_is_read c x) S1)); reflexivity.
  - pose proof (alpha_none S1 x E1) as Hn. destruct (untouched_flags S1 x Hn) as [HA HR].
    rewrite (tri_of_all_false _ N1a HA), (tri_of_all_false _ N1r HR).
    unfold alpha in E1, E2. destruct (any_touched S1 x); [discriminate|]. destruct (any_touched S2 x); [|discriminate].
    injection E2 as <-. cbn [orb]. unfold combine_none. cbn [a_set a_read].
    f_equal. f_equal.
    + destruct (tri_of (map (fun c => c_is_assigned c x) S2)); reflexivity.
    + destruct (tri_of (map (fun c => c_is_read c x) S2)); reflexivity.
  - unfold alpha in E1, E2. destruct (any_touched S1 x); [discriminate|]. destruct (any_touched S2 x); [discriminate|]. reflexivity.
Qed.

(* ------------------------------------------------------------------ MAIN: exactness, by induction on the program *)
Definition exact_stmt (s : stmt) : Prop :=
  forall a S, S <> [] -> aeq a (alpha S) ->
    aeq (fst (t_stmt s a)) (alpha (fst (s_stmt s S))) /\ snd (t_stmt s a) = snd (s_stmt s S) /\ fst (s_stmt s S) <> [].
Definition exact_block (b : block) : Prop :=
  forall a S, S <> [] -> aeq a (alpha S) ->
    aeq (fst (t_block b a)) (alpha (fst (s_block b S))) /\ snd (t_block b a) = snd (s_block b S) /\ fst (s_block b S) <> [].

Lemma exact_both : (forall s, exact_stmt s) /\ (forall b, exact_block b).
Proof.
  apply stmt_block_ind; unfold exact_stmt, exact_block.
  - (* Assign *)
    intros l x rs a S HS Ha. cbn [t_stmt s_stmt].
    destruct (loads_exact l rs a S HS Ha) as (L1 & L2 & L3).
    destruct (t_loads l a rs) as [a1 i1]. destruct (s_loads l S rs) as [S1 j1]. cbn [fst snd] in *.
    repeat split; [now apply store_exact|exact L2|now apply map_nonempty].
  - (* Expr *)
    intros l rs a S HS Ha. cbn [t_stmt s_stmt]. apply loads_exact; assumption.
  - (* If *)
    intros l rs th IHt el IHe a S HS Ha. cbn [t_stmt s_stmt].
    destruct (loads_exact l rs a S HS Ha) as (L1 & L2 & L3).
    destruct (t_loads l a rs) as [a1 i1]. destruct (s_loads l S rs) as [S1 j1]. cbn [fst snd] in *.
    destruct (IHt a1 S1 L3 L1) as (T1 & T2 & T3). destruct (IHe a1 S1 L3 L1) as (E1 & E2 & E3).
    destruct (t_block th a1) as [ai ii]. destruct (s_block th S1) as [Si ji].
    destruct (t_block el a1) as [ae ie]. destruct (s_block el S1) as [Se je]. cbn [fst snd] in *.
    repeat split.
    + now apply merge_exact.
    + congruence.
    + destruct Si; [congruence|discriminate].
  - (* BNil *)
    intros a S HS Ha. cbn. auto.
  - (* BCons *)
    intros s IHs b IHb a S HS Ha. cbn [t_block s_block].
    destruct (IHs a S HS Ha) as (S1 & S2 & S3).
    destruct (t_stmt s a) as [a1 i1]. destruct (s_stmt s S) as [P1 j1]. cbn [fst snd] in *.
    destruct (IHb a1 P1 S3 S1) as (B1 & B2 & B3).
    destruct (t_block b a1) as [a2 i2]. destruct (s_block b P1) as [P2 j2]. cbn [fst snd] in *.
    repeat split; [exact B1|congruence|exact B3].
Qed.

Lemma alpha_start : aeq aempty (alpha [cempty]).
Proof. intros x. reflexivity. Qed.

(* every read site of every program of the subset is diagnosed exactly according to the set of all branch
   outcomes: nothing / Initialization Problem / Possible Initialization Problem *)
Theorem tifa_exact_init (b : block) : snd (t_block b aempty) = snd (s_block b [cempty]).
Proof.
  destruct exact_both as [_ H]. destruct (H b aempty [cempty]) as (_ & E & _); [discriminate|apply alpha_start|exact E].
Qed.

(* ... and the unused-variable report *)
Lemma unused_alpha S x : S <> [] -> t_unused (alpha S) x = s_unused S x.
Proof.
  intros HS. unfold t_unused, s_unused, alpha.
  destruct (any_touched S x); [|reflexivity].
  cbn [andb a_read]. unfold tri_of.
  assert (E : forallb (fun c => negb (c_is_read c x)) S = forallb negb (map (fun c => c_is_read c x) S)).
  { clear. induction S as [|c S IH]; cbn; [reflexivity|]. now rewrite IH. }
  rewrite E.
  destruct (forallb (fun b => b) (map (fun c => c_is_read c x) S)) eqn:T.
  - rewrite (all_true_not_all_false _ (map_nonempty _ S HS) T). reflexivity.
  - destruct (forallb negb (map (fun c => c_is_read c x) S)); reflexivity.
Qed.

Theorem tifa_exact_unused (b : block) (x : var) :
  t_unused (fst (t_block b aempty)) x = s_unused (fst (s_block b [cempty])) x.
Proof.
  destruct exact_both as [_ H]. destruct (H b aempty [cempty]) as (E & _ & N); [discriminate|apply alpha_start|].
  unfold t_unused at 1. rewrite (E x). now apply unused_alpha.
Qed.

(* a variable read after its last assignment on EVERY path is not reported unused *)
Theorem used_everywhere_not_reported (b : block) (x : var) :
  s_used_everywhere (fst (s_block b [cempty])) x = true -> t_unused (fst (t_block b aempty)) x = false.
Proof.
  intros H. rewrite tifa_exact_unused. unfold s_unused, s_used_everywhere in *.
  destruct exact_both as [_ Hb]. destruct (Hb b aempty [cempty]) as (_ & _ & N); [discriminate|apply alpha_start|].
  destruct (fst (s_block b [cempty])) as [|c S]; [congruence|].
  cbn in H |- *. apply andb_prop in H. destruct H as [H1 _]. rewrite H1. cbn. now rewrite andb_false_r.
Qed.

(* ------------------------------------------------------------------ the collecting semantics IS "all branch outcomes" *)
(* one execution: every If consumes one boolean of the choice list *)
Fixpoint p_loads (c : cenv) (rs : list var) : cenv :=
  match rs with [] => c | x :: rs' => p_loads (c_load c x) rs' end.

Fixpoint p_stmt (s : stmt) (c : cenv) (ch : list bool) {struct s} : option (cenv * list bool) :=
  match s with
  | Assign _ x rs => Some (c_store (p_loads c rs) x, ch)
  | Expr _ rs => Some (p_loads c rs, ch)
  | If _ rs th el =>
      match ch with
      | [] => None
      | true :: ch' => p_block th (p_loads c rs) ch'
      | false :: ch' => p_block el (p_loads c rs) ch'
      end
  end
with p_block (b : block) (c : cenv) (ch : list bool) {struct b} : option (cenv * list bool) :=
  match b with
  | BNil => Some (c, ch)
  | BCons s b' => match p_stmt s c ch with Some (c1, ch1) => p_block b' c1 ch1 | None => None end
  end.

Lemma s_loads_map l rs : forall S, fst (s_loads l S rs) = map (fun c => p_loads c rs) S.
Proof.
  induction rs as [|x rs IH]; intros S; cbn [s_loads p_loads fst].
  - now rewrite map_id.
  - specialize (IH (map (fun c => c_load c x) S)).
    destruct (s_loads l (map (fun c => c_load c x) S) rs) as [S2 i2]. cbn [fst] in *. rewrite IH, map_map. reflexivity.
Qed.

(* every single execution (any sequence of branch outcomes) ends in an environment of the collecting semantics *)
Lemma path_in_collecting_both :
  (forall s S c ch c' ch', In c S -> p_stmt s c ch = Some (c', ch') -> In c' (fst (s_stmt s S))) /\
  (forall b S c ch c' ch', In c S -> p_block b c ch = Some (c', ch') -> In c' (fst (s_block b S))).
Proof.
  apply stmt_block_ind.
  - intros l x rs S c ch c' ch' Hc H. cbn [p_stmt] in H. injection H as <- <-. cbn [s_stmt].
    pose proof (s_loads_map l rs S) as E. destruct (s_loads l S rs) as [S1 i1]. cbn [fst] in *. subst S1.
    rewrite map_map. apply in_map_iff. exists c. auto.
  - intros l rs S c ch c' ch' Hc H. cbn [p_stmt] in H. injection H as <- <-. cbn [s_stmt].
    rewrite s_loads_map. apply in_map_iff. exists c. auto.
  - intros l rs th IHt el IHe S c ch c' ch' Hc H. cbn [p_stmt] in H. cbn [s_stmt].
    pose proof (s_loads_map l rs S) as E. destruct (s_loads l S rs) as [S1 i1]. cbn [fst] in *. subst S1.
    assert (Hin : In (p_loads c rs) (map (fun c => p_loads c rs) S)) by (apply in_map_iff; exists c; auto).
    destruct ch as [|[|] ch0]; [discriminate| |].
    + specialize (IHt _ _ _ _ _ Hin H).
      destruct (s_block th (map (fun c => p_loads c rs) S)) as [Si ii].
      destruct (s_block el (map (fun c => p_loads c rs) S)) as [Se ie]. cbn [fst] in *. apply in_or_app. now left.
    + specialize (IHe _ _ _ _ _ Hin H).
      destruct (s_block th (map (fun c => p_loads c rs) S)) as [Si ii].
      destruct (s_block el (map (fun c => p_loads c rs) S)) as [Se ie]. cbn [fst] in *. apply in_or_app. now right.
  - intros S c ch c' ch' Hc H. cbn in H. injection H as <- <-. exact Hc.
  - intros s IHs b IHb S c ch c' ch' Hc H. cbn [p_block] in H. cbn [s_block].
    destruct (p_stmt s c ch) as [[c1 ch1]|] eqn:E; [|discriminate].
    specialize (IHs _ _ _ _ _ Hc E).
    destruct (s_stmt s S) as [S1 i1]. cbn [fst] in *.
    specialize (IHb _ _ _ _ _ IHs H). destruct (s_block b S1) as [S2 i2]. exact IHb.
Qed.

Theorem every_execution_is_collected b ch c' ch' :
  p_block b cempty ch = Some (c', ch') -> In c' (fst (s_block b [cempty])).
Proof. intros H. eapply (proj2 path_in_collecting_both); [now left|exact H]. Qed.

(* non-vacuity: if c: x = 1 / print(x) / y = 2   ->  possible initialization problem on x, y unused *)
Definition ex_prog : block :=
  BCons (If 1 [0] (BCons (Assign 2 1 []) BNil) BNil)
  (BCons (Expr 3 [1]) (BCons (Assign 4 2 []) BNil)).
Example ex_prog_issues :
  snd (t_block ex_prog aempty) = [(1, 0, InitProblem); (3, 1, PossibleInitProblem)]
  /\ t_unused (fst (t_block ex_prog aempty)) 2 = true /\ t_unused (fst (t_block ex_prog aempty)) 1 = false
  /\ length (fst (s_block ex_prog [cempty])) = 2.
Proof. vm_compute. repeat split; reflexivity. Qed.
