(* C17 proofs. *)
From Coq Require Import ZArith List Bool Lia.
Import ListNotations.
From Pedal Require Import lib.PyStr model.C17_Sections.
Open Scope Z_scope.

Section Split.
  Variable is_marker : str -> bool.

  (* lines glued back with their owed separators *)
  Fixpoint sj (lines : list str) (first : bool) : str :=
    match lines with
    | [] => []
    | l :: ls => (if first then [] else [NL]) ++ l ++ sj ls false
    end.

  Lemma concat_chunks lines : forall acc first,
    concat (chunks_from is_marker lines acc first) = acc ++ sj lines first.
  Proof.
    induction lines as [|l ls IH]; intros acc first; cbn [chunks_from sj].
    - cbn. now rewrite !app_nil_r.
    - destruct (is_marker l).
      + cbn [concat]. rewrite IH. cbn. now rewrite <- !app_assoc.
      + rewrite IH. now rewrite <- !app_assoc.
  Qed.

  Lemma join_sj l ls : join_nl (l :: ls) = l ++ sj ls false.
  Proof.
    revert l. induction ls as [|m ls IH]; intros l.
    - cbn. now rewrite app_nil_r.
    - change (join_nl (l :: m :: ls)) with (l ++ NL :: join_nl (m :: ls)).
      rewrite IH. reflexivity.
  Qed.

  Lemma sj_split t : sj (split_nl t) true = t.
  Proof.
    pose proof (join_split t) as H. destruct (split_nl t) as [|l ls] eqn:E.
    - now destruct (split_nl_nonempty t).
    - rewrite join_sj in H. cbn [sj]. exact H.
  Qed.

  (* separating into sections loses nothing *)
  Theorem split_lossless t : concat (split_sections is_marker t) = t.
  Proof. unfold split_sections. rewrite concat_chunks. cbn. apply sj_split. Qed.

  (* shape: code, marker, code, ..., code  with every odd-position chunk a marker line *)
  Inductive alternating : list str -> Prop :=
  | alt_one c : alternating [c]
  | alt_more c m rest : is_marker m = true -> alternating rest -> alternating (c :: m :: rest).

  Lemma chunks_alternating lines : forall acc first, alternating (chunks_from is_marker lines acc first).
  Proof.
    induction lines as [|l ls IH]; intros acc first; cbn [chunks_from].
    - constructor.
    - destruct (is_marker l) eqn:E; [constructor; auto|apply IH].
  Qed.

  Theorem split_alternating t : alternating (split_sections is_marker t).
  Proof. apply chunks_alternating. Qed.

  Lemma alternating_odd cs : alternating cs -> exists k, length cs = (2 * k + 1)%nat.
  Proof.
    induction 1 as [c|c m rest Hm Halt [k Hk]].
    - exists 0%nat. reflexivity.
    - exists (S k). cbn [length]. lia.
  Qed.

  Lemma alternating_markers cs : alternating cs ->
    forall i m, nth_error cs (2 * i + 1) = Some m -> is_marker m = true.
  Proof.
    induction 1 as [c|c m rest Hm Halt IH]; intros i x H.
    - replace (2 * i + 1)%nat with (S (2 * i)) in H by lia. cbn [nth_error] in H. destruct (2 * i)%nat; discriminate.
    - destruct i as [|i].
      + cbn in H. injection H as <-. exact Hm.
      + replace (2 * S i + 1)%nat with (S (S (2 * i + 1))) in H by lia. cbn [nth_error] in H.
        exact (IH i x H).
  Qed.

  (* ---------------- line numbers ---------------- *)
  Lemma count_nl_app a b : count_nl (a ++ b) = count_nl a + count_nl b.
  Proof. unfold count_nl. rewrite filter_app, app_length. lia. Qed.

  (* 1-based line on which position p of s sits *)
  Definition line_of_pos (s : str) (p : nat) : Z := 1 + count_nl (firstn p s).

  (* KEY: a character of chunk b, inside a ++ b ++ c, sits on line  (newlines of a) + (its line inside b) *)
  Theorem line_mapping a b c p :
    (p <= length b)%nat ->
    line_of_pos (a ++ b ++ c) (length a + p) = count_nl a + line_of_pos b p.
  Proof.
    intros Hp. unfold line_of_pos.
    rewrite firstn_app_2, count_nl_app.
    rewrite firstn_app. replace (p - length b)%nat with 0%nat by lia. cbn [firstn]. rewrite app_nil_r. lia.
  Qed.

  Lemma split3 {A} (l : list (list A)) n x :
    nth_error l n = Some x -> concat l = concat (firstn n l) ++ x ++ concat (skipn (S n) l).
  Proof.
    revert n. induction l as [|y l IH]; intros n H; [destruct n; discriminate|].
    destruct n as [|n]; cbn in *.
    - now injection H as ->.
    - rewrite (IH n H). now rewrite <- app_assoc.
  Qed.

  (* independent mode: section k IS chunk 2k, the file is  before ++ section ++ after, and every position of
     the section sits on file line  offset + (line inside the section) *)
  Theorem independent_section_spec t k c off :
    section_independent is_marker t k = Some (c, off) ->
    nth_error (split_sections is_marker t) (2 * k) = Some c /\
    exists before after,
      t = before ++ c ++ after /\ off = count_nl before /\
      forall p, (p <= length c)%nat ->
        line_of_pos t (length before + p) = off + line_of_pos c p.
  Proof.
    unfold section_independent. destruct (nth_error _ _) as [c'|] eqn:E; [|discriminate].
    intros [= <- <-]. split; [reflexivity|].
    exists (concat (firstn (2 * k) (split_sections is_marker t))),
           (concat (skipn (S (2 * k)) (split_sections is_marker t))).
    pose proof (split3 _ _ _ E) as H3. rewrite split_lossless in H3.
    split; [exact H3|]. split; [reflexivity|].
    intros p Hp. rewrite H3 at 1. now apply line_mapping.
  Qed.

  (* cumulative mode: the section text is a prefix of the file, so line numbers coincide (offset 0) *)
  Theorem cumulative_section_spec t k c off :
    section_cumulative is_marker t k = Some (c, off) ->
    off = 0 /\ exists after, t = c ++ after /\
      forall p, (p <= length c)%nat -> line_of_pos t p = line_of_pos c p.
  Proof.
    unfold section_cumulative. destruct (nth_error _ _) as [c'|] eqn:E; [|discriminate].
    intros [= <- <-]. split; [reflexivity|].
    exists (concat (skipn (2 * k + 1) (split_sections is_marker t))).
    assert (Ht : t = concat (firstn (2 * k + 1) (split_sections is_marker t))
                     ++ concat (skipn (2 * k + 1) (split_sections is_marker t))).
    { rewrite <- concat_app, firstn_skipn. symmetry. apply split_lossless. }
    split; [exact Ht|].
    intros p Hp. rewrite Ht at 1.
    pose proof (line_mapping [] (concat (firstn (2 * k + 1) (split_sections is_marker t)))
                 (concat (skipn (2 * k + 1) (split_sections is_marker t))) p Hp) as H.
    cbn [app length Nat.add] in H. rewrite H. unfold count_nl. cbn. lia.
  Qed.

  (* every tool applies the offset *)
  Theorem tools_apply_offset : forall tl l off, report_line tl l off = l + off.
  Proof. reflexivity. Qed.

  (* ---------------- the substitution stack ---------------- *)
  (* the bottom of (stack ++ current main) is the original text, whatever happens *)
  Definition bottom (s : sst) : str := last (stack s) (main s).

  Lemma last_cons_default {A} (x : A) l d : last (x :: l) d = last l x.
  Proof.
    revert x d. induction l as [|y l IH]; intros x d; [reflexivity|].
    change (last (x :: y :: l) d) with (last (y :: l) d). rewrite IH. symmetry. apply IH.
  Qed.

  Lemma sstep_bottom s o s' : sstep is_marker s o = Some s' -> bottom s' = bottom s.
  Proof.
    unfold bottom. destruct s as [m st sc si ind lo ne].
    destruct o as [ind'| | | |c|]; cbn -[last].
    - intros [= <-]. cbn -[last]. now rewrite last_cons_default.
    - destruct st as [|top rest]; [discriminate|].
      destruct (Nat.leb _ _); [destruct ind|]; intros [= <-]; cbn -[last]; rewrite ?last_cons_default; reflexivity.
    - destruct st as [|top rest]; [discriminate|]. intros [= <-]. cbn -[last]. now rewrite last_cons_default.
    - destruct st as [|top rest]; intros [= <-]; cbn -[last]; [reflexivity|]. now rewrite last_cons_default.
    - intros [= <-]. cbn -[last]. now rewrite last_cons_default.
    - destruct st as [|top rest]; [discriminate|]. intros [= <-]. cbn -[last]. now rewrite last_cons_default.
  Qed.

  Lemma srun_bottom ops : forall s s', srun is_marker s ops = Some s' -> bottom s' = bottom s.
  Proof.
    induction ops as [|o ops IH]; intros s s'; cbn [srun]; [now intros [= <-]|].
    destruct (sstep is_marker s o) as [s1|] eqn:E; [|discriminate].
    intros H. rewrite (IH _ _ H). eapply sstep_bottom; eauto.
  Qed.

  (* after ANY sequence of section/source operations, whenever no substitution is outstanding,
     the main code is the original text again *)
  Theorem stack_restores t ops s' :
    srun is_marker (sinit t) ops = Some s' -> stack s' = [] -> main s' = t.
  Proof.
    intros H Hs. pose proof (srun_bottom _ _ _ H) as Hb. unfold bottom in Hb. rewrite Hs in Hb. exact Hb.
  Qed.

  (* resolving always leaves no section substitution on top: Resolve pops one level when there is one *)
  Theorem resolve_after_sections t ind nexts s' :
    srun is_marker (sinit t) (Separate ind :: repeat Next nexts ++ [Resolve]) = Some s' -> main s' = t.
  Proof.
    intros H. apply (stack_restores t _ s' H).
    cbn [srun sstep] in H.
    remember (mkSst _ _ _ _ _ _ _) as s1.
    assert (Hst : stack s1 = [t]) by (subst; reflexivity).
    clear Heqs1. revert s1 Hst H.
    induction nexts as [|n IH]; intros s1 Hst H; cbn [repeat app srun] in H.
    - cbn [sstep] in H. rewrite Hst in H. injection H as <-. reflexivity.
    - destruct (sstep is_marker s1 Next) as [s2|] eqn:E; [|discriminate].
      apply (IH s2); [|exact H].
      cbn [sstep] in E. rewrite Hst in E.
      destruct (Nat.leb _ _); [destruct (indep s1)|]; injection E as <-; reflexivity.
  Qed.

  (* asking for a section past the end attaches the not-enough-sections feedback; it never fails *)
  Theorem next_never_fails_inside_sections s :
    stack s <> [] -> exists s', sstep is_marker s Next = Some s'.
  Proof.
    intros H. cbn [sstep]. destruct (stack s); [contradiction|].
    destruct (Nat.leb _ _); [destruct (indep s)|]; eauto.
  Qed.

  Theorem past_end_gives_feedback s s' :
    sstep is_marker s Next = Some s' ->
    (Nat.div (sec_index s + 2 + 1) 2 > Nat.div (length (secs s) - 1) 2)%nat ->
    not_enough s' = S (not_enough s) /\ exists top rest, stack s = top :: rest /\ main s' = top.
  Proof.
    cbn [sstep]. destruct (stack s) as [|top rest]; [discriminate|]. intros H Hgt.
    destruct (Nat.leb_spec (Nat.div (sec_index s + 2 + 1) 2) (Nat.div (length (secs s) - 1) 2)); [lia|].
    injection H as <-. cbn. eauto.
  Qed.
  (* when the sections are stopped (by stop_sections or by the resolver) no offset stays registered: what is analysed or run
     afterwards is the whole file, whose lines are the file's lines *)
  Theorem stop_clears_the_offset s s' :
    stack s <> [] -> (sstep is_marker s Stop = Some s' \/ sstep is_marker s Resolve = Some s') -> line_offset s' = 0%Z.
  Proof.
    intros Hs [H|H]; cbn [sstep] in H; destruct (stack s) as [|top rest]; try congruence; inversion H; reflexivity.
  Qed.
End Split.

(* non-vacuity: a three-part file with the default pattern *)
Definition ex_file : str :=
  [97; 10] ++ PREFIX ++ [49; 10; 98; 10; 99; 10] ++ PREFIX ++ [50; 10; 100].
Example ex_split :
  length (split_sections default_marker ex_file) = 5%nat /\
  section_independent default_marker ex_file 1 = Some ([10; 98; 10; 99; 10], 1) /\
  section_independent default_marker ex_file 2 = Some ([10; 100], 4) /\
  section_independent default_marker ex_file 3 = None.
Proof. vm_compute. repeat split; reflexivity. Qed.
