(* C08 proofs. *)
From Coq Require Import ZArith List String Bool Lia.
Import ListNotations.
From Pedal Require Import lib.PyMini lib.Assoc model.C08_Static gen.C08_Gen.
Open Scope string_scope.
Open Scope list_scope.

(* ------------------------------------------------------------------ tables *)
(* The regenerated tables agree with CPython's symbol -> class table on EVERY key. *)
Lemma gen_compare_agrees : forall k, assoc k gen_COMPARE_OP_NAMES = assoc k cpy_compare.
Proof. apply tables_agree_sound. vm_compute. reflexivity. Qed.
Lemma gen_boolop_agrees : forall k, assoc k gen_BOOL_OP_NAMES = assoc k cpy_boolop.
Proof. apply tables_agree_sound. vm_compute. reflexivity. Qed.
Lemma gen_binop_agrees : forall k, assoc k gen_BIN_OP_NAMES = assoc k cpy_binop.
Proof. apply tables_agree_sound. vm_compute. reflexivity. Qed.
Lemma gen_unaryop_agrees : forall k, assoc k gen_UNARY_OP_NAMES = assoc k cpy_unaryop.
Proof. apply tables_agree_sound. vm_compute. reflexivity. Qed.

Definition gen_find_operation :=
  find_operation gen_COMPARE_OP_NAMES gen_BOOL_OP_NAMES gen_BIN_OP_NAMES gen_UNARY_OP_NAMES.
Definition cpy_find_operation :=
  find_operation cpy_compare cpy_boolop cpy_binop cpy_unaryop.

Lemma gen_find_operation_eq sym t : gen_find_operation sym t = cpy_find_operation sym t.
Proof.
  unfold gen_find_operation, cpy_find_operation, find_operation.
  rewrite gen_compare_agrees, gen_boolop_agrees, gen_binop_agrees, gen_unaryop_agrees.
  reflexivity.
Qed.

(* --------------------------------------------------- counting lemmas (lists) *)
Lemma length_flat_map_pick {A B} (p : B -> bool) (f : A -> list B) (L : list A) :
  List.length (flat_map (fun c => flat_map (fun o => if p o then [c] else []) (f c)) L)
  = List.length (filter p (flat_map f L)).
Proof.
  induction L as [|c L IH]; cbn; [reflexivity|].
  rewrite app_length, IH, filter_app, app_length. f_equal.
  induction (f c) as [|o os IHo]; cbn; [reflexivity|].
  destruct (p o); cbn; rewrite IHo; reflexivity.
Qed.

Lemma length_filter_single_op (cls : string) (owner : node -> bool) (L : list node) :
  (forall n, In n L -> owner n = true -> exists o, field "op" n = [o]) ->
  List.length (filter (fun b => String.eqb (op_name b) cls) (filter owner L))
  = List.length (filter (fun o => String.eqb (kind_of o) cls) (flat_map (field "op") (filter owner L))).
Proof.
  induction L as [|n L IH]; intros H; [reflexivity|].
  assert (IH' := IH (fun m Hm => H m (or_intror Hm))). clear IH.
  change (filter owner (n :: L)) with (if owner n then n :: filter owner L else filter owner L).
  destruct (owner n) eqn:Ho; [|exact IH'].
  destruct (H n (or_introl eq_refl) Ho) as [o Hf].
  change (flat_map (field "op") (n :: filter owner L))
    with (field "op" n ++ flat_map (field "op") (filter owner L)).
  rewrite Hf.
  change (filter (fun b => String.eqb (op_name b) cls) (n :: filter owner L))
    with (if String.eqb (op_name n) cls
          then n :: filter (fun b => String.eqb (op_name b) cls) (filter owner L)
          else filter (fun b => String.eqb (op_name b) cls) (filter owner L)).
  assert (Hop : op_name n = kind_of o) by (unfold op_name; rewrite Hf; reflexivity).
  rewrite Hop.
  change (filter (fun o0 => String.eqb (kind_of o0) cls) ([o] ++ flat_map (field "op") (filter owner L)))
    with (if String.eqb (kind_of o) cls
          then o :: filter (fun o0 => String.eqb (kind_of o0) cls) (flat_map (field "op") (filter owner L))
          else filter (fun o0 => String.eqb (kind_of o0) cls) (flat_map (field "op") (filter owner L))).
  destruct (String.eqb (kind_of o) cls); cbn [List.length]; rewrite IH'; reflexivity.
Qed.

Lemma wf_one_op t n k :
  wf_tree t = true -> In n (preorder t) ->
  (k = "BoolOp" \/ k = "BinOp" \/ k = "UnaryOp") ->
  String.eqb (kind_of n) k = true -> exists o, field "op" n = [o].
Proof.
  unfold wf_tree; rewrite forallb_forall; intros Hwf Hin Hk He.
  specialize (Hwf n Hin). unfold one_op in Hwf.
  apply String.eqb_eq in He.
  assert (Hb : (String.eqb (kind_of n) "BoolOp" || String.eqb (kind_of n) "BinOp"
                || String.eqb (kind_of n) "UnaryOp") = true).
  { rewrite He. destruct Hk as [ -> | [ -> | -> ] ]; reflexivity. }
  rewrite Hb in Hwf.
  destruct (field "op" n) as [|o [|o' os]]; try discriminate. now exists o.
Qed.

(* find_operation returns exactly as many nodes as the plain walk counts *)
Lemma cpy_find_operation_count sym t :
  wf_tree t = true ->
  List.length (cpy_find_operation sym t) = spec_count sym t.
Proof.
  intros Hwf. unfold cpy_find_operation, find_operation, spec_count, walk_count_op.
  destruct (assoc sym cpy_compare) as [cls|].
  { unfold find_all. rewrite length_flat_map_pick. reflexivity. }
  destruct (assoc sym cpy_boolop) as [cls|].
  { unfold find_all.
    change (is_kind "BoolOp") with (fun n => String.eqb (kind_of n) "BoolOp").
    apply length_filter_single_op. intros n Hin Ho.
    apply (wf_one_op t n "BoolOp"); [assumption|assumption|left; reflexivity|assumption]. }
  destruct (assoc sym cpy_binop) as [cls|].
  { unfold find_all.
    change (is_kind "BinOp") with (fun n => String.eqb (kind_of n) "BinOp").
    apply length_filter_single_op. intros n Hin Ho.
    apply (wf_one_op t n "BinOp"); [assumption|assumption|right; left; reflexivity|assumption]. }
  destruct (assoc sym cpy_unaryop) as [cls|]; [|reflexivity].
  unfold find_all.
  change (is_kind "UnaryOp") with (fun n => String.eqb (kind_of n) "UnaryOp").
  apply length_filter_single_op. intros n Hin Ho.
  apply (wf_one_op t n "UnaryOp"); [assumption|assumption|right; right; reflexivity|assumption].
Qed.

Lemma gen_find_operation_count sym t :
  wf_tree t = true -> List.length (gen_find_operation sym t) = spec_count sym t.
Proof. intros; rewrite gen_find_operation_eq; now apply cpy_find_operation_count. Qed.

(* every node returned is a node of the program, of the right owner kind *)
Lemma in_flat_map_pick {A B} (p : B -> bool) (f : A -> list B) (L : list A) x :
  In x (flat_map (fun c => flat_map (fun o => if p o then [c] else []) (f c)) L) ->
  In x L /\ exists o, In o (f x) /\ p o = true.
Proof.
  rewrite in_flat_map. intros [c [Hc Hx]]. rewrite in_flat_map in Hx.
  destruct Hx as [o [Ho Hx]]. destruct (p o) eqn:Hp; cbn in Hx; [|contradiction].
  destruct Hx as [->|[]]. split; [assumption|]. exists o; auto.
Qed.

Lemma gen_find_operation_nodes sym t n :
  In n (gen_find_operation sym t) ->
  In n (preorder t) /\
  (String.eqb (kind_of n) "Compare" || String.eqb (kind_of n) "BoolOp"
   || String.eqb (kind_of n) "BinOp" || String.eqb (kind_of n) "UnaryOp") = true.
Proof.
  rewrite gen_find_operation_eq. unfold cpy_find_operation, find_operation.
  destruct (assoc sym cpy_compare).
  { intros H. apply in_flat_map_pick in H. destruct H as [H _].
    unfold find_all in H. apply filter_In in H. destruct H as [H1 H2].
    split; [assumption|]. cbn in H2. rewrite H2. reflexivity. }
  destruct (assoc sym cpy_boolop).
  { intros H. apply filter_In in H. destruct H as [H _].
    unfold find_all in H. apply filter_In in H. destruct H as [H1 H2].
    split; [assumption|]. cbn in H2. rewrite H2. now rewrite !orb_true_r. }
  destruct (assoc sym cpy_binop).
  { intros H. apply filter_In in H. destruct H as [H _].
    unfold find_all in H. apply filter_In in H. destruct H as [H1 H2].
    split; [assumption|]. cbn in H2. rewrite H2. now rewrite !orb_true_r. }
  destruct (assoc sym cpy_unaryop); [|intros []].
  intros H. apply filter_In in H. destruct H as [H _].
  unfold find_all in H. apply filter_In in H. destruct H as [H1 H2].
  split; [assumption|]. cbn in H2. rewrite H2. now rewrite !orb_true_r.
Qed.

Lemma find_all_is_walk k t n : In n (find_all k t) <-> In n (preorder t) /\ is_kind k n = true.
Proof. unfold find_all. apply filter_In. Qed.

Lemma find_function_calls_exact name t n :
  In n (find_function_calls name t) <->
  In n (preorder t) /\ String.eqb (kind_of n) "Call" = true /\ call_matches name n = true.
Proof.
  unfold find_function_calls. rewrite filter_In, find_all_is_walk. cbn. tauto.
Qed.

(* ------------------------------------------------ threshold logic (T2 output) *)
Definition usage_env (fld : string) (threshold count : Z) : env :=
  [(fld, VZ threshold); ("n_uses", VZ count)].

Lemma gen_ensure_check_usage_spec n c :
  exec_block (usage_env "fields_at_least" n c) gen_ensure_check_usage_body
  = Ret (VB (Z.ltb c n)).
Proof.
  unfold gen_ensure_check_usage_body, usage_env. cbn.
  rewrite Z.gtb_ltb. destruct (Z.ltb c n) eqn:E; cbn; [|reflexivity].
  destruct (Z.eqb n 1); reflexivity.
Qed.

Lemma gen_prevent_check_usage_spec m c :
  (0 <= m)%Z -> (0 <= c)%Z ->
  exec_block (usage_env "fields_at_most" m c) gen_prevent_check_usage_body
  = Ret (VB (Z.ltb m c)).
Proof.
  intros Hm Hc. unfold gen_prevent_check_usage_body, usage_env. cbn.
  destruct (Z.eqb c 0) eqn:E0; cbn.
  - apply Z.eqb_eq in E0. subst c.
    replace (Z.ltb m 0) with false by (symmetry; apply Z.ltb_ge; lia). reflexivity.
  - destruct (Z.ltb m c) eqn:E; cbn; [|reflexivity].
    destruct (Z.eqb m 0); reflexivity.
Qed.

(* the conditions of the ensure_*/prevent_* feedback classes: fire iff ... *)
Definition fires (o : outcome) : Prop := o = Ret (VB true).

Definition ensure_fires (at_least : Z) (uses : list node) : outcome :=
  exec_block (usage_env "fields_at_least" at_least (Z.of_nat (List.length uses))) gen_ensure_check_usage_body.
Definition prevent_fires (at_most : Z) (uses : list node) : outcome :=
  exec_block (usage_env "fields_at_most" at_most (Z.of_nat (List.length uses))) gen_prevent_check_usage_body.

Lemma ensure_fires_iff n uses : fires (ensure_fires n uses) <-> (Z.of_nat (List.length uses) < n)%Z.
Proof.
  unfold fires, ensure_fires. rewrite gen_ensure_check_usage_spec.
  destruct (Z.ltb_spec (Z.of_nat (List.length uses)) n); split; intros; try lia; try reflexivity.
  discriminate.
Qed.

Lemma ensure_total n uses : exists b, ensure_fires n uses = Ret (VB b).
Proof. unfold ensure_fires. rewrite gen_ensure_check_usage_spec. eauto. Qed.

Lemma prevent_fires_iff m uses :
  (0 <= m)%Z -> (fires (prevent_fires m uses) <-> (m < Z.of_nat (List.length uses))%Z).
Proof.
  intros Hm. unfold fires, prevent_fires. rewrite gen_prevent_check_usage_spec by lia.
  destruct (Z.ltb_spec m (Z.of_nat (List.length uses))); split; intros; try lia; try reflexivity.
  discriminate.
Qed.

Lemma ensure_operation_iff sym n t :
  wf_tree t = true ->
  (fires (ensure_fires n (gen_find_operation sym t)) <-> (Z.of_nat (spec_count sym t) < n)%Z).
Proof. intros H. rewrite ensure_fires_iff, gen_find_operation_count by assumption. reflexivity. Qed.

Lemma prevent_operation_iff sym m t :
  wf_tree t = true -> (0 <= m)%Z ->
  (fires (prevent_fires m (gen_find_operation sym t)) <-> (m < Z.of_nat (spec_count sym t))%Z).
Proof. intros H Hm. rewrite prevent_fires_iff, gen_find_operation_count by assumption. reflexivity. Qed.

(* the reported location is the last use, hence the line of one of the uses *)
Definition reported_line (uses : list node) : option Z :=
  match rev uses with [] => None | u :: _ => Some (line_of u) end.

Lemma reported_line_is_a_use uses l :
  reported_line uses = Some l -> exists u, In u uses /\ line_of u = l.
Proof.
  unfold reported_line. destruct (rev uses) as [|u r] eqn:E; [discriminate|].
  intros [= <-]. exists u. split; [|reflexivity].
  apply in_rev. rewrite E. now left.
Qed.

Lemma prevent_fires_has_line m uses :
  (0 <= m)%Z -> fires (prevent_fires m uses) -> exists l, reported_line uses = Some l.
Proof.
  intros Hm H. apply prevent_fires_iff in H; [|assumption].
  unfold reported_line. destruct uses as [|u us]; [cbn in H; lia|].
  destruct (rev (u :: us)) eqn:E; [|eauto].
  apply (f_equal (@List.length node)) in E. rewrite rev_length in E. discriminate.
Qed.

(* non-vacuity: a concrete well-formed tree with two `<=` *)
Definition ex_tree : node :=
  Node "Module" 0 0 None LNone
    [("body", Node "Expr" 1 1 None LNone
       [("value", Node "Compare" 2 1 None LNone
          [("left", Node "Name" 3 1 (Some "a") LNone []);
           ("ops", Node "LtE" 4 0 None LNone []);
           ("ops", Node "LtE" 4 0 None LNone []);
           ("comparators", Node "Name" 5 1 (Some "b") LNone []);
           ("comparators", Node "Name" 6 1 (Some "c") LNone [])])])].

Example ex_tree_wf : wf_tree ex_tree = true /\ spec_count "<=" ex_tree = 2%nat.
Proof. vm_compute. split; reflexivity. Qed.
