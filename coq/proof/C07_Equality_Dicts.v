(* C07, equality_test on values that contain dicts: the monotonicity in the tolerance and the reflexivity theorems of
   proof/C07_Equality_Lemmas.v without the restriction to dict-free values. *)
From Coq Require Import ZArith QArith Qabs List Bool Arith Lia.
Import ListNotations.
From Pedal Require Import model.C07_Equality proof.C07_Equality_Lemmas.

(* the two loops of the dict branch, named *)
Fixpoint dict_go (ex : bool) (d : Q) (da de : list (scalar * val)) : bool :=
  match da with
  | [] => true
  | (k, v) :: da' => match lookup k de with Some v' => eqt false ex d v v' | None => false end && dict_go ex d da' de
  end.
Fixpoint dict_find (ex : bool) (d : Q) (da : list (scalar * val)) (kv' : scalar * val) : bool :=
  match da with
  | [] => false
  | (k, v) :: da' => if speq k (fst kv') then eqt true ex d v (snd kv') else dict_find ex d da' kv'
  end.

Lemma eqt_dict f ex d da de :
  eqt f ex d (VDict da) (VDict de) =
  (if f then py_eq (VDict de) (VDict da) else py_eq (VDict da) (VDict de)) ||
  (if f then sets_eq (sc_eq ex d) (map fst da) (map fst de) && dict_go ex d da de
   else sets_eq (sc_eq ex d) (map fst de) (map fst da) && forallb (dict_find ex d da) de).
Proof.
  cbn [eqt]. f_equal. destruct f; f_equal.
  - induction da as [|[k v] da IH]; [reflexivity|]. cbn -[eqt lookup]. now rewrite IH.
  - induction de as [|kv' de IHe]; cbn [forallb]; [reflexivity|]. rewrite IHe. f_equal.
    clear IHe. induction da as [|[k v] da IH]; [reflexivity|]. cbn -[eqt speq]. now rewrite IH.
Qed.

Theorem eqt_mono_any ex d d' : d <= d' -> forall a f e, eqt f ex d a e = true -> eqt f ex d' a e = true.
Proof.
  intros Hd a. induction a as [s|l IH|l IH|l|l|l IH] using val_ind'; intros f e.
  - destruct e; cbn; try discriminate. unfold sc_eq'. destruct f; apply sc_eq_mono; exact Hd.
  - destruct e as [s|l'|l'|l'|l'|l']; try (cbn; discriminate).
    rewrite !eqt_list. intros E. apply orb_prop in E. apply orb_true_iff. destruct E as [E|E]; [now left|right].
    revert l' E. induction IH as [|x l Hx _ IHl]; intros [|y l']; cbn; auto.
    intros E. apply andb_prop in E. destruct E as [E1 E2]. apply andb_true_iff. split; [now apply Hx|now apply IHl].
  - destruct e as [s|l'|l'|l'|l'|l']; try (cbn; discriminate).
    rewrite !eqt_tuple. intros E. apply orb_prop in E. apply orb_true_iff. destruct E as [E|E]; [now left|right].
    revert l' E. induction IH as [|x l Hx _ IHl]; intros [|y l']; cbn; auto.
    intros E. apply andb_prop in E. destruct E as [E1 E2]. apply andb_true_iff. split; [now apply Hx|now apply IHl].
  - destruct e as [s|l'|l'|l'|l'|l']; cbn [eqt]; try discriminate; [|auto].
    intros E. apply orb_prop in E. apply orb_true_iff. destruct E as [E|E]; [now left|right].
    unfold sets_eq' in *. destruct f; (eapply sets_eq_mono; [|exact E]); intros a b; apply sc_eq_mono; exact Hd.
  - destruct e as [s|l'|l'|l'|l'|l']; cbn [eqt]; try discriminate; [auto|].
    intros E. apply orb_prop in E. apply orb_true_iff. destruct E as [E|E]; [now left|right].
    unfold sets_eq' in *. destruct f; (eapply sets_eq_mono; [|exact E]); intros a b; apply sc_eq_mono; exact Hd.
  - destruct e as [s|l'|l'|l'|l'|de]; try (cbn; discriminate).
    rewrite !eqt_dict. intros E. apply orb_prop in E. apply orb_true_iff. destruct E as [E|E]; [now left|right].
    destruct f.
    + apply andb_prop in E. destruct E as [E1 E2]. apply andb_true_iff. split.
      * eapply sets_eq_mono; [|exact E1]. intros a b. apply sc_eq_mono. exact Hd.
      * clear E1. induction IH as [|[k v] l Hx _ IHl]; cbn [dict_go] in *; [reflexivity|].
        apply andb_prop in E2. destruct E2 as [E2 E3]. apply andb_true_iff. split; [|now apply IHl].
        destruct (lookup k de) as [v'|]; [|discriminate]. cbn [snd] in Hx. now apply Hx.
    + apply andb_prop in E. destruct E as [E1 E2]. apply andb_true_iff. split.
      * eapply sets_eq_mono; [|exact E1]. intros a b. apply sc_eq_mono. exact Hd.
      * eapply forallb_mono; [|exact E2]. intros kv'. clear E1 E2.
        induction IH as [|[k v] l Hx _ IHl]; cbn [dict_find]; [auto|].
        destruct (speq k (fst kv')); [|exact IHl]. cbn [snd] in Hx. apply Hx.
Qed.

(* a larger tolerance never rejects what a smaller one accepts - any values, dicts included *)
Theorem equality_monotone_in_the_tolerance_any_value exact d d' a e :
  d <= d' -> equality_test exact d a e = true -> equality_test exact d' a e = true.
Proof. intros Hd. unfold equality_test. now apply eqt_mono_any. Qed.

(* non-vacuity: two dicts that are equal only within the larger tolerance *)
Example ex_dict_mono :
  let a := VDict [(SStr 0 0, Sc (SFloat 1)); (SStr 1 1, VList [Sc (SFloat 2)])] in
  let e := VDict [(SStr 1 1, VList [Sc (SFloat (201 # 100))]); (SStr 0 0, Sc (SFloat (101 # 100)))] in
  equality_test false (1 # 1000) a e = false /\ equality_test false (1 # 10) a e = true.
Proof. split; vm_compute; reflexivity. Qed.

(* ------------------------------------------------------------------ a value equals itself, dicts included
   well-formed: no NaN anywhere (keys included) and the keys of a dict pairwise different under Python's == - what a Python
   dict guarantees by construction *)
Fixpoint keys_distinct (ks : list scalar) : bool :=
  match ks with [] => true | k :: r => negb (existsb (fun k' => speq k k') r) && keys_distinct r end.
Fixpoint wfv (v : val) : bool :=
  match v with
  | Sc s => sc_nan_free s
  | VSet l | VFrozen l => forallb sc_nan_free l
  | VList l | VTuple l => (fix all (l : list val) : bool := match l with [] => true | x :: r => wfv x && all r end) l
  | VDict d => forallb sc_nan_free (map fst d) && keys_distinct (map fst d) &&
               (fix all (d : list (scalar * val)) : bool := match d with [] => true | kv :: r => wfv (snd kv) && all r end) d
  end.
Lemma wfv_list l : wfv (VList l) = forallb wfv l.
Proof. cbn [wfv]. induction l as [|x l IH]; cbn; [reflexivity|now rewrite IH]. Qed.
Lemma wfv_tuple l : wfv (VTuple l) = forallb wfv l.
Proof. cbn [wfv]. induction l as [|x l IH]; cbn; [reflexivity|now rewrite IH]. Qed.
Lemma wfv_dict d : wfv (VDict d) = forallb sc_nan_free (map fst d) && keys_distinct (map fst d) && forallb (fun kv => wfv (snd kv)) d.
Proof. reflexivity. Qed.

Lemma lookup_in d : forall k v, keys_distinct (map fst d) = true -> In (k, v) d -> sc_nan_free k = true -> lookup k d = Some v.
Proof.
  induction d as [|[k0 v0] d IH]; intros k v Hk Hin Hn; [destruct Hin|].
  cbn [map fst keys_distinct] in Hk. apply andb_prop in Hk. destruct Hk as [Hk1 Hk2]. cbn [lookup].
  destruct Hin as [E|Hin].
  - inversion E; subst. now rewrite speq_refl.
  - destruct (speq k0 k) eqn:E; [|now apply IH].
    exfalso. apply negb_true_iff in Hk1. assert (X : existsb (fun k' => speq k0 k') (map fst d) = true).
    { apply existsb_exists. exists k. split; [|exact E]. apply in_map_iff. exists (k, v). split; [reflexivity|exact Hin]. }
    rewrite X in Hk1. discriminate.
Qed.

Lemma py_eq_dict da de :
  py_eq (VDict da) (VDict de) =
  Nat.eqb (length da) (length de) &&
  forallb (fun kv => match lookup (fst kv) de with Some v' => py_eq (snd kv) v' | None => false end) da.
Proof.
  cbn [py_eq]. f_equal. induction da as [|[k v] da IH]; [reflexivity|]. cbn -[py_eq lookup]. now rewrite IH.
Qed.

Theorem py_eq_refl_any a : wfv a = true -> py_eq a a = true.
Proof.
  induction a as [s|l IH|l IH|l|l|l IH] using val_ind'; intros Hw.
  - cbn. now apply speq_refl.
  - rewrite py_eq_list. rewrite wfv_list in Hw.
    induction IH as [|x l Hx _ IHl]; cbn; [reflexivity|]. cbn in Hw. apply andb_prop in Hw. destruct Hw as [H1 H2]. now rewrite Hx, IHl.
  - rewrite py_eq_tuple. rewrite wfv_tuple in Hw.
    induction IH as [|x l Hx _ IHl]; cbn; [reflexivity|]. cbn in Hw. apply andb_prop in Hw. destruct Hw as [H1 H2]. now rewrite Hx, IHl.
  - cbn. apply sets_eq_refl. intros a Ha. apply speq_refl. cbn in Hw. rewrite forallb_forall in Hw. now apply Hw.
  - cbn. apply sets_eq_refl. intros a Ha. apply speq_refl. cbn in Hw. rewrite forallb_forall in Hw. now apply Hw.
  - rewrite py_eq_dict, Nat.eqb_refl. cbn [andb]. rewrite wfv_dict in Hw.
    apply andb_prop in Hw. destruct Hw as [Hw Hv]. apply andb_prop in Hw. destruct Hw as [Hn Hk].
    rewrite Forall_forall in IH. rewrite forallb_forall in Hv, Hn. apply forallb_forall. intros [k v] Hin. cbn [fst snd].
    rewrite (lookup_in l k v Hk Hin).
    + apply (IH (k, v) Hin). exact (Hv (k, v) Hin).
    + apply Hn. apply in_map_iff. exists (k, v). split; [reflexivity|exact Hin].
Qed.

(* every well-formed value equals itself under any positive tolerance, in exact and in normalising mode *)
Theorem equality_reflexive_any_value exact delta a :
  0 < delta -> wfv a = true -> equality_test exact delta a a = true.
Proof.
  intros Hdelta Hw. unfold equality_test. destruct a as [s|l|l|l|l|l].
  - cbn. unfold sc_eq'. now apply sc_eq_refl.
  - rewrite eqt_list. now rewrite py_eq_refl_any.
  - rewrite eqt_tuple. now rewrite py_eq_refl_any.
  - cbn [eqt]. now rewrite py_eq_refl_any.
  - cbn [eqt]. now rewrite py_eq_refl_any.
  - rewrite eqt_dict. now rewrite py_eq_refl_any.
Qed.

(* the hypotheses are satisfiable by a nested value with dicts; and without distinct keys the statement is false of the model
   (such a "dict" is not a Python dict) *)
Example ex_wfv :
  wfv (VDict [(SStr 0 0, VList [Sc (SFloat 1); VDict [(SInt 3, Sc SNone)]]); (SInt 1, VSet [SFloat (5 # 2)])]) = true /\
  equality_test false (1 # 1000) (VDict [(SInt 1, Sc (SInt 5)); (SBool true, Sc (SInt 6))])
                                 (VDict [(SInt 1, Sc (SInt 5)); (SBool true, Sc (SInt 6))]) = false.
Proof. split; vm_compute; reflexivity. Qed.
