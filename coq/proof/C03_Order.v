(* C03 - the score does not depend on the order in which the feedback was recorded (corollary of score_spec). *)
From Coq Require Import ZArith QArith List String Bool Permutation.
Import ListNotations.
From Pedal Require Import lib.PyMini lib.Assoc lib.StableSort model.C01_Resolver gen.C01_Gen model.C01_Run proof.C01_Lemmas.
Open Scope string_scope.
Open Scope list_scope.

Lemma score_order_independent act ign act' ign' calls r r' :
  the_resolve act ign calls = Ok r ->
  the_resolve act' ign' calls = Ok r' ->
  Permutation (act ++ ign) (act' ++ ign') ->
  (forall f, In f (act ++ ign) -> additive_fb f) ->
  r_is_default r = false -> r_is_default r' = false ->
  r_score r = r_score r'.
Proof.
  intros H H' P Hadd D D'.
  assert (Hadd' : forall f, In f (act' ++ ign') -> additive_fb f).
  { intros f Hf. apply Hadd. eapply Permutation_in; [apply Permutation_sym, P|exact Hf]. }
  destruct (score_spec gen_category_priority gen_aliases gen_offset _ _ _ _ H Hadd) as [[E _]|[_ E]];
    [rewrite E in D; discriminate|].
  destruct (score_spec gen_category_priority gen_aliases gen_offset _ _ _ _ H' Hadd') as [[E' _]|[_ E']];
    [rewrite E' in D'; discriminate|].
  rewrite E, E'. apply round2_proper. apply qsum_perm. apply Permutation_map. exact P.
Qed.

(* non-vacuity: the example report of C01_Lemmas, recorded in the reverse order, resolves to the same score *)
Example ex_reversed_same_score :
  match the_resolve ex_fbs ex_ign ex_calls, the_resolve (rev ex_fbs) ex_ign ex_calls with
  | Ok r, Ok r' => r_is_default r = false /\ r_is_default r' = false /\ r_score r = r_score r'
  | _, _ => False
  end.
Proof. vm_compute. repeat split; reflexivity. Qed.
