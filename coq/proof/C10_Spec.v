(* C10: what an embedding says in plain terms - node test (kind, literal content), one map witnessing the whole
   tree with direct children in order, placeholders bound consistently, expressions bound at their position. *)
From Coq Require Import List String Bool Arith ZArith Lia.
Import ListNotations.
From Pedal Require Import model.C10_Cait proof.C10_Lemmas.
Open Scope string_scope.
Open Scope list_scope.

(* ------------------------------------------------------------------ equality of content *)
Lemma prim_eqb_eq p q : prim_eqb p q = true -> p = q.
Proof.
  destruct p, q; cbn; try discriminate; intros H.
  - apply Z.eqb_eq in H. now subst.
  - apply Bool.eqb_prop in H. now subst.
  - apply String.eqb_eq in H. now subst.
  - apply String.eqb_eq in H. now subst.
  - reflexivity.
  - apply andb_prop in H. destruct H as [H1 H2]. apply String.eqb_eq in H1. apply String.eqb_eq in H2. now subst.
Qed.

Lemma prim_eqb_refl p : prim_eqb p p = true.
Proof.
  destruct p; cbn; rewrite ?String.eqb_refl; auto using Z.eqb_refl, Bool.eqb_reflx, String.eqb_refl.
Qed.

(* zip_ok: wherever the pattern has a primitive and the student list is long enough, the student has the same
   primitive there *)
Lemma zip_ok_spec : forall iv sv, zip_ok iv sv = true ->
  forall k p x, nth_error iv k = Some (PPrim p) -> nth_error sv k = Some x -> x = PPrim p.
Proof.
  induction iv as [|a iv IH]; intros sv H k p x Hi Hs; [destruct k; discriminate|].
  destruct sv as [|b sv]; [destruct k; discriminate|].
  destruct k as [|k]; cbn in Hi, Hs.
  - inversion Hi; inversion Hs; subst. cbn in H. destruct x as [|q|]; try discriminate.
    apply andb_prop in H. destruct H as [H _]. apply prim_eqb_eq in H. now subst.
  - cbn in H. destruct a as [|pa|]; [eapply IH; eauto| |eapply IH; eauto].
    destruct b as [|pb|]; try discriminate. apply andb_prop in H. destruct H as [_ H]. eapply IH; eauto.
Qed.

(* a field of the pattern that carries content (not an absent optional field, not ignored): the student has the
   field of the same name at the same position, a list of plain values has the same length, and every primitive
   is equal *)
Definition carries_content (ikind : string) (ig : list string) (f : string * fval) : bool :=
  negb (in_strs (fst f) ig) &&
  match snd f with FvNone => String.eqb ikind "Constant" && String.eqb (fst f) "value" | _ => true end.

Lemma field_ok_spec ikind ig fi fs :
  field_ok ikind ig fi fs = true -> carries_content ikind ig fi = true ->
  fst fi = fst fs /\ zip_ok (as_list (snd fi)) (as_list (snd fs)) = true /\
  (forallb is_prim (as_list (snd fi)) = true -> as_list (snd fi) <> [] -> snd fi <> FvNone ->
   List.length (as_list (snd fi)) = List.length (as_list (snd fs))).
Proof.
  destruct fi as [ni vi], fs as [ns vs]. unfold field_ok, carries_content. cbn [fst snd].
  intros H Hc. apply andb_prop in Hc. destruct Hc as [Hig Hc]. apply negb_true_iff in Hig.
  destruct vi as [|x|xs].
  - rewrite Hc, Hig in H. cbn [orb] in H. apply andb_prop in H. destruct H as [Hn Hz]. apply String.eqb_eq in Hn.
    repeat split; auto. intros _ _ Hx. congruence.
  - rewrite Hig in H. apply andb_prop in H. destruct H as [Hn H]. apply String.eqb_eq in Hn.
    apply andb_prop in H. destruct H as [Hl Hz]. repeat split; auto.
    cbn [as_list] in *. intros Hp _ _. rewrite Hp in Hl. cbn [negb orb] in Hl. now apply Nat.eqb_eq in Hl.
  - rewrite Hig in H. apply andb_prop in H. destruct H as [Hn H]. apply String.eqb_eq in Hn.
    apply andb_prop in H. destruct H as [Hl Hz]. repeat split; auto.
    cbn [as_list] in *. intros Hp Hne _. destruct xs as [|x0 xs]; [congruence|]. rewrite Hp in Hl. cbn [negb orb] in Hl. now apply Nat.eqb_eq in Hl.
Qed.

Lemma fields_ok_spec ikind ig : forall fi fs, fields_ok ikind ig fi fs = true ->
  forall n f g, nth_error fi n = Some f -> nth_error fs n = Some g -> field_ok ikind ig f g = true.
Proof.
  induction fi as [|a fi IH]; intros fs H n f g Hf Hg; [destruct n; discriminate|].
  destruct fs as [|b fs]; [destruct n; discriminate|].
  cbn in H. apply andb_prop in H. destruct H as [H1 H2].
  destruct n as [|n]; cbn in Hf, Hg.
  - inversion Hf; inversion Hg; subst. exact H1.
  - eapply IH; eauto.
Qed.

(* ------------------------------------------------------------------ the node test *)
Lemma shallow_main_spec i s meta ig b :
  shallow_main i s meta ig = Some b ->
  b = pair_map i s /\ t_kind i = t_kind s /\ List.length (t_flds i) = List.length (t_flds s) /\ metas i s meta = true /\
  fields_ok (t_kind i) ig (t_flds i) (t_flds s) = true.
Proof.
  unfold shallow_main. destruct (_ && _) eqn:H; [|discriminate]. intros E. inversion E.
  apply andb_prop in H. destruct H as [H Hf]. apply andb_prop in H. destruct H as [H Hm].
  apply andb_prop in H. destruct H as [Hl Hk]. apply Nat.eqb_eq in Hl. apply String.eqb_eq in Hk. auto.
Qed.

(* pattern nodes that stand for "anything here": wrappers and wildcard / expression placeholders *)
Definition name_class (i : tree) (idv : string) : nclass :=
  match fld_str idv (t_flds i) with Some n => classify n | None => CPlain end.

Definition loose (i : tree) : bool :=
  let k := t_kind i in
  String.eqb k "Module" || String.eqb k "Pass" || String.eqb k "Expr" ||
  (String.eqb k "Name" && match name_class i "id" with CExp | CWild => true | _ => false end) ||
  (String.eqb k "Attribute" && match name_class i "attr" with CWild => true | _ => false end) ||
  (String.eqb k "arg" && match name_class i "arg" with CWild | CVar => true | _ => false end).

(* _var_ placeholders: the identifier is bound instead of compared *)
Definition var_placeholder (i : tree) : bool :=
  let k := t_kind i in
  (String.eqb k "Name" && match name_class i "id" with CVar => true | _ => false end) ||
  (String.eqb k "Attribute" && match name_class i "attr" with CVar => true | _ => false end).

Definition allowed_ignores (k : string) : list string :=
  if String.eqb k "Name" || String.eqb k "Attribute" || String.eqb k "arg" then ["ctx"]
  else if String.eqb k "FunctionDef" then ["name"; "args"]
  else if String.eqb k "ClassDef" then ["name"]
  else [].

Definition node_ok (i s : tree) : Prop :=
  loose i = true \/
  (t_kind i = t_kind s /\
   (var_placeholder i = true \/
    exists ig, incl ig (allowed_ignores (t_kind i)) /\ List.length (t_flds i) = List.length (t_flds s) /\
               fields_ok (t_kind i) ig (t_flds i) (t_flds s) = true)).

Ltac kind_case k :=
  let E := fresh "E" in destruct (String.eqb _ k) eqn:E; [apply String.eqb_eq in E|].

Lemma main_node_ok i s meta ig b :
  shallow_main i s meta ig = Some b -> incl ig (allowed_ignores (t_kind i)) ->
  In (t_id i, t_id s) (pairs b) /\ node_ok i s.
Proof.
  intros H Hig. apply shallow_main_spec in H. destruct H as (-> & Hk & Hl & _ & Hf).
  split; [left; reflexivity|]. right. split; [exact Hk|]. right. exists ig. auto.
Qed.

Lemma handler_node_ok i s idv meta b :
  (t_kind i = "Name" /\ idv = "id") \/ (t_kind i = "Attribute" /\ idv = "attr" /\ t_kind s = "Attribute") \/ (t_kind i = "arg" /\ idv = "arg") ->
  symbol_handler i s idv meta = Some b ->
  In (t_id i, t_id s) (pairs b) /\ node_ok i s.
Proof.
  intros Hk H. unfold symbol_handler in H.
  assert (Hmain : forall b', shallow_main i s meta ["ctx"] = Some b' -> In (t_id i, t_id s) (pairs b') /\ node_ok i s).
  { intros b' Hb. eapply main_node_ok; [exact Hb|]. unfold allowed_ignores.
    destruct Hk as [[-> _]|[[-> _]|[-> _]]]; cbn; apply incl_refl. }
  destruct (fld_str idv (t_flds i)) as [name|] eqn:Hn; [|now apply Hmain].
  destruct (classify name) eqn:Hc.
  - destruct (metas i s meta); [|now apply Hmain].
    destruct (String.eqb (t_kind s) "Name" || negb (String.eqb idv "id")) eqn:Hs; [|now apply Hmain].
    destruct (fld_str idv (t_flds s)); [|discriminate]. inversion H; subst. split; [left; reflexivity|].
    destruct Hk as [[Hki ->]|[(Hki & -> & Hks)|[Hki ->]]].
    + right. cbn in Hs. rewrite orb_false_r in Hs. apply String.eqb_eq in Hs. split; [congruence|].
      left. unfold var_placeholder, name_class. rewrite Hki, Hn, Hc. reflexivity.
    + right. split; [congruence|]. left. unfold var_placeholder, name_class. rewrite Hki, Hn, Hc. cbn. reflexivity.
    + left. unfold loose, name_class. rewrite Hki, Hn, Hc. cbn. reflexivity.
  - destruct (metas i s meta && String.eqb idv "id") eqn:Hm; [|now apply Hmain].
    inversion H; subst. split; [left; reflexivity|]. left.
    apply andb_prop in Hm. destruct Hm as [_ Hid]. apply String.eqb_eq in Hid. subst idv.
    destruct Hk as [[Hki _]|[(_ & Hx & _)|[_ Hx]]]; try discriminate.
    unfold loose, name_class. rewrite Hki, Hn, Hc. cbn. reflexivity.
  - destruct (metas i s meta); [|now apply Hmain].
    inversion H; subst. split; [left; reflexivity|]. left.
    unfold loose, name_class.
    destruct Hk as [[Hki ->]|[(Hki & -> & _)|[Hki ->]]]; rewrite Hki, Hn, Hc; cbn; reflexivity.
  - now apply Hmain.
Qed.

Lemma xdef_node_ok i s meta ig t b :
  xdef i s meta ig t = Some b -> incl ig (allowed_ignores (t_kind i)) ->
  In (t_id i, t_id s) (pairs b) /\ node_ok i s.
Proof.
  unfold xdef. intros H Hig. destruct (shallow_main i s meta ig) as [b0|] eqn:Hm; [|discriminate].
  destruct (main_node_ok _ _ _ _ _ Hm Hig) as [Hp Hok].
  destruct (fld_str "name" (t_flds i)) as [ni|]; [|discriminate].
  destruct (fld_str "name" (t_flds s)) as [ns|]; [|discriminate].
  destruct (classify ni); try (destruct (String.eqb ni ns); [|discriminate]); inversion H; subst; split; auto.
  cbn. apply in_or_app. left. exact Hp.
Qed.

Theorem shallow_node_ok i s meta b :
  shallow i s meta = Some b -> In (t_id i, t_id s) (pairs b) /\ node_ok i s.
Proof.
  unfold shallow. intros H.
  kind_case "Module".
  { destruct (_ || _); [|discriminate]. inversion H. split; [left; reflexivity|]. left. unfold loose. rewrite E. reflexivity. }
  destruct (String.eqb (t_kind i) "Pass" || String.eqb (t_kind i) "Expr") eqn:E1.
  { destruct (metas i s meta); [|discriminate]. inversion H. split; [left; reflexivity|]. left. unfold loose.
    apply orb_prop in E1. destruct E1 as [E1|E1]; rewrite E1; repeat rewrite orb_true_r; reflexivity. }
  kind_case "Name". { eapply handler_node_ok; [|exact H]. auto. }
  kind_case "arg". { eapply handler_node_ok; [|exact H]. auto. }
  kind_case "Attribute".
  { destruct (String.eqb (t_kind s) "Attribute") eqn:Es.
    - apply String.eqb_eq in Es. destruct (_ && _).
      + eapply main_node_ok; [exact H|]. intros x [].
      + eapply handler_node_ok; [|exact H]. auto.
    - eapply main_node_ok; [exact H|]. intros x []. }
  kind_case "FunctionDef". { eapply xdef_node_ok; [exact H|]. rewrite E4. apply incl_refl. }
  kind_case "ClassDef". { eapply xdef_node_ok; [exact H|]. rewrite E5. apply incl_refl. }
  eapply main_node_ok; [exact H|]. intros x [].
Qed.

(* function / class definitions: the name is equal, or a placeholder *)
Theorem def_name_ok i s meta b :
  (t_kind i = "FunctionDef" \/ t_kind i = "ClassDef") -> shallow i s meta = Some b ->
  exists ni ns, fld_str "name" (t_flds i) = Some ni /\ fld_str "name" (t_flds s) = Some ns /\
                (ni = ns \/ classify ni = CVar \/ classify ni = CWild).
Proof.
  intros Hk H. unfold shallow in H.
  assert (Hx : exists ig t, xdef i s meta ig t = Some b).
  { destruct Hk as [Hk|Hk]; rewrite Hk in H; cbn in H; eauto. }
  destruct Hx as (ig & t & Hx). unfold xdef in Hx.
  destruct (shallow_main i s meta ig); [|discriminate].
  destruct (fld_str "name" (t_flds i)) as [ni|]; [|discriminate].
  destruct (fld_str "name" (t_flds s)) as [ns|]; [|discriminate].
  exists ni, ns. repeat split.
  destruct (classify ni) eqn:Hc; auto; destruct (String.eqb ni ns) eqn:He; try discriminate; apply String.eqb_eq in He; auto.
Qed.

(* ------------------------------------------------------------------ base maps are tiny *)
Lemma sym_clash_irrefl a : sym_clash a a = false.
Proof. destruct a as [[t k] v]. unfold sym_clash. rewrite !String.eqb_refl. destruct t; reflexivity. Qed.

Definition small (b : amap) : Prop := syms b = [] \/ exists a, syms b = [a].

Lemma small_noconflict b : small b -> conflictb b = false.
Proof.
  intros [H|[a H]]; unfold conflictb; rewrite H; cbn; [reflexivity|]. now rewrite sym_clash_irrefl.
Qed.

Lemma main_small i s meta ig b : shallow_main i s meta ig = Some b -> syms b = [] /\ exps b = [].
Proof. intros H. apply shallow_main_spec in H. destruct H as [-> _]. auto. Qed.

Lemma shallow_small i s meta b : shallow i s meta = Some b -> small b.
Proof.
  unfold shallow. intros H.
  assert (Hmain : forall ig b', shallow_main i s meta ig = Some b' -> small b').
  { intros ig b' Hb. left. now apply main_small in Hb. }
  assert (Hh : forall idv b', symbol_handler i s idv meta = Some b' -> small b').
  { intros idv b' Hb. unfold symbol_handler in Hb. cbv zeta in Hb.
    destruct (fld_str idv (t_flds i)); [|eauto].
    destruct (classify s0).
    - destruct (metas i s meta); [|eauto]. destruct (String.eqb (t_kind s) "Name" || negb (String.eqb idv "id")); [|eauto].
      destruct (fld_str idv (t_flds s)); [|discriminate]. inversion Hb. right. eexists. reflexivity.
    - destruct (metas i s meta && String.eqb idv "id"); [|eauto]. inversion Hb. left. reflexivity.
    - destruct (metas i s meta); [|eauto]. inversion Hb. left. reflexivity.
    - eauto. }
  assert (Hx : forall ig t b', xdef i s meta ig t = Some b' -> small b').
  { intros ig t b' Hb. unfold xdef in Hb. destruct (shallow_main i s meta ig) as [b0|] eqn:Hm; [|discriminate].
    apply main_small in Hm. destruct Hm as [Hs _].
    destruct (fld_str "name" (t_flds i)); [|discriminate]. destruct (fld_str "name" (t_flds s)); [|discriminate].
    destruct (classify s0); try (destruct (String.eqb s0 s1); [|discriminate]); inversion Hb; subst.
    - right. cbn. rewrite Hs. eexists. reflexivity.
    - left. exact Hs.
    - left. exact Hs.
    - left. exact Hs. }
  repeat match type of H with
         | (if ?c then _ else _) = _ => destruct c
         end; eauto; try discriminate; inversion H; left; reflexivity.
Qed.

Lemma hole_maps i s meta r m : expr_hole i s meta = Some r -> In m r ->
  pairs m = [(t_id i, t_id s)] /\ syms m = [] /\ (exps m = [] \/ exists n, exps m = [(n, t_id s)]).
Proof.
  unfold expr_hole. intros H Hin.
  destruct (String.eqb (t_kind i) "Expr"); [|discriminate].
  destruct (metas i s meta); [|inversion H; subst; contradiction].
  destruct (t_kids i) as [|v ?]; [discriminate|].
  destruct (String.eqb (t_kind v) "Name"); [|discriminate].
  destruct (fld_str "id" (t_flds v)) as [name|]; [|discriminate].
  destruct (is_exp name).
  - inversion H; subst. destruct Hin as [<-|[]]. cbn. eauto.
  - destruct (is_wild name); [|discriminate]. inversion H; subst. destruct Hin as [<-|[]]. cbn. auto.
Qed.

(* ------------------------------------------------------------------ consequences of an embedding *)
(* (1) no placeholder is bound to two different identifiers *)
Theorem emb_noconflict meta i s m : Emb meta i s m -> conflictb m = false.
Proof.
  intros H.
  induction H using Emb_mut with
    (P0 := fun meta ik sk ics acc lo m (_ : Kids meta ik sk ics acc lo m) => conflictb acc = false -> conflictb m = false).
  - destruct (hole_maps _ _ _ _ _ e i0) as (_ & Hs & _). unfold conflictb. now rewrite Hs.
  - assumption.
  - apply IHEmb. apply small_noconflict. eapply shallow_small; eassumption.
  - auto.
  - auto.
  - auto.
Qed.

Lemma conflictb_false_spec m : conflictb m = false ->
  forall t k v1 v2, In (t, k, v1) (syms m) -> In (t, k, v2) (syms m) -> v1 = v2.
Proof.
  unfold conflictb. intros H t k v1 v2 H1 H2.
  destruct (String.eqb v1 v2) eqn:E; [now apply String.eqb_eq|].
  assert (existsb (fun a => existsb (fun b => sym_clash a b) (syms m)) (syms m) = true); [|congruence].
  apply existsb_exists. exists (t, k, v1). split; [exact H1|].
  apply existsb_exists. exists (t, k, v2). split; [exact H2|].
  cbn. rewrite String.eqb_refl, E. destruct t; reflexivity.
Qed.

(* (2) the maps only grow along the children, and the root pair is in the map *)
Lemma kids_grow meta ik sk ics acc lo m : Kids meta ik sk ics acc lo m ->
  incl (pairs acc) (pairs m) /\ incl (exps acc) (exps m) /\ incl (syms acc) (syms m).
Proof.
  induction 1.
  - repeat split; apply incl_refl.
  - assumption.
  - destruct IHKids as (Hp & He & Hs). cbn in *. repeat split.
    + eapply incl_tran; [apply incl_appl, incl_refl|exact Hp].
    + eapply incl_tran; [apply incl_appl, incl_refl|exact He].
    + eapply incl_tran; [apply incl_appl, incl_refl|exact Hs].
Qed.

Theorem emb_root_paired meta i s m : Emb meta i s m -> In (t_id i, t_id s) (pairs m).
Proof.
  destruct 1.
  - destruct (hole_maps _ _ _ _ _ H H0) as (Hp & _). rewrite Hp. left. reflexivity.
  - cbn. apply shallow_node_ok in H1. destruct H1 as [Hp _]. repeat (apply in_or_app; left). exact Hp.
  - apply shallow_node_ok in H1. destruct H1 as [Hp _]. apply kids_grow in H2. destruct H2 as [Hi _]. now apply Hi.
Qed.

(* (3) ONE map witnesses the whole tree: every pattern node (outside statement holes and placeholders' inside)
   is paired; its partner passes the node test; partners of children are direct children of the partner, at
   strictly increasing positions (either order under + and * ) *)
(* an expression statement whose value is ___ or __n__ stands for a whole statement *)
Definition is_stmt_hole (i : tree) : bool :=
  String.eqb (t_kind i) "Expr" &&
  match t_kids i with
  | v :: _ => String.eqb (t_kind v) "Name" &&
              match fld_str "id" (t_flds v) with Some n => is_exp n || is_wild n | None => false end
  | [] => false
  end.

Lemma hole_is_stmt_hole i s meta r m : expr_hole i s meta = Some r -> In m r -> is_stmt_hole i = true.
Proof.
  unfold expr_hole, is_stmt_hole. intros H Hin. destruct (String.eqb (t_kind i) "Expr"); [|discriminate].
  destruct (metas i s meta); [|inversion H; subst; contradiction].
  destruct (t_kids i) as [|v ?]; [discriminate|]. destruct (String.eqb (t_kind v) "Name"); [|discriminate].
  destruct (fld_str "id" (t_flds v)) as [n|]; [|discriminate].
  destruct (is_exp n); [reflexivity|]. destruct (is_wild n); [reflexivity|discriminate].
Qed.

Inductive Wit (m : amap) : tree -> tree -> Prop :=
| W_hole i s : In (t_id i, t_id s) (pairs m) -> is_stmt_hole i = true -> Wit m i s
| W_flex i s il iop ir sl sop sr (swap : bool) :
    is_flex i = true ->
    In (t_id i, t_id s) (pairs m) -> node_ok i s ->
    t_kids i = [il; iop; ir] -> t_kids s = [sl; sop; sr] ->
    In (t_id iop, t_id sop) (pairs m) -> node_ok iop sop ->
    Wit m il (if swap then sr else sl) -> Wit m ir (if swap then sl else sr) ->
    Wit m i s
| W_node i s :
    is_flex i = false ->
    In (t_id i, t_id s) (pairs m) -> node_ok i s ->
    WitKids m (t_kind i) (t_kids s) (t_kids i) 0 ->
    Wit m i s
with WitKids (m : amap) : string -> list tree -> list tree -> nat -> Prop :=
| WK_nil ik sk lo : WitKids m ik sk [] lo
| WK_skip ik sk ic ics lo : ignored_kid ik ic = true -> WitKids m ik sk ics lo -> WitKids m ik sk (ic :: ics) lo
| WK_cons ik sk ic ics lo j sc :
    lo <= j -> nth_error sk j = Some sc -> Wit m ic sc -> WitKids m ik sk ics (S j) ->
    WitKids m ik sk (ic :: ics) lo.

Scheme Wit_mut := Induction for Wit Sort Prop
  with WitKids_mut := Induction for WitKids Sort Prop.

Lemma wit_mono m m' : incl (pairs m) (pairs m') ->
  (forall i s, Wit m i s -> Wit m' i s).
Proof.
  intros Hi i s H.
  induction H using Wit_mut with (P0 := fun ik sk ics lo (_ : WitKids m ik sk ics lo) => WitKids m' ik sk ics lo).
  - apply W_hole; auto.
  - eapply W_flex; eauto.
  - apply W_node; auto.
  - constructor.
  - now constructor.
  - eapply WK_cons; eauto.
Qed.

Lemma hole_kind i s meta r : expr_hole i s meta = Some r -> t_kind i = "Expr".
Proof. unfold expr_hole. destruct (String.eqb (t_kind i) "Expr") eqn:E; [intros _; now apply String.eqb_eq|discriminate]. Qed.

Theorem emb_witness meta i s m : Emb meta i s m -> Wit m i s.
Proof.
  intros H.
  induction H using Emb_mut with
    (P0 := fun meta ik sk ics acc lo m (_ : Kids meta ik sk ics acc lo m) => WitKids m ik sk ics lo).
  - apply W_hole; [|eapply hole_is_stmt_hole; eassumption].
    destruct (hole_maps _ _ _ _ _ e i0) as (Hp & _). rewrite Hp. left. reflexivity.
  - destruct (shallow_node_ok _ _ _ _ e1) as [Hp Hok]. destruct (shallow_node_ok _ _ _ _ e4) as [Hpo Hoko].
    eapply (W_flex _ i s il iop ir sl sop sr swap); eauto.
    + cbn. repeat (apply in_or_app; left). exact Hp.
    + cbn. apply in_or_app; left. apply in_or_app; left. apply in_or_app; right. exact Hpo.
    + eapply wit_mono; [|exact IHEmb1]. cbn. intros x Hx. apply in_or_app; left. apply in_or_app; right. exact Hx.
    + eapply wit_mono; [|exact IHEmb2]. cbn. intros x Hx. apply in_or_app; right. exact Hx.
  - destruct (shallow_node_ok _ _ _ _ e1) as [Hp Hok]. apply W_node; auto.
    apply kids_grow in k. destruct k as [Hi _]. now apply Hi.
  - constructor.
  - now constructor.
  - eapply WK_cons; eauto.
    eapply wit_mono; [|exact IHEmb]. apply kids_grow in k. destruct k as [Hi _].
    intros x Hx. apply Hi. cbn. apply in_or_app. right. exact Hx.
Qed.

(* (4) an __expr__ placeholder is bound to the partner of a pattern node: the subtree standing at its position *)
Lemma shallow_exps i s meta b n x : shallow i s meta = Some b -> In (n, x) (exps b) -> x = t_id s /\ In (t_id i, x) (pairs b).
Proof.
  unfold shallow. intros H Hin.
  assert (Hmain : forall ig b', shallow_main i s meta ig = Some b' -> In (n, x) (exps b') -> x = t_id s /\ In (t_id i, x) (pairs b')).
  { intros ig b' Hb Hi. apply main_small in Hb. destruct Hb as [_ He]. rewrite He in Hi. contradiction. }
  assert (Hh : forall idv b', symbol_handler i s idv meta = Some b' -> In (n, x) (exps b') -> x = t_id s /\ In (t_id i, x) (pairs b')).
  { intros idv b' Hb Hi. unfold symbol_handler in Hb. cbv zeta in Hb.
    destruct (fld_str idv (t_flds i)); [|eauto].
    destruct (classify s0).
    - destruct (metas i s meta); [|eauto]. destruct (String.eqb (t_kind s) "Name" || negb (String.eqb idv "id")); [|eauto].
      destruct (fld_str idv (t_flds s)); [|discriminate]. inversion Hb; subst. contradiction.
    - destruct (metas i s meta && String.eqb idv "id"); [|eauto]. inversion Hb; subst. destruct Hi as [Hi|[]]. inversion Hi; subst. split; [reflexivity|left; reflexivity].
    - destruct (metas i s meta); [|eauto]. inversion Hb; subst. contradiction.
    - eauto. }
  assert (Hx : forall ig t b', xdef i s meta ig t = Some b' -> In (n, x) (exps b') -> x = t_id s /\ In (t_id i, x) (pairs b')).
  { intros ig t b' Hb Hi. unfold xdef in Hb. destruct (shallow_main i s meta ig) as [b0|] eqn:Hm; [|discriminate].
    apply main_small in Hm. destruct Hm as [_ He].
    destruct (fld_str "name" (t_flds i)); [|discriminate]. destruct (fld_str "name" (t_flds s)); [|discriminate].
    destruct (classify s0); try (destruct (String.eqb s0 s1); [|discriminate]); inversion Hb; subst; cbn in Hi;
      rewrite ?He in Hi; cbn in Hi; contradiction. }
  repeat match type of H with
         | (if ?c then _ else _) = _ => destruct c
         end; eauto; try discriminate; inversion H; subst; contradiction.
Qed.

Theorem emb_exps_bound_at_position meta i s m :
  Emb meta i s m -> forall n x, In (n, x) (exps m) -> exists a, In (a, x) (pairs m).
Proof.
  intros H.
  induction H using Emb_mut with
    (P0 := fun meta ik sk ics acc lo m (_ : Kids meta ik sk ics acc lo m) =>
             (forall n x, In (n, x) (exps acc) -> exists a, In (a, x) (pairs acc)) ->
             forall n x, In (n, x) (exps m) -> exists a, In (a, x) (pairs m)).
  - intros n x Hin. destruct (hole_maps _ _ _ _ _ e i0) as (Hp & _ & [He|[n' He]]); rewrite He in Hin; [contradiction|].
    destruct Hin as [Hin|[]]. inversion Hin; subst. rewrite Hp. eexists. left. reflexivity.
  - intros n x Hin. cbn in Hin. repeat (apply in_app_or in Hin; destruct Hin as [Hin|Hin]).
    + destruct (shallow_exps _ _ _ _ _ _ e1 Hin) as [_ Hp]. eexists. cbn. repeat (apply in_or_app; left). exact Hp.
    + destruct (shallow_exps _ _ _ _ _ _ e4 Hin) as [_ Hp]. eexists. cbn. apply in_or_app; left. apply in_or_app; left. apply in_or_app; right. exact Hp.
    + destruct (IHEmb1 _ _ Hin) as [a Ha]. exists a. cbn. apply in_or_app; left. apply in_or_app; right. exact Ha.
    + destruct (IHEmb2 _ _ Hin) as [a Ha]. exists a. cbn. apply in_or_app; right. exact Ha.
  - apply IHEmb. intros n x Hin. destruct (shallow_exps _ _ _ _ _ _ e1 Hin) as [_ Hp]. eauto.
  - auto.
  - auto.
  - intros Hacc. apply IHEmb0. intros n x Hin. cbn in Hin |- *. apply in_app_or in Hin. destruct Hin as [Hin|Hin].
    + destruct (Hacc _ _ Hin) as [a Ha]. exists a. apply in_or_app. left. exact Ha.
    + destruct (IHEmb _ _ Hin) as [a Ha]. exists a. apply in_or_app. right. exact Ha.
Qed.

(* equal literal / identifier content, field by field *)
Theorem content_equal ikind ig fi fs n f g :
  fields_ok ikind ig fi fs = true -> nth_error fi n = Some f -> nth_error fs n = Some g ->
  carries_content ikind ig f = true ->
  fst f = fst g /\
  (forall j p x, nth_error (as_list (snd f)) j = Some (PPrim p) -> nth_error (as_list (snd g)) j = Some x -> x = PPrim p) /\
  (forallb is_prim (as_list (snd f)) = true -> as_list (snd f) <> [] -> snd f <> FvNone ->
   List.length (as_list (snd f)) = List.length (as_list (snd g))).
Proof.
  intros H Hf Hg Hc. pose proof (fields_ok_spec _ _ _ _ H _ _ _ Hf Hg) as Hfo.
  destruct (field_ok_spec _ _ _ _ Hfo Hc) as (Hn & Hz & Hl). repeat split; auto.
  intros j p x Hj Hx. eapply zip_ok_spec; eauto.
Qed.

(* ------------------------------------------------------------------ non-vacuity *)
From Pedal Require Import model.C10_Examples.


Example ex_match_count : List.length (find_matches ex_pattern ex_student) = 1 /\ find_matches ex_pattern2 ex_student = [].
Proof. vm_compute. split; reflexivity. Qed.

Example ex_emb : exists s' m, Subtree s' (trim_root ex_student) /\ Emb true (trim_root ex_pattern) s' m /\ syms m <> [].
Proof.
  assert (H : exists m, In m (find_matches ex_pattern ex_student) /\ syms m <> []).
  { vm_compute. eexists. split; [left; reflexivity|discriminate]. }
  destruct H as (m & Hin & Hs). apply find_matches_spec in Hin. destruct Hin as (s' & Hsub & He). eauto.
Qed.
