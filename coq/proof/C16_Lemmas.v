(* C16 proofs: transparency of the proxy for every binary operator, for EVERY slot table of the real types. *)
From Coq Require Import List String Bool Arith.
Import ListNotations.
From Pedal Require Import model.C16_Proxy gen.C16_Gen.
Open Scope string_scope.

Lemma gen_shapes_ok : shapes_ok gen_dunders = true.
Proof. vm_compute. reflexivity. Qed.

Lemma bop_eqb_refl o : bop_eqb o o = true.
Proof. destruct o; reflexivity. Qed.
Lemma bop_eqb_eq a b : bop_eqb a b = true -> a = b.
Proof. destruct a, b; cbn; congruence. Qed.

Lemma in_all_bops o : In o all_bops.
Proof. destruct o; cbn; auto 20. Qed.

Lemma shapes_of o :
  find_shape (fwd_name o) gen_dunders = SBinL o true /\ find_shape (rev_name o) gen_dunders = SBinR o true.
Proof.
  pose proof gen_shapes_ok as H. unfold shapes_ok in H. rewrite forallb_forall in H.
  specialize (H o (in_all_bops o)).
  destruct (find_shape (fwd_name o) gen_dunders) as [o1 [|]| | | | | | |]; try discriminate.
  destruct (find_shape (rev_name o) gen_dunders) as [|o2 [|]| | | | | |]; try discriminate.
  apply andb_prop in H. destruct H as [H1 H2]. apply bop_eqb_eq in H1, H2. now subst.
Qed.

Section Transparency.
  Variable val : Type.
  Variable ty : val -> nat.
  Variable nb : nat -> bop -> option (xval val -> xval val -> res val).
  Variable sq : nat -> bop -> option (val -> val -> res val).

  Notation binop := (binop val ty nb sq gen_dunders).
  Notation binop_real := (binop_real val ty nb sq).

  (* the dispatch on real values never hands back NotImplemented: a value or an exception *)
  Lemma binop_real_decided o a b : binop_real o a b <> RNotImpl.
  Proof.
    unfold C16_Proxy.binop_real.
    repeat match goal with
           | |- context [match ?x with _ => _ end] => destruct x
           end; discriminate.
  Qed.

  (* proxy on the LEFT (other operand plain or proxied): same outcome as on the real values, result re-wrapped;
     a failure on the real values is a failure on the proxy; never NotImplemented *)
  Theorem transparent_left o v (x : xval val) :
    binop o (Proxy v) x = wrap val (binop_real o v (unwrap val x)).
  Proof.
    unfold C16_Proxy.binop. cbn [slot_of is_proxy]. unfold proxy_slot.
    destruct (shapes_of o) as [Hf _]. rewrite Hf, bop_eqb_refl.
    pose proof (binop_real_decided o v (unwrap val x)) as Hd.
    destruct (binop_real o v (unwrap val x)) eqn:E; cbn; try reflexivity; try congruence.
  Qed.

  (* a real type's own slot declines an operand that is a proxy (int.__add__(1, proxy) is NotImplemented; the
     sequence types have no number slot at all) *)
  Definition declines_proxy : Prop :=
    forall t o f (a : val) (w : val), nb t o = Some f -> f (Real a) (Proxy w) = RNotImpl.

  (* proxy on the RIGHT *)
  Theorem transparent_right o (x : val) w :
    declines_proxy ->
    binop o (Real x) (Proxy w) = wrap val (binop_real o x w).
  Proof.
    intros Hd. unfold C16_Proxy.binop. cbn [slot_of is_proxy andb]. unfold proxy_slot.
    destruct (shapes_of o) as [_ Hr]. rewrite Hr, bop_eqb_refl.
    assert (H1 : match nb (ty x) o with Some f => f (Real x) (Proxy w) | None => RNotImpl end = RNotImpl).
    { destruct (nb (ty x) o) as [f|] eqn:E; [now apply (Hd _ _ _ _ _ E)|reflexivity]. }
    rewrite H1.
    pose proof (binop_real_decided o x w) as Hdd.
    destruct (binop_real o x w) eqn:E; cbn; try reflexivity; try congruence.
  Qed.

  Theorem never_not_implemented o v (x : xval val) : binop o (Proxy v) x <> RNotImpl.
  Proof. rewrite transparent_left. destruct (binop_real o v (unwrap val x)); cbn; discriminate. Qed.
End Transparency.

(* non-vacuity: two types (0 = int-like with a number slot that declines foreign operands, 1 = list-like with only a
   sequence slot); values are naturals *)
Definition ex_ty (v : nat) : nat := if Nat.ltb v 100 then 0 else 1.
Definition ex_nb (t : nat) (o : bop) : option (xval nat -> xval nat -> res nat) :=
  if Nat.eqb t 0 then
    Some (fun a b => match a, b with Real x, Real y => if Nat.eqb (ex_ty y) 0 then RVal (Real (x + y)) else RNotImpl | _, _ => RNotImpl end)
  else None.
Definition ex_sq (t : nat) (o : bop) : option (nat -> nat -> res nat) :=
  if (Nat.eqb t 1 && bop_eqb o Add)%bool then Some (fun a b => if Nat.eqb (ex_ty b) 1 then RVal (Real (a + b)) else RRaise) else None.
Example ex_dispatch :
  binop nat ex_ty ex_nb ex_sq gen_dunders Add (Real 100) (Proxy 200) = RVal (Proxy 300) /\
  binop nat ex_ty ex_nb ex_sq gen_dunders Add (Proxy 1) (Real 2) = RVal (Proxy 3) /\
  binop nat ex_ty ex_nb ex_sq gen_dunders Add (Real 1) (Proxy 100) = RRaise /\
  binop nat ex_ty ex_nb ex_sq gen_dunders Sub (Proxy 100) (Proxy 200) = RRaise.
Proof. vm_compute. repeat split; reflexivity. Qed.
