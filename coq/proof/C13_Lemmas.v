(* C13 proofs. *)
From Coq Require Import List String Bool.
Import ListNotations.
From Pedal Require Import model.C13_Classification gen.C13_Gen.
Open Scope string_scope.

Definition mem (x : string) (l : list string) : bool := existsb (String.eqb x) l.

(* every piece of mutable process-lifetime state that exists in the source today is classified *)
Definition inventory_classified_b : bool := forallb (fun i => mem i (map fst classification)) gen_inventory.
Lemma inventory_classified : inventory_classified_b = true.
Proof. vm_compute. reflexivity. Qed.

(* every field that Report.__init__ creates is reset by Report.clear, the documented exemption aside *)
Definition clear_covers_init_b : bool :=
  forallb (fun f => mem f gen_report_clear_fields || mem f clear_exempt) gen_report_init_fields.
Lemma clear_covers_init : clear_covers_init_b = true.
Proof. vm_compute. reflexivity. Qed.

(* ---------------- abstract argument: a grading that starts by clearing cannot see the history ---------------- *)
Section History.
  Variable comp : Type.                    (* components of the global state *)
  Variable content : Type.
  Definition gstate := comp -> content.
  Variable init : gstate.                  (* the state of a fresh interpreter *)
  Variable resets : comp -> bool.          (* what clear / the per-report tool resets restore *)
  Variable script result : Type.
  Variable grade : script -> gstate -> gstate * result.

  Definition clear (g : gstate) : gstate := fun c => if resets c then init c else g c.

  (* the grading reads the global state only through the components it resets first *)
  Hypothesis grade_local : forall s g g', (forall c, resets c = true -> g c = g' c) -> snd (grade s g) = snd (grade s g').

  Definition run_one (g : gstate) (s : script) : gstate := fst (grade s (clear g)).

  Theorem history_independent : forall (h : list script) (s : script),
    snd (grade s (clear (fold_left run_one h init))) = snd (grade s (clear init)).
  Proof.
    intros h s. apply grade_local. intros c Hc. unfold clear. now rewrite Hc.
  Qed.

  Theorem idempotent_grading : forall (h : list script) (s : script),
    snd (grade s (clear (run_one (fold_left run_one h init) s))) = snd (grade s (clear (fold_left run_one h init))).
  Proof.
    intros h s. apply grade_local. intros c Hc. unfold clear. now rewrite Hc.
  Qed.
End History.
