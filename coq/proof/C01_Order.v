(* C01 - which feedback is delivered does not depend on the recording order when no two eligible feedback share a key
   (corollary of resolve_selects_best). *)
From Coq Require Import ZArith QArith List String Bool Permutation Lia.
Import ListNotations.
From Pedal Require Import lib.PyMini lib.Assoc lib.StableSort model.C01_Resolver gen.C01_Gen model.C01_Run proof.C01_Lemmas.
Open Scope string_scope.
Open Scope list_scope.

Lemma choice_order_independent act ign act' ign' calls r r' :
  the_resolve act ign calls = Ok r ->
  the_resolve act' ign' calls = Ok r' ->
  Permutation (act ++ ign) (act' ++ ign') ->
  (forall f g, In f (act ++ ign) -> In g (act ++ ign) ->
               eligible (the_supp calls) f = true -> eligible (the_supp calls) g = true ->
               the_key f = the_key g -> f_id f = f_id g) ->
  r_used r = r_used r'.
Proof.
  intros H H' P Hdist.
  pose proof (resolve_selects_best gen_category_priority gen_aliases gen_offset _ _ _ _ H) as S.
  pose proof (resolve_selects_best gen_category_priority gen_aliases gen_offset _ _ _ _ H') as S'.
  cbv zeta in S, S'. fold the_supp in S, S'. fold the_key in S, S'.
  destruct (r_used r) as [u|], (r_used r') as [u'|].
  - destruct S as (f & l1 & l2 & Hu & Hall & Hel & Hmin & _).
    destruct S' as (f' & l1' & l2' & Hu' & Hall' & Hel' & Hmin' & _).
    assert (Hin : In f (act ++ ign)) by (rewrite Hall; apply in_or_app; right; left; reflexivity).
    assert (Hin' : In f' (act' ++ ign')) by (rewrite Hall'; apply in_or_app; right; left; reflexivity).
    assert (Hin'0 : In f' (act ++ ign)) by (eapply Permutation_in; [apply Permutation_sym, P|exact Hin']).
    assert (Hin0' : In f (act' ++ ign')) by (eapply Permutation_in; [exact P|exact Hin]).
    pose proof (Hmin _ Hin'0 Hel') as A. pose proof (Hmin' _ Hin0' Hel) as B.
    f_equal. rewrite <- Hu, <- Hu'. apply Hdist; auto. lia.
  - destruct S as (f & l1 & l2 & Hu & Hall & Hel & _).
    assert (Hin : In f (act ++ ign)) by (rewrite Hall; apply in_or_app; right; left; reflexivity).
    rewrite (S' f (Permutation_in _ P Hin)) in Hel. discriminate.
  - destruct S' as (f' & l1' & l2' & Hu' & Hall' & Hel' & _).
    assert (Hin' : In f' (act' ++ ign')) by (rewrite Hall'; apply in_or_app; right; left; reflexivity).
    rewrite (S f' (Permutation_in _ (Permutation_sym P) Hin')) in Hel'. discriminate.
  - reflexivity.
Qed.

(* non-vacuity: a report whose eligible feedback have pairwise different keys, in two recording orders *)
Definition ex_fbs_distinct : list fb := filter (fun f => negb (f_id f =? 3)%Z) ex_fbs.
Definition distinct_keys_b (s : _) (l : list fb) : bool :=
  forallb (fun f => forallb (fun g => implb (eligible s f && eligible s g && (the_key f =? the_key g)%Z) (f_id f =? f_id g)%Z) l) l.
Example ex_choice_reversed :
  distinct_keys_b (the_supp ex_calls) (ex_fbs_distinct ++ ex_ign) = true /\
  match the_resolve ex_fbs_distinct ex_ign ex_calls, the_resolve (rev ex_fbs_distinct) ex_ign ex_calls with
  | Ok r, Ok r' => r_used r = Some 2%Z /\ r_used r' = Some 2%Z
  | _, _ => False
  end.
Proof. vm_compute. repeat split; reflexivity. Qed.
