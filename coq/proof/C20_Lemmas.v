(* C20 proofs. *)
From Coq Require Import ZArith List String Bool Arith Lia.
Import ListNotations.
From Pedal Require Import model.C20_Feedback gen.C20_Gen.
Open Scope string_scope.
Open Scope list_scope.

(* ------------------------------------------------------------------ (a) creation *)
Definition cond_truthy (s : spec) : bool := match sp_cond s with CTruthy => true | _ => false end.
(* evaluating the condition or rendering the message raises *)
Definition fails (s : spec) : bool :=
  match sp_cond s with
  | CRaises => true
  | CTruthy => sp_just_raises s || render_raises (sp_msg s)
  | CFalsy => sp_just_raises s || render_raises (sp_else s)
  end.

Lemma added_exactly_once s :
  sp_delay s = false -> sp_has_report s = true ->
  (cr_in_active (create s) + cr_in_ignored (create s) = 1)%nat.
Proof. unfold create. intros -> ->. destruct (sp_cond s), (sp_just_raises s), (sp_msg s), (sp_else s); reflexivity. Qed.

Lemma in_triggered_iff_condition s :
  sp_delay s = false -> sp_has_report s = true -> fails s = false ->
  (cr_in_active (create s) = 1%nat <-> cond_truthy s = true).
Proof.
  unfold create, fails, cond_truthy. intros -> -> H.
  destruct (sp_cond s), (sp_just_raises s), (sp_msg s), (sp_else s); cbn in *; try discriminate; split; intros; auto; discriminate.
Qed.

Lemma bool_is_outcome s :
  sp_delay s = false -> fails s = false -> cr_met (create s) = cond_truthy s.
Proof.
  unfold create, fails, cond_truthy. intros -> H.
  destruct (sp_cond s), (sp_just_raises s), (sp_msg s), (sp_else s); cbn in *; try discriminate; reflexivity.
Qed.

Lemma error_path s :
  sp_delay s = false -> fails s = true ->
  cr_raises (create s) = true /\ cr_status (create s) = Error /\ cr_met (create s) = false /\
  cr_in_active (create s) = 0%nat /\ (sp_has_report s = true -> cr_in_ignored (create s) = 1%nat).
Proof.
  unfold create, fails. intros -> H.
  destruct (sp_cond s), (sp_just_raises s), (sp_msg s), (sp_else s), (sp_has_report s); cbn in *;
    try discriminate; repeat split; auto; intro; discriminate.
Qed.

Lemma no_error_no_raise s : fails s = false -> cr_raises (create s) = false.
Proof.
  unfold create, fails. intros H. destruct (sp_delay s); [reflexivity|].
  destruct (sp_cond s), (sp_just_raises s), (sp_msg s), (sp_else s); cbn in *; try discriminate; reflexivity.
Qed.

Lemma delayed_not_recorded s :
  sp_delay s = true ->
  cr_in_active (create s) = 0%nat /\ cr_in_ignored (create s) = 0%nat /\ cr_met (create s) = false
  /\ cr_status (create s) = Delayed /\ cr_raises (create s) = false.
Proof. unfold create. intros ->. repeat split. Qed.

(* the delivered message: explicit if given, else the rendered template, else the default; never unset when triggered *)
Lemma message_spec s :
  sp_delay s = false -> fails s = false -> cond_truthy s = true -> cr_message (create s) = Some (sp_msg s).
Proof.
  unfold create, fails, cond_truthy. intros -> H Ht.
  destruct (sp_cond s); try discriminate.
  destruct (sp_just_raises s), (sp_msg s); cbn in *; try discriminate; reflexivity.
Qed.

Lemma message_total s :
  sp_delay s = false -> cr_met (create s) = true -> exists r, cr_message (create s) = Some r.
Proof.
  unfold create. intros ->. destruct (sp_cond s), (sp_just_raises s), (sp_msg s), (sp_else s); cbn; intros H;
    try discriminate; eauto.
Qed.

(* ------------------------------------------------------------------ (b) dispatch over the regenerated list *)
(* every declared format name is rendered by the formatter of that very name, with or without a leading
   width spec such as ">10:" - a finite fact about the regenerated list (guards suffix clashes: filename/name) *)
Definition dispatch_exact_b (avail : list string) : bool :=
  forallb (fun n =>
    (match dispatch avail n with (Some m, r) => String.eqb m n && String.eqb r "" | _ => false end) &&
    (match dispatch avail (">10:" ++ n) with (Some m, r) => String.eqb m n && String.eqb r ">10" | _ => false end))
    avail.

Lemma dispatch_exact_gen : dispatch_exact_b gen_available = true.
Proof. vm_compute. reflexivity. Qed.

Lemma dispatch_exact n :
  In n gen_available ->
  dispatch gen_available n = (Some n, "") /\ dispatch gen_available (">10:" ++ n) = (Some n, ">10").
Proof.
  intros H. pose proof dispatch_exact_gen as Hb. unfold dispatch_exact_b in Hb.
  rewrite forallb_forall in Hb. specialize (Hb n H). apply andb_prop in Hb. destruct Hb as [H1 H2].
  destruct (dispatch gen_available n) as [[m|] r]; [|discriminate].
  destruct (dispatch gen_available (">10:" ++ n)) as [[m2|] r2]; [|discriminate].
  apply andb_prop in H1. destruct H1 as [A1 B1]. apply andb_prop in H2. destruct H2 as [A2 B2].
  apply String.eqb_eq in A1, B1, A2, B2. subst. split; reflexivity.
Qed.

(* a spec that ends with no declared name is left to plain str formatting *)
Lemma dispatch_none avail sp :
  (forall n, In n avail -> ends_with sp n = false) -> dispatch avail sp = (None, sp).
Proof.
  induction avail as [|a l IH]; intros H; cbn; [reflexivity|].
  rewrite (H a (or_introl eq_refl)). apply IH. intros n Hn. apply H. now right.
Qed.

(* ------------------------------------------------------------------ (c) overrides *)
(* invariant: the own entry that a class had BEFORE any override is the backup if there is one, else the
   current entry; a class with a backup is registered with the report *)
Definition orig_of (s : cstate) (c f : nat) : option V :=
  match bk s c f with Some x => x | None => own s c f end.
Definition registered (s : cstate) : Prop := forall c f, bk s c f <> None -> exists r, ov s r c = true.

Lemma override1_orig c s fv c' f' : orig_of (override1 c s fv) c' f' = orig_of s c' f'.
Proof.
  destruct fv as [f v]. unfold override1, orig_of, upd2. cbn [own bk].
  destruct (bk s c f) eqn:Eb.
  - destruct (Nat.eqb c c' && Nat.eqb f f')%bool eqn:E.
    + apply andb_prop in E. destruct E as [E1 E2]. apply Nat.eqb_eq in E1, E2. subst. now rewrite Eb.
    + reflexivity.
  - destruct (Nat.eqb c c' && Nat.eqb f f')%bool eqn:E.
    + apply andb_prop in E. destruct E as [E1 E2]. apply Nat.eqb_eq in E1, E2. subst. now rewrite Eb.
    + reflexivity.
Qed.

Lemma override1_bk_only_c c s fv c' f' :
  bk (override1 c s fv) c' f' <> None -> bk s c' f' <> None \/ c' = c.
Proof.
  destruct fv as [f v]. unfold override1, upd2. cbn [bk].
  destruct (bk s c f) eqn:Eb; [auto|].
  destruct (Nat.eqb c c' && Nat.eqb f f')%bool eqn:E; [|auto].
  apply andb_prop in E. destruct E as [E1 _]. apply Nat.eqb_eq in E1. auto.
Qed.

Lemma override1_ov c s fv : ov (override1 c s fv) = ov s.
Proof. destruct fv. reflexivity. Qed.

Lemma fold_override_orig c fields : forall s c' f',
  orig_of (fold_left (override1 c) fields s) c' f' = orig_of s c' f'.
Proof.
  induction fields as [|fv fields IH]; intros s c' f'; cbn [fold_left]; [reflexivity|].
  rewrite IH. apply override1_orig.
Qed.

Lemma fold_override_bk c fields : forall s c' f',
  bk (fold_left (override1 c) fields s) c' f' <> None -> bk s c' f' <> None \/ c' = c.
Proof.
  induction fields as [|fv fields IH]; intros s c' f' H; cbn [fold_left] in H; [auto|].
  apply IH in H. destruct H as [H|H]; [|auto]. now apply override1_bk_only_c in H.
Qed.

Lemma fold_override_ov c fields : forall s, ov (fold_left (override1 c) fields s) = ov s.
Proof.
  induction fields as [|fv fields IH]; intros s; cbn [fold_left]; [reflexivity|]. rewrite IH. apply override1_ov.
Qed.

Lemma cstep_orig s o : registered s ->
  (forall c f, orig_of (cstep s o) c f = orig_of s c f) /\ registered (cstep s o).
Proof.
  intros Hreg. destruct o as [r c fields|r]; cbn [cstep].
  - split.
    + intros c' f'. unfold orig_of at 1. cbn [own bk]. apply fold_override_orig.
    + intros c' f' H. cbn [bk ov] in *. apply fold_override_bk in H.
      rewrite fold_override_ov. unfold upd2. destruct (Nat.eqb_spec c c') as [->|Hne].
      * exists r. now rewrite !Nat.eqb_refl.
      * destruct H as [H|H]; [|congruence]. destruct (Hreg c' f' H) as [r' Hr']. exists r'.
        rewrite andb_false_r. exact Hr'.
  - split.
    + intros c f. unfold orig_of. cbn [own bk]. destruct (ov s r c) eqn:E; reflexivity.
    + intros c f H. cbn [bk ov] in *. destruct (ov s r c) eqn:E; [congruence|].
      destruct (Hreg c f H) as [r' Hr']. exists r'. destruct (Nat.eqb_spec r r') as [->|_]; [congruence|exact Hr'].
Qed.

Lemma crun_orig ops : forall s, registered s ->
  (forall c f, orig_of (crun s ops) c f = orig_of s c f) /\ registered (crun s ops).
Proof.
  induction ops as [|o ops IH]; intros s Hreg; cbn [crun fold_left]; [auto|].
  destruct (cstep_orig s o Hreg) as [H1 H2]. destruct (IH _ H2) as [H3 H4].
  split; [|exact H4]. intros c f. change (fold_left cstep ops (cstep s o)) with (crun (cstep s o) ops).
  rewrite H3. apply H1.
Qed.

Lemma clean_registered s0 : (forall c f, bk s0 c f = None) -> registered s0.
Proof. intros Hclean c f H. rewrite Hclean in H. congruence. Qed.

(* (1) per report: after ANY history of overrides and clears on ANY reports, clearing report r leaves every class that was
   overridden through r (since r's last clear) with exactly the own attributes it had before the first override *)
Theorem clear_restores_the_reports_classes s0 ops r :
  (forall c f, bk s0 c f = None) ->
  forall c, ov (crun s0 ops) r c = true -> forall f, own (cstep (crun s0 ops) (Clear r)) c f = own s0 c f.
Proof.
  intros Hclean c Hov f.
  destruct (crun_orig ops s0 (clean_registered _ Hclean)) as [Ho _].
  cbn [cstep own]. rewrite Hov. specialize (Ho c f). unfold orig_of in Ho. rewrite (Hclean c f) in Ho. exact Ho.
Qed.

(* (2) once every report that holds a registration has been cleared (in any order), every class is as it was *)
Lemma clear_all_restores rs : forall s, registered s -> (forall r c, ov s r c = true -> In r rs) ->
  forall c f, own (crun s (map Clear rs)) c f = orig_of s c f.
Proof.
  induction rs as [|r rs IH]; intros s Hreg Hsup c f.
  - cbn. unfold orig_of. destruct (bk s c f) eqn:Eb; [|reflexivity].
    destruct (Hreg c f) as [r Hr]; [congruence|]. destruct (Hsup r c Hr).
  - cbn [map crun fold_left]. change (fold_left cstep (map Clear rs) (cstep s (Clear r))) with (crun (cstep s (Clear r)) (map Clear rs)).
    destruct (cstep_orig s (Clear r) Hreg) as [H1 H2]. rewrite IH; [apply H1|exact H2|].
    intros r' c' H. cbn [cstep ov] in H. destruct (Nat.eqb_spec r r') as [->|Hne]; [discriminate|].
    destruct (Hsup r' c' H) as [E|E]; [congruence|exact E].
Qed.

Definition report_of (o : cop) : nat := match o with Override r _ _ => r | Clear r => r end.

Lemma support_step rs s o : (forall r c, ov s r c = true -> In r rs) -> In (report_of o) rs ->
  forall r c, ov (cstep s o) r c = true -> In r rs.
Proof.
  intros Hsup Hin r c H. destruct o as [r0 c0 fields|r0]; cbn [cstep ov report_of] in *.
  - rewrite fold_override_ov in H. unfold upd2 in H. destruct (Nat.eqb_spec r0 r) as [->|_]; [exact Hin|].
    cbn [andb] in H. now apply (Hsup r c).
  - destruct (Nat.eqb r0 r); [discriminate|]. now apply (Hsup r c).
Qed.

Lemma support_run rs ops : forall s, (forall r c, ov s r c = true -> In r rs) -> Forall (fun o => In (report_of o) rs) ops ->
  forall r c, ov (crun s ops) r c = true -> In r rs.
Proof.
  induction ops as [|o ops IH]; intros s Hsup Hall; cbn [crun fold_left]; [exact Hsup|].
  inversion Hall as [|? ? Ho Hrest]; subst. apply IH; [|exact Hrest]. now apply support_step.
Qed.

Theorem clearing_every_report_restores s0 ops rs :
  (forall c f, bk s0 c f = None) -> (forall r c, ov s0 r c = false) ->
  Forall (fun o => In (report_of o) rs) ops ->
  forall c f, own (crun (crun s0 ops) (map Clear rs)) c f = own s0 c f.
Proof.
  intros Hclean Hov Hall c f.
  destruct (crun_orig ops s0 (clean_registered _ Hclean)) as [Ho Hr].
  rewrite clear_all_restores; [|exact Hr|].
  - rewrite Ho. unfold orig_of. now rewrite Hclean.
  - apply support_run; [|exact Hall]. intros r c' H. rewrite Hov in H. discriminate.
Qed.

(* (3) the one-report case: after ANY history of overrides and clears through one report, a clear of it leaves every class's
   own attributes exactly as they were before the first override - hence every inherited lookup as well *)
Theorem override_clear_restores s0 ops r :
  (forall c f, bk s0 c f = None) -> (forall r c, ov s0 r c = false) ->
  Forall (fun o => report_of o = r) ops ->
  forall c f, own (cstep (crun s0 ops) (Clear r)) c f = own s0 c f.
Proof.
  intros Hclean Hov Hall c f.
  apply (clearing_every_report_restores s0 ops [r] Hclean Hov).
  eapply Forall_impl; [|exact Hall]. intros o Ho. left. now symmetry.
Qed.

Lemma lookup_ext parent s s' fuel : (forall c f, own s c f = own s' c f) ->
  forall c f, lookup parent s fuel c f = lookup parent s' fuel c f.
Proof.
  intros H. induction fuel as [|n IH]; intros c f; cbn [lookup]; rewrite H; [reflexivity|].
  destruct (own s' c f); [reflexivity|]. destruct (Nat.eqb c 0); [reflexivity|apply IH].
Qed.

Theorem override_clear_restores_lookup parent fuel s0 ops r :
  (forall c f, bk s0 c f = None) -> (forall r c, ov s0 r c = false) ->
  Forall (fun o => report_of o = r) ops ->
  forall c f, lookup parent (cstep (crun s0 ops) (Clear r)) fuel c f = lookup parent s0 fuel c f.
Proof. intros H1 H2 H3. apply lookup_ext. now apply override_clear_restores. Qed.

(* non-vacuity: Parent.override; Child.override; clear  (the history that the unrepaired code got wrong) *)
Definition ex_s0 : cstate :=
  mkC (fun c f => match c, f with 1, 0 => Some 1%Z | 2, 0 => Some 2%Z | _, _ => None end%nat)
      (fun _ _ => None) (fun _ _ => false).
Example ex_parent_child :
  let s := crun ex_s0 [Override 0 1 [(0%nat, 7%Z)]; Override 0 2 [(0%nat, 8%Z)]; Override 0 3 [(0%nat, 9%Z)]] in
  own s 1%nat 0%nat = Some 7%Z /\ own s 3%nat 0%nat = Some 9%Z /\
  own (cstep s (Clear 0)) 1%nat 0%nat = Some 1%Z /\ own (cstep s (Clear 0)) 2%nat 0%nat = Some 2%Z
  /\ own (cstep s (Clear 0)) 3%nat 0%nat = None.
Proof. vm_compute. repeat split; reflexivity. Qed.

(* two reports: the same attribute overridden through report 0 and then through report 1; clearing report 1 restores it *)
Example ex_two_reports :
  let s := crun ex_s0 [Override 0 1 [(0%nat, 7%Z)]; Override 1 1 [(0%nat, 8%Z)]] in
  own s 1%nat 0%nat = Some 8%Z /\ ov s 1%nat 1%nat = true /\
  own (cstep s (Clear 1)) 1%nat 0%nat = Some 1%Z /\ own (cstep (cstep s (Clear 1)) (Clear 0)) 1%nat 0%nat = Some 1%Z.
Proof. vm_compute. repeat split; reflexivity. Qed.
