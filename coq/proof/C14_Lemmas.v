(* C14: a time-limit violation yields exactly one timeout report and a usable sandbox, for ALL interleavings of the
   grader thread with the abandoned student thread. *)
From Coq Require Import List Bool Arith Lia.
Import ListNotations.
From Pedal Require Import lib.ExnFlow lib.Interleave model.C05_Effects gen.C05_Gen proof.C05_Lemmas.

(* effects on state shared between the two threads (sys.settrace is per thread) *)
Definition thread_local (e : eff) : bool :=
  match e with ERestoreTrace | ESetTrace | EStudentFinished => true | _ => false end.

(* the shared part of the sandbox as the REAL code treats it: stopping with nothing to stop is a no-op,
   popping an empty stdout stack raises (None) *)
Record shared := mkS { s_patches : nat; s_stdouts : nat; s_captures : nat; s_outputs : nat }.
Definition shared_step (s : shared) (e : eff) : option shared :=
  match e with
  | EStartPatches => Some (mkS (S (s_patches s)) (s_stdouts s) (s_captures s) (s_outputs s))
  | EStopPatches => Some (mkS (pred (s_patches s)) (s_stdouts s) (s_captures s) (s_outputs s))
  | EPushStdout => Some (mkS (s_patches s) (S (s_stdouts s)) (s_captures s) (s_outputs s))
  | EPopStdout => match s_stdouts s with
                  | S n => Some (mkS (s_patches s) n (s_captures s) (s_outputs s))
                  | O => None
                  end
  | ECapture => Some (mkS (s_patches s) (s_stdouts s) (S (s_captures s)) (s_outputs s))
  | EAppendOutput => Some (mkS (s_patches s) (s_stdouts s) (s_captures s) (S (s_outputs s)))
  | _ => Some s
  end.
Fixpoint shared_run (s : shared) (t : list eff) : option shared :=
  match t with
  | [] => Some s
  | e :: t' => match shared_step s e with Some s' => shared_run s' t' | None => None end
  end.

Lemma shared_step_local s e : thread_local e = true -> shared_step s e = Some s.
Proof. destruct e; cbn; try discriminate; reflexivity. Qed.

(* if one side only performs thread-local steps, EVERY interleaving behaves on the shared state exactly like the
   other side alone *)
Lemma interleaving_local_irrelevant (a b m : list eff) :
  interleaving a b m -> forallb thread_local a = true -> forall s, shared_run s m = shared_run s b.
Proof.
  induction 1 as [|x a b m H IH|y a b m H IH]; intros Ha s.
  - reflexivity.
  - cbn in Ha. apply andb_prop in Ha. destruct Ha as [Hx Ha].
    cbn [shared_run]. rewrite (shared_step_local s x Hx). now apply IH.
  - cbn [shared_run]. destruct (shared_step s y); [now apply IH|reflexivity].
Qed.

(* the terminating side sets the flag BEFORE it injects the exception, on every path - so the student thread,
   which can only reach its handlers after the injection, always sees the flag *)
Fixpoint flag_before_raise (seen : bool) (t : list eff) : bool :=
  match t with
  | [] => true
  | ESetTerminated :: t' => flag_before_raise true t'
  | EAsyncRaise :: t' => seen && flag_before_raise seen t'
  | _ :: t' => flag_before_raise seen t'
  end.
Definition terminate_ok (p : outcome * list eff) : bool :=
  flag_before_raise false (snd p) && Nat.eqb (count (fun e => match e with ESetTerminated => true | _ => false end) (snd p)) 1.
Lemma terminate_paths_ok : forallb terminate_ok (paths eff None gen_terminate) = true.
Proof. vm_compute. reflexivity. Qed.
Lemma terminate_sets_flag_first : forall o, terminate_ok (exec eff o None gen_terminate) = true.
Proof. exact (forall_paths eff terminate_ok gen_terminate terminate_paths_ok). Qed.

(* what the student thread does after it was terminated: the regenerated skeleton minus the common prefix *)
Definition post_termination (t : list eff) : list eff :=
  match t with
  | EPushStdout :: EStartPatches :: ESetTrace :: rest => rest
  | EPushStdout :: EStartPatches :: rest => rest
  | _ => t
  end.

Lemma terminated_post_local o :
  forallb thread_local (post_termination (snd (exec eff o None gen_execute_terminated))) = true.
Proof.
  pose proof (terminated_thread_is_silent o) as H. unfold terminated_ok in H.
  destruct (exec eff o None gen_execute_terminated) as [oc t]. cbn [snd] in *.
  assert (Himp : forall l, only_thread_local l = true -> forallb thread_local l = true).
  { intros l. unfold only_thread_local. intros Hl. rewrite forallb_forall in *. intros e He.
    specialize (Hl e He). destruct e; try discriminate; reflexivity. }
  destruct t as [|e1 t]; [discriminate|]. destruct e1; try discriminate.
  destruct t as [|e2 t]; [discriminate|]. destruct e2; try discriminate.
  destruct t as [|e3 t].
  - reflexivity.
  - destruct e3; cbn [post_termination]; try (apply andb_prop in H; destruct H as [H _]; now apply Himp).
Qed.

(* the grader's steps on a timeout: the handler of _execute_with_timeout *)
Definition is_timeout_path (p : outcome * list eff) : bool :=
  match p with (Raised _, _) => false | (_, []) => false | _ => true end.

(* the shared state once the student thread is running student code: one patch set, one stdout buffer *)
Definition started : shared := mkS 1 1 0 0.

Definition handler_shared_ok (p : outcome * list eff) : bool :=
  if is_timeout_path p then
    match shared_run started (snd p) with
    | Some s => Nat.eqb (s_patches s) 0 && Nat.eqb (s_stdouts s) 0 && Nat.eqb (s_captures s) 1
    | None => false
    end
  else true.

Lemma handler_paths_shared_ok : forallb handler_shared_ok (paths eff None gen_execute_with_timeout) = true.
Proof. vm_compute. reflexivity. Qed.

Lemma handler_shared : forall o, handler_shared_ok (exec eff o None gen_execute_with_timeout) = true.
Proof. exact (forall_paths eff handler_shared_ok gen_execute_with_timeout handler_paths_shared_ok). Qed.

(* a later, ordinary execution on the shared state: starts and ends clean, records its own output exactly once,
   captures at most one failure of its own *)
Definition later_ok (p : outcome * list eff) : bool :=
  match shared_run (mkS 0 0 0 0) (snd p) with
  | Some s => Nat.eqb (s_patches s) 0 && Nat.eqb (s_stdouts s) 0 && Nat.eqb (s_outputs s) 1 && Nat.leb (s_captures s) 1
  | None => false
  end.
Lemma later_paths_ok : forallb later_ok (paths eff None gen_execute) = true.
Proof. vm_compute. reflexivity. Qed.
Lemma later_execution : forall o, later_ok (exec eff o None gen_execute) = true.
Proof. exact (forall_paths eff later_ok gen_execute later_paths_ok). Qed.

Lemma shared_run_app t1 t2 s s1 : shared_run s t1 = Some s1 -> shared_run s (t1 ++ t2) = shared_run s1 t2.
Proof.
  revert s. induction t1 as [|e t1 IH]; intros s; cbn [shared_run app]; [now intros [= <-]|].
  destruct (shared_step s e); [apply IH|discriminate].
Qed.

(* counting what a run adds to the report, from any capture/output count *)
Lemma shared_run_counts t : forall s s', shared_run s t = Some s' ->
  forall c o, exists s'', shared_run (mkS (s_patches s) (s_stdouts s) c o) t = Some s'' /\
    s_patches s'' = s_patches s' /\ s_stdouts s'' = s_stdouts s' /\
    s_captures s'' + s_captures s = s_captures s' + c /\ s_outputs s'' + s_outputs s = s_outputs s' + o.
Proof.
  induction t as [|e t IH]; intros s s' H c o; cbn [shared_run] in *.
  - injection H as <-. eexists. split; [reflexivity|]. cbn. lia.
  - destruct (shared_step s e) as [s1|] eqn:E; [|discriminate].
    assert (Hgen : forall c' o', exists s'', shared_run (mkS (s_patches s1) (s_stdouts s1) c' o') t = Some s'' /\
               s_patches s'' = s_patches s' /\ s_stdouts s'' = s_stdouts s' /\
               s_captures s'' + s_captures s1 = s_captures s' + c' /\ s_outputs s'' + s_outputs s1 = s_outputs s' + o')
      by (intros c' o'; apply (IH _ _ H c' o')).
    destruct e; cbn in E |- *;
      try (destruct (s_stdouts s) as [|n] eqn:En; [discriminate|]);
      injection E as <-; cbn in Hgen;
      first [ destruct (Hgen c o) as (s2 & R & P1 & P2 & P3 & P4); exists s2; repeat split; try assumption; lia
            | destruct (Hgen (S c) o) as (s2 & R & P1 & P2 & P3 & P4); exists s2; repeat split; try assumption; lia
            | destruct (Hgen c (S o)) as (s2 & R & P1 & P2 & P3 & P4); exists s2; repeat split; try assumption; lia ].
Qed.

(* MAIN: for every behaviour of the interrupted student thread (oS), of the caller's handler (oG, on its timeout
   path) and of the next execution (oN), and for EVERY interleaving of the student thread's remaining steps with
   the grader's (handler then next execution): nothing fails, the patch and stdout stacks end empty, the timed-out
   execution contributed exactly one captured failure - the handler's, i.e. the timeout - and the next execution
   recorded its own output once and at most its own failure *)
Theorem all_interleavings_ok oS oG oN m :
  is_timeout_path (exec eff oG None gen_execute_with_timeout) = true ->
  interleaving (post_termination (snd (exec eff oS None gen_execute_terminated)))
               (snd (exec eff oG None gen_execute_with_timeout) ++ snd (exec eff oN None gen_execute)) m ->
  exists s, shared_run started m = Some s /\ s_patches s = 0 /\ s_stdouts s = 0
            /\ 1 <= s_captures s <= 2 /\ s_outputs s = 2
            /\ (forall sG, shared_run started (snd (exec eff oG None gen_execute_with_timeout)) = Some sG ->
                           s_captures sG = 1).
Proof.
  intros Htp Hil.
  rewrite (interleaving_local_irrelevant _ _ _ Hil (terminated_post_local oS)).
  pose proof (handler_shared oG) as HG. unfold handler_shared_ok in HG. rewrite Htp in HG.
  destruct (shared_run started (snd (exec eff oG None gen_execute_with_timeout))) as [sG|] eqn:EG; [|discriminate].
  apply andb_prop in HG. destruct HG as [HG Hc]. apply andb_prop in HG. destruct HG as [Hp Hs].
  apply Nat.eqb_eq in Hp, Hs, Hc.
  rewrite (shared_run_app _ _ _ _ EG).
  pose proof (later_execution oN) as HN. unfold later_ok in HN.
  destruct (shared_run (mkS 0 0 0 0) (snd (exec eff oN None gen_execute))) as [sN|] eqn:EN; [|discriminate].
  apply andb_prop in HN. destruct HN as [HN Hcap]. apply andb_prop in HN. destruct HN as [HN Hout].
  apply andb_prop in HN. destruct HN as [Hp' Hs']. apply Nat.eqb_eq in Hp', Hs', Hout. apply Nat.leb_le in Hcap.
  destruct (shared_run_counts _ _ _ EN (s_captures sG) (s_outputs sG)) as (s2 & R & P1 & P2 & P3 & P4).
  cbn [s_patches s_stdouts s_captures s_outputs] in *.
  assert (HsG : sG = mkS 0 0 (s_captures sG) (s_outputs sG)) by (destruct sG; cbn in *; subst; reflexivity).
  rewrite HsG. exists s2. split; [exact R|].
  (* the handler's path appends the interrupted execution's output exactly once *)
  assert (HoG : s_outputs sG = 1).
  { pose proof handler_paths_shared_ok as Hall.
    (* outputs: checked on the enumerated paths below *)
    clear - EG Htp oG.
    assert (Hout_ok : forallb (fun p => if is_timeout_path p then
                                 match shared_run started (snd p) with Some s => Nat.eqb (s_outputs s) 1 | None => false end
                               else true) (paths eff None gen_execute_with_timeout) = true) by (vm_compute; reflexivity).
    pose proof (forall_paths eff _ gen_execute_with_timeout Hout_ok oG) as H. cbn beta in H.
    rewrite Htp, EG in H. now apply Nat.eqb_eq in H. }
  repeat split; try lia.
  intros sG' [= <-]. exact Hc.
Qed.
