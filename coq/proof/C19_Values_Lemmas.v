(* C19, value typing: "the pedal type computed for any JSON-like run-time value is stable (a subtype of itself on repeated
   queries) and conforms to the normalised form of the value's own Python type" - for values of ANY size and nesting. *)
From Coq Require Import List Bool Arith.
Import ListNotations.
From Pedal Require Import model.C19_Values.

Section TyInd.
  Variable P : ty -> Prop.
  Hypothesis Hbase : forall t, (match t with TList _ | TSet _ | TTuple _ | TDict _ => False | _ => True end) -> P t.
  Hypothesis Hlist : forall t, P t -> P (TList t).
  Hypothesis Hset : forall t, P t -> P (TSet t).
  Hypothesis Htuple : forall l, Forall P l -> P (TTuple l).
  Hypothesis Hdict : forall l, Forall (fun kv => P (fst kv) /\ P (snd kv)) l -> P (TDict l).

  Fixpoint ty_ind' (t : ty) : P t :=
    match t with
    | TList a => Hlist a (ty_ind' a)
    | TSet a => Hset a (ty_ind' a)
    | TTuple l => Htuple l ((fix go (l : list ty) : Forall P l :=
                               match l with [] => Forall_nil _ | x :: r => Forall_cons _ (ty_ind' x) (go r) end) l)
    | TDict l => Hdict l ((fix go (l : list (ty * ty)) : Forall (fun kv => P (fst kv) /\ P (snd kv)) l :=
                             match l with
                             | [] => Forall_nil _
                             | kv :: r => Forall_cons _ (conj (ty_ind' (fst kv)) (ty_ind' (snd kv))) (go r)
                             end) l)
    | TAny => Hbase TAny I | TNum => Hbase TNum I | TInt => Hbase TInt I | TFloat => Hbase TFloat I
    | TBool => Hbase TBool I | TStr => Hbase TStr I | TNone => Hbase TNone I
    | TLitInt => Hbase TLitInt I | TLitFloat => Hbase TLitFloat I | TLitBool => Hbase TLitBool I | TLitStr => Hbase TLitStr I
    end.
End TyInd.

(* the loops of the model, named *)
Fixpoint sub_zip (la lb : list ty) : bool :=
  match la, lb with x :: la', y :: lb' => sub x y && sub_zip la' lb' | _, _ => true end.
Fixpoint sub_items (da db : list (ty * ty)) : bool :=
  match da with
  | [] => true
  | (k, v) :: da' => existsb (fun kv' => sub k (fst kv') && sub v (snd kv')) db && sub_items da' db
  end.

Lemma sub_tuple la lb : sub (TTuple la) (TTuple lb) = sub_zip la lb.
Proof. cbn [sub]. revert lb. induction la as [|x la IH]; intros [|y lb]; cbn; try reflexivity; try (now rewrite IH). Qed.
Lemma sub_dict da db : sub (TDict da) (TDict db) = sub_items da db.
Proof. cbn [sub]. induction da as [|[k v] da IH]; cbn; [reflexivity|now rewrite IH]. Qed.

Lemma sub_any s : sub s TAny = true.
Proof. destruct s; reflexivity. Qed.

(* every type is a subtype of itself *)
Theorem sub_refl t : sub t t = true.
Proof.
  induction t as [t Hb|t IH|t IH|l IH|l IH] using ty_ind'.
  - destruct t; try reflexivity; contradiction.
  - destruct t; cbn [sub] in *; exact IH.
  - destruct t; cbn [sub] in *; exact IH.
  - rewrite sub_tuple. induction IH as [|x l Hx _ IHl]; cbn; [reflexivity|]. now rewrite Hx, IHl.
  - rewrite sub_dict.
    assert (G : forall d', (forall kv, In kv l -> In kv d') -> sub_items l d' = true).
    { induction IH as [|[k v] l [Hk Hv] _ IHl]; intros d' Hin; cbn; [reflexivity|].
      apply andb_true_iff. split.
      - apply existsb_exists. exists (k, v). split; [apply Hin; now left|]. cbn [fst snd] in *. now rewrite Hk, Hv.
      - apply IHl. intros kv Hkv. apply Hin. now right. }
    apply G. auto.
Qed.

(* "stable": the type of a value is a subtype of itself, however often it is asked *)
Theorem value_type_is_a_subtype_of_itself v : sub (type_of v) (type_of v) = true.
Proof. apply sub_refl. Qed.

Lemma sub_dict_any d : sub (TDict d) (TDict [(TAny, TAny)]) = true.
Proof.
  rewrite sub_dict. induction d as [|[k v] d IH]; cbn; [reflexivity|].
  rewrite !sub_any. cbn. exact IH.
Qed.

(* "conforms": the type of a value is a subtype of the normal form of the value's own Python type *)
Theorem value_type_conforms v : sub (type_of v) (norm_of v) = true.
Proof.
  destruct v as [| | | | |l|l|l|d]; try reflexivity.
  - cbn [type_of norm_of]. destruct l; cbn [sub]; [reflexivity|apply sub_any].
  - cbn [type_of norm_of]. destruct l; cbn [sub]; [reflexivity|apply sub_any].
  - cbn [type_of norm_of]. rewrite sub_tuple. destruct (map type_of l); reflexivity.
  - cbn [type_of norm_of]. destruct d as [|kv d]; [reflexivity|].
    destruct (forallb _ _); [apply sub_dict_any|].
    destruct (widest _); [|apply sub_dict_any]. destruct (widest _); apply sub_dict_any.
Qed.

(* the relation is not empty talk: literals sit below their classes, numbers below Num, nothing relates int and str,
   a tuple is compared position by position *)
Example ex_sub :
  sub TLitInt TInt = true /\ sub TInt TNum = true /\ sub TLitInt TStr = false /\ sub TBool TInt = false /\
  sub (TTuple [TLitInt; TLitStr]) (TTuple [TNum; TStr]) = true /\ sub (TTuple [TLitInt; TLitInt]) (TTuple [TNum; TStr]) = false /\
  type_of (PList [PInt; PFloat]) = TList TLitInt /\ type_of (PDict [(PStr, PList [PInt])]) = TDict [(TLitStr, TList TLitInt)].
Proof. vm_compute. repeat split; reflexivity. Qed.
