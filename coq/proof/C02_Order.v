(* C02 - the verdict does not depend on the order in which the feedback was recorded (corollary of correct_iff). *)
From Coq Require Import ZArith QArith List String Bool Permutation.
Import ListNotations.
From Pedal Require Import lib.PyMini lib.Assoc lib.StableSort model.C01_Resolver gen.C01_Gen model.C01_Run proof.C01_Lemmas.
Open Scope string_scope.
Open Scope list_scope.

Lemma correct_order_independent act ign act' ign' calls r r' :
  the_resolve act ign calls = Ok r ->
  the_resolve act' ign' calls = Ok r' ->
  Permutation (act ++ ign) (act' ++ ign') ->
  (forall f, In f (act ++ ign) -> not_impersonating f) ->
  (forall f, In f (act ++ ign) -> msgs_present (the_supp calls) f) ->
  r_correct r = r_correct r'.
Proof.
  intros H H' P Hn Hm.
  assert (Hn' : forall f, In f (act' ++ ign') -> not_impersonating f).
  { intros f Hf. apply Hn. eapply Permutation_in; [apply Permutation_sym, P|exact Hf]. }
  assert (Hm' : forall f, In f (act' ++ ign') -> msgs_present (the_supp calls) f).
  { intros f Hf. apply Hm. eapply Permutation_in; [apply Permutation_sym, P|exact Hf]. }
  pose proof (correct_iff gen_category_priority gen_aliases gen_offset _ _ _ _ H Hn Hm) as [A B].
  pose proof (correct_iff gen_category_priority gen_aliases gen_offset _ _ _ _ H' Hn' Hm') as [A' B'].
  apply Bool.eq_true_iff_eq. split; intros E.
  - apply B'. intros f Hf. apply (A E). eapply Permutation_in; [apply Permutation_sym, P|exact Hf].
  - apply B. intros f Hf. apply (A' E). eapply Permutation_in; [exact P|exact Hf].
Qed.

Example ex_correct_reversed :
  match the_resolve ex_fbs ex_ign ex_calls, the_resolve (rev ex_fbs) ex_ign ex_calls with
  | Ok r, Ok r' => r_correct r = false /\ r_correct r' = false
  | _, _ => False
  end.
Proof. vm_compute. repeat split; reflexivity. Qed.
