(* C06 proofs. *)
From Coq Require Import List String Bool Arith Lia.
Import ListNotations.
From Pedal Require Import model.C06_Namespace gen.C06_Gen.
Open Scope string_scope.

Definition NS := sandbox_ns gen_overrides.

(* the names whose binding differs from a plain interpreter are exactly the documented ones *)
Definition changed_is_documented_b : bool :=
  forallb (fun n => mem n documented_changed) (blocked_functions gen_overrides ++ mocked_functions gen_overrides)
  && forallb (fun n => mem n (blocked_functions gen_overrides ++ mocked_functions gen_overrides)) documented_changed
  && forallb (fun n => mem n documented_modules) (changed_modules gen_overrides)
  && forallb (fun n => mem n (changed_modules gen_overrides)) documented_modules.
Lemma changed_is_documented : changed_is_documented_b = true.
Proof. vm_compute. reflexivity. Qed.

(* outside the documented set, every name means what it means in a plain interpreter - for EVERY name *)
Theorem ns_agrees n : mem n documented_changed = false -> NS n = plain_ns n.
Proof.
  intros H. unfold NS, sandbox_ns, plain_ns.
  pose proof changed_is_documented as Hd. unfold changed_is_documented_b in Hd.
  apply andb_prop in Hd. destruct Hd as [Hd _]. apply andb_prop in Hd. destruct Hd as [Hd _].
  apply andb_prop in Hd. destruct Hd as [Hd _]. rewrite forallb_forall in Hd.
  destruct (mem n (blocked_functions gen_overrides)) eqn:Eb.
  - exfalso. unfold mem in Eb. apply existsb_exists in Eb. destruct Eb as (x & Hx & Heq). apply String.eqb_eq in Heq. subst x.
    rewrite (Hd n) in H; [discriminate|apply in_or_app; now left].
  - destruct (mem n (mocked_functions gen_overrides)) eqn:Em; [|reflexivity].
    exfalso. unfold mem in Em. apply existsb_exists in Em. destruct Em as (x & Hx & Heq). apply String.eqb_eq in Heq. subst x.
    rewrite (Hd n) in H; [discriminate|apply in_or_app; now right].
Qed.

(* argument marshalling: the parameter is bound to a value equal to the argument, for every argument, as long as
   evaluating the repr of a literal-safe value gives the value back (a CPython fact, tested by the correspondence run) *)
Theorem marshal_binds_equal a :
  (repr_is_literal a = true -> True) ->
  forall roundtrips, (repr_is_literal a = true -> roundtrips = true) -> binds_equal roundtrips a = true.
Proof.
  intros _ rt H. unfold binds_equal, marshal.
  destruct (is_sandbox_variable a); [reflexivity|].
  destruct (Nat.leb (repr_len a) MAXIMUM_TEMPORARY_LENGTH); cbn; [|reflexivity].
  destruct (repr_is_literal a) eqn:E; cbn; [now apply H|reflexivity].
Qed.

(* long values and values whose repr is not a literal (inf, nan, objects, sets) are never passed as source text *)
Theorem non_literal_never_by_source a : repr_is_literal a = false -> marshal a <> BySource.
Proof.
  intros H. unfold marshal. destruct (is_sandbox_variable a); [discriminate|].
  rewrite H, andb_false_r. discriminate.
Qed.
Theorem long_never_by_source a : (repr_len a > MAXIMUM_TEMPORARY_LENGTH)%nat -> marshal a <> BySource.
Proof.
  intros H. unfold marshal. destruct (is_sandbox_variable a); [discriminate|].
  destruct (Nat.leb_spec (repr_len a) MAXIMUM_TEMPORARY_LENGTH); [lia|]. discriminate.
Qed.
