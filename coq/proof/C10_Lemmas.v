(* C10 / C11 proofs: the matcher model returns exactly the witnesses of embeddings.
   [Emb meta i s m] is the declarative notion: m pairs the pattern tree i with the student tree s - the root pair
   passes the node test (shallow), the pattern's children are embedded in DIRECT children of s at STRICTLY
   INCREASING positions (either order for the operands of + and * ), no placeholder is bound twice differently. *)
From Coq Require Import List String Bool Arith ZArith Lia.
Import ListNotations.
From Pedal Require Import model.C10_Cait gen.C10_Gen.
Open Scope string_scope.
Open Scope list_scope.

(* the special cases of the source are exactly the ones the model implements *)
Lemma dispatch_surface_modelled :
  gen_deep_kinds = ["BinOp"; "Expr"; "Name"] /\
  gen_shallow_kinds = ["Attribute"; "Call"; "ClassDef"; "Expr"; "FunctionDef"; "Module"; "Name"; "Pass"; "arg"; "arguments"] /\
  gen_trim_set = ["Expr"; "Module"] /\
  gen_flex_ops = ["Add"; "Mult"] /\
  gen_var_regex = "^_[^_].*_$" /\ gen_exp_regex = "^__.*__$" /\ gen_wild_regex = "^___$" /\
  gen_metas = "check_meta and ins_node.field == std_node.field or not check_meta or ins_node.field == _NONE_FIELD" /\
  gen_merged_tables = ["class_table"; "exp_table"; "func_table"; "symbol_table"] /\
  gen_has_conflicts = "len(self.conflict_keys) > 0".
Proof. repeat split; reflexivity. Qed.

(* ------------------------------------------------------------------ induction on trees *)
Section TreeInd.
  Variable P : tree -> Prop.
  Hypothesis H : forall id k f fl ks, Forall P ks -> P (Node id k f fl ks).
  Fixpoint tree_ind' (t : tree) : P t :=
    match t with
    | Node id k f fl ks =>
        H id k f fl ks ((fix go (l : list tree) : Forall P l :=
                           match l with
                           | [] => Forall_nil P
                           | x :: r => Forall_cons x (tree_ind' x) (go r)
                           end) ks)
    end.
End TreeInd.

(* ------------------------------------------------------------------ the child loop as a function of its own *)
Fixpoint kids_loop (f : tree -> tree -> list amap) (ikind : string) (sk : list tree)
         (ics : list tree) (bases : list (amap * nat)) (young : nat) {struct ics} : list amap :=
  match ics with
  | [] => map fst bases
  | ic :: rest =>
      if ignored_kid ikind ic then kids_loop f ikind sk rest bases young
      else
        match cands_from (f ic) sk 0 young with
        | [] => []
        | (j0, ms0) :: cs =>
            match merge_step bases ((j0, ms0) :: cs) with
            | [] => []
            | nb => kids_loop f ikind sk rest nb (S j0)
            end
        end
  end.

Definition deep_body (i s : tree) (meta : bool) : list amap :=
  match expr_hole i s meta with
  | Some r => r
  | None =>
      if is_flex i then
        match shallow i s meta with
        | None => []
        | Some b =>
            match t_kids i, t_kids s with
            | [il; iop; ir], [sl; sop; sr] =>
                match shallow iop sop true with
                | None => []
                | Some o =>
                    flex_pairs (mmerge b o) (deep il sl false) (deep ir sr false) ++
                    flex_pairs (mmerge b o) (deep il sr false) (deep ir sl false)
                end
            | _, _ => []
            end
        end
      else
        match shallow i s meta with
        | None => []
        | Some b => kids_loop (fun ic sc => deep ic sc meta) (t_kind i) (t_kids s) (t_kids i) [(b, 0)] 0
        end
  end.

Lemma deep_unfold i s meta : deep i s meta = deep_body i s meta.
Proof.
  destruct i as [iid ikind ifield iflds ikids].
  unfold deep_body. cbn [deep].
  destruct (expr_hole (Node iid ikind ifield iflds ikids) s meta); [reflexivity|].
  destruct (is_flex (Node iid ikind ifield iflds ikids)); [reflexivity|].
  destruct (shallow (Node iid ikind ifield iflds ikids) s meta) as [b|]; [|reflexivity].
  cbn [t_kind t_kids].
  match goal with
  | |- ?F ikids _ 0 = _ =>
      assert (HL : forall ics bases young,
                 F ics bases young = kids_loop (fun ic sc => deep ic sc meta) ikind (t_kids s) ics bases young)
  end.
  { induction ics as [|ic rest IH]; intros bases young; [reflexivity|].
    cbn [kids_loop].
    destruct (ignored_kid ikind ic); [apply IH|].
    destruct (cands_from (fun sc : tree => deep ic sc meta) (t_kids s) 0 young) as [|[j0 ms0] cs]; [reflexivity|].
    destruct (merge_step bases ((j0, ms0) :: cs)); [reflexivity|].
    apply IH. }
  apply HL.
Qed.

(* ------------------------------------------------------------------ embeddings *)
Inductive Emb : bool -> tree -> tree -> amap -> Prop :=
| Emb_hole meta i s r m :
    expr_hole i s meta = Some r -> In m r -> Emb meta i s m
| Emb_flex meta i s b o il iop ir sl sop sr ml mr (swap : bool) :
    expr_hole i s meta = None -> is_flex i = true ->
    shallow i s meta = Some b ->
    t_kids i = [il; iop; ir] -> t_kids s = [sl; sop; sr] ->
    shallow iop sop true = Some o ->
    Emb false il (if swap then sr else sl) ml ->
    Emb false ir (if swap then sl else sr) mr ->
    conflictb (mmerge (mmerge (mmerge b o) ml) mr) = false ->
    Emb meta i s (mmerge (mmerge (mmerge b o) ml) mr)
| Emb_node meta i s b m :
    expr_hole i s meta = None -> is_flex i = false ->
    shallow i s meta = Some b ->
    Kids meta (t_kind i) (t_kids s) (t_kids i) b 0 m ->
    Emb meta i s m
(* [Kids meta ikind sk ics acc lo m]: the remaining pattern children ics are embedded, left to right, in student
   children (of the list sk) at positions >= lo, each after the previous one; acc is the map so far, m the final one *)
with Kids : bool -> string -> list tree -> list tree -> amap -> nat -> amap -> Prop :=
| K_nil meta ik sk acc lo : Kids meta ik sk [] acc lo acc
| K_skip meta ik sk ic ics acc lo m :
    ignored_kid ik ic = true -> Kids meta ik sk ics acc lo m -> Kids meta ik sk (ic :: ics) acc lo m
| K_cons meta ik sk ic ics acc lo j sc mc m :
    ignored_kid ik ic = false -> lo <= j -> nth_error sk j = Some sc ->
    Emb meta ic sc mc ->
    conflictb (mmerge acc mc) = false ->
    Kids meta ik sk ics (mmerge acc mc) (S j) m ->
    Kids meta ik sk (ic :: ics) acc lo m.

Scheme Emb_mut := Induction for Emb Sort Prop
  with Kids_mut := Induction for Kids Sort Prop.

(* ------------------------------------------------------------------ candidates *)
Lemma cands_from_in g sk : forall idx young j ms,
  In (j, ms) (cands_from g sk idx young) ->
  exists sc, nth_error sk (j - idx) = Some sc /\ idx <= j /\ young <= j /\ ms = g sc /\ ms <> [].
Proof.
  induction sk as [|sc0 r IH]; intros idx young j ms Hin; [contradiction|].
  cbn [cands_from] in Hin.
  assert (Hrest : In (j, ms) (cands_from g r (S idx) young) ->
                  exists sc, nth_error (sc0 :: r) (j - idx) = Some sc /\ idx <= j /\ young <= j /\ ms = g sc /\ ms <> []).
  { intros Hr. destruct (IH _ _ _ _ Hr) as (sc & Hn & Hle & Hy & He & Hne).
    exists sc. repeat split; try assumption; try lia.
    replace (j - idx) with (S (j - S idx)) by lia. exact Hn. }
  destruct (Nat.leb young idx) eqn:Hy; [|auto].
  apply Nat.leb_le in Hy.
  destruct (g sc0) as [|m0 ms0] eqn:Hg; [auto|].
  destruct Hin as [Heq|Hr]; [|auto].
  inversion Heq; subst. exists sc0. rewrite Nat.sub_diag. repeat split; try lia; auto.
  discriminate.
Qed.

Lemma cands_from_complete g sk : forall idx young k sc,
  nth_error sk k = Some sc -> young <= idx + k -> g sc <> [] ->
  In (idx + k, g sc) (cands_from g sk idx young).
Proof.
  induction sk as [|sc0 r IH]; intros idx young k sc Hn Hy Hne; [destruct k; discriminate|].
  cbn [cands_from]. destruct k as [|k].
  - cbn in Hn. inversion Hn; subst sc0. rewrite Nat.add_0_r in *.
    destruct (Nat.leb_spec young idx); [|lia].
    destruct (g sc) eqn:Hg; [congruence|]. left. reflexivity.
  - cbn in Hn. specialize (IH (S idx) young k sc Hn).
    replace (S idx + k) with (idx + S k) in IH by lia. specialize (IH Hy Hne).
    destruct (Nat.leb young idx); [|exact IH].
    destruct (g sc0); [exact IH|right; exact IH].
Qed.

Lemma cands_from_head_min g sk : forall idx young j0 ms0 cs j ms,
  cands_from g sk idx young = (j0, ms0) :: cs -> In (j, ms) ((j0, ms0) :: cs) -> j0 <= j.
Proof.
  induction sk as [|sc0 r IH]; intros idx young j0 ms0 cs j ms Heq Hin; [discriminate|].
  cbn [cands_from] in Heq.
  destruct (Nat.leb young idx) eqn:Hy.
  - destruct (g sc0) as [|m0 msr] eqn:Hg.
    + eapply IH; eassumption.
    + inversion Heq; subst. destruct Hin as [He|Hr]; [inversion He; lia|].
      apply cands_from_in in Hr. destruct Hr as (_ & _ & Hle & _). lia.
  - eapply IH; eassumption.
Qed.

(* ------------------------------------------------------------------ merge_step *)
Lemma merge_step_in bases cands acc' lo' :
  In (acc', lo') (merge_step bases cands) <->
  exists acc lo j ms mc, In (acc, lo) bases /\ In (j, ms) cands /\ In mc ms /\ lo <= j /\
                         conflictb (mmerge acc mc) = false /\ acc' = mmerge acc mc /\ lo' = S j.
Proof.
  unfold merge_step. rewrite in_flat_map. split.
  - intros ([acc lo] & Hb & H). rewrite in_flat_map in H. destruct H as ([j ms] & Hc & H).
    cbn [fst snd] in H. destruct (Nat.leb_spec lo j); [|contradiction].
    rewrite in_flat_map in H. destruct H as (mc & Hm & H).
    destruct (conflictb (mmerge acc mc)) eqn:Hcf; [contradiction|].
    destruct H as [H|[]]. inversion H; subst.
    exists acc, lo, j, ms, mc. repeat split; auto.
  - intros (acc & lo & j & ms & mc & Hb & Hc & Hm & Hle & Hcf & -> & ->).
    exists (acc, lo). split; [exact Hb|]. rewrite in_flat_map. exists (j, ms). split; [exact Hc|].
    cbn [fst snd]. destruct (Nat.leb_spec lo j); [|lia].
    rewrite in_flat_map. exists mc. split; [exact Hm|]. rewrite Hcf. left. reflexivity.
Qed.

(* ------------------------------------------------------------------ the child loop: sound and complete *)
Lemma loop_sound meta ik sk f : forall ics,
  Forall (fun ic => forall sc m, In m (f ic sc) -> Emb meta ic sc m) ics ->
  forall bases young m, In m (kids_loop f ik sk ics bases young) ->
  exists acc lo, In (acc, lo) bases /\ Kids meta ik sk ics acc lo m.
Proof.
  induction ics as [|ic rest IH]; intros HF bases young m Hin.
  - cbn [kids_loop] in Hin. apply in_map_iff in Hin. destruct Hin as ([acc lo] & He & Hb). cbn in He. subst.
    exists m, lo. split; [exact Hb|constructor].
  - inversion HF as [|? ? Hic Hrest]; subst. cbn [kids_loop] in Hin.
    destruct (ignored_kid ik ic) eqn:Hig.
    + destruct (IH Hrest _ _ _ Hin) as (acc & lo & Hb & HK). exists acc, lo. split; [exact Hb|]. now apply K_skip.
    + destruct (cands_from (f ic) sk 0 young) as [|[j0 ms0] cs] eqn:Hc; [contradiction|].
      destruct (merge_step bases ((j0, ms0) :: cs)) as [|nb0 nbs] eqn:Hm; [contradiction|].
      destruct (IH Hrest _ _ _ Hin) as (acc' & lo' & Hb' & HK).
      rewrite <- Hm in Hb'. apply merge_step_in in Hb'.
      destruct Hb' as (acc & lo & j & ms & mc & Hb & Hcand & Hmc & Hle & Hcf & -> & ->).
      rewrite <- Hc in Hcand. apply cands_from_in in Hcand.
      destruct Hcand as (sc & Hn & _ & _ & -> & _). rewrite Nat.sub_0_r in Hn.
      exists acc, lo. split; [exact Hb|].
      eapply K_cons; eauto.
Qed.

Lemma loop_complete meta ik sk f : forall ics acc lo m,
  Kids meta ik sk ics acc lo m ->
  Forall (fun ic => forall sc mc, Emb meta ic sc mc -> In mc (f ic sc)) ics ->
  forall bases young, In (acc, lo) bases -> young <= lo ->
  In m (kids_loop f ik sk ics bases young).
Proof.
  intros ics acc lo m HK.
  induction HK as [meta ik sk acc lo | meta ik sk ic ics acc lo m Hig HK IH
                   | meta ik sk ic ics acc lo j sc mc m Hig Hle Hn He Hcf HK IH];
    intros HF bases young Hb Hy.
  - cbn [kids_loop]. apply in_map_iff. exists (acc, lo). split; [reflexivity|exact Hb].
  - inversion HF; subst. cbn [kids_loop]. rewrite Hig. now apply IH.
  - inversion HF as [|? ? Hic Hrest]; subst. cbn [kids_loop]. rewrite Hig.
    assert (Hmc : In mc (f ic sc)) by (apply Hic; exact He).
    assert (Hcand : In (j, f ic sc) (cands_from (f ic) sk 0 young)).
    { apply (cands_from_complete (f ic) sk 0 young j sc Hn); [lia|]. intros E. rewrite E in Hmc. contradiction. }
    destruct (cands_from (f ic) sk 0 young) as [|[j0 ms0] cs] eqn:Hc; [contradiction|].
    assert (Hnb : In (mmerge acc mc, S j) (merge_step bases ((j0, ms0) :: cs))).
    { apply merge_step_in. exists acc, lo, j, (f ic sc), mc. repeat split; auto. }
    destruct (merge_step bases ((j0, ms0) :: cs)) as [|nb0 nbs] eqn:Hm; [contradiction|].
    apply IH; [exact Hrest|exact Hnb|].
    assert (j0 <= j) by (eapply cands_from_head_min; eassumption). lia.
Qed.

(* ------------------------------------------------------------------ binflex_helper *)
Lemma flex_pairs_in base ls rs m :
  In m (flex_pairs base ls rs) <->
  exists l r, In l ls /\ In r rs /\ conflictb (mmerge (mmerge base l) r) = false /\ m = mmerge (mmerge base l) r.
Proof.
  unfold flex_pairs. rewrite in_flat_map. split.
  - intros (l & Hl & H). rewrite in_flat_map in H. destruct H as (r & Hr & H).
    destruct (conflictb (mmerge (mmerge base l) r)) eqn:Hc; [contradiction|].
    destruct H as [H|[]]. exists l, r. auto.
  - intros (l & r & Hl & Hr & Hc & ->). exists l. split; [exact Hl|].
    rewrite in_flat_map. exists r. split; [exact Hr|]. rewrite Hc. left. reflexivity.
Qed.

(* ------------------------------------------------------------------ deep_find_match: sound and complete *)
Theorem deep_sound : forall i s meta m, In m (deep i s meta) -> Emb meta i s m.
Proof.
  induction i as [iid ikind ifield iflds ikids IH] using tree_ind'.
  intros s meta m Hin. rewrite deep_unfold in Hin. unfold deep_body in Hin.
  set (i := Node iid ikind ifield iflds ikids) in *.
  destruct (expr_hole i s meta) as [r|] eqn:Hh; [eapply Emb_hole; eassumption|].
  destruct (is_flex i) eqn:Hf.
  - destruct (shallow i s meta) as [b|] eqn:Hb; [|contradiction].
    cbn [t_kids i] in Hin.
    destruct ikids as [|il [|iop [|ir [|]]]]; try contradiction.
    destruct (t_kids s) as [|sl [|sop [|sr [|]]]] eqn:Hsk; try contradiction.
    destruct (shallow iop sop true) as [o|] eqn:Ho; [|contradiction].
    inversion IH as [|? ? IHl IH']; subst. inversion IH' as [|? ? _ IH'']; subst. inversion IH'' as [|? ? IHr _]; subst.
    apply in_app_or in Hin. destruct Hin as [Hin|Hin]; apply flex_pairs_in in Hin;
      destruct Hin as (l & r & Hl & Hr & Hc & ->).
    + eapply (Emb_flex meta i s b o il iop ir sl sop sr l r false); eauto.
    + eapply (Emb_flex meta i s b o il iop ir sl sop sr l r true); eauto.
  - destruct (shallow i s meta) as [b|] eqn:Hb; [|contradiction].
    apply (loop_sound meta) in Hin.
    + destruct Hin as (acc & lo & [He|[]] & HK). inversion He; subst. eapply Emb_node; eauto.
    + cbn [t_kids i]. eapply Forall_impl; [|exact IH]. cbn beta. intros ic Hic sc mc Hmc. now apply Hic.
Qed.

Theorem deep_complete : forall i s meta m, Emb meta i s m -> In m (deep i s meta).
Proof.
  induction i as [iid ikind ifield iflds ikids IH] using tree_ind'.
  intros s meta m He. rewrite deep_unfold. unfold deep_body.
  set (i := Node iid ikind ifield iflds ikids) in *.
  inversion He as [meta' i' s' r m' Hh Hin | meta' i' s' b o il iop ir sl sop sr ml mr swap Hh Hf Hb Hik Hsk Ho Hl Hr Hc
                   | meta' i' s' b m' Hh Hf Hb HK]; subst.
  - rewrite Hh. exact Hin.
  - rewrite Hh, Hf, Hb. cbn [t_kids i] in Hik |- *. subst ikids. rewrite Hsk, Ho.
    inversion IH as [|? ? IHl IH']; subst. inversion IH' as [|? ? _ IH'']; subst. inversion IH'' as [|? ? IHr _]; subst.
    apply in_or_app. destruct swap; [right|left]; apply flex_pairs_in; exists ml, mr; repeat split; auto.
  - rewrite Hh, Hf, Hb.
    eapply (loop_complete meta); [exact HK| |left; reflexivity|lia].
    cbn [t_kids i]. eapply Forall_impl; [|exact IH]. cbn beta. intros ic Hic sc mc Hmc. now apply Hic.
Qed.

(* ------------------------------------------------------------------ any_node_match / find_matches *)
Inductive Subtree : tree -> tree -> Prop :=
| Sub_refl t : Subtree t t
| Sub_kid t id k f fl ks c : In c ks -> Subtree t c -> Subtree t (Node id k f fl ks).

Lemma any_match_in f : forall s m, In m (any_match f s) <-> exists s', Subtree s' s /\ In m (f s').
Proof.
  induction s as [sid sk sf sfl sks IH] using tree_ind'. intros m. cbn [any_match]. rewrite in_app_iff, in_flat_map. split.
  - intros [H|(c & Hc & H)].
    + eexists. split; [apply Sub_refl|exact H].
    + rewrite Forall_forall in IH. apply (IH c Hc) in H. destruct H as (s' & Hs & Hm).
      exists s'. split; [|exact Hm]. eapply Sub_kid; eassumption.
  - intros (s' & Hs & Hm). inversion Hs; subst.
    + left. exact Hm.
    + right. exists c. split; [assumption|]. rewrite Forall_forall in IH. apply (IH c); [assumption|]. exists s'. auto.
Qed.

Theorem find_matches_spec p s m :
  In m (find_matches p s) <-> exists s', Subtree s' (trim_root s) /\ Emb true (trim_root p) s' m.
Proof.
  unfold find_matches. rewrite any_match_in. split; intros (s' & Hs & H); exists s'; split; auto.
  - now apply deep_sound.
  - now apply deep_complete.
Qed.
