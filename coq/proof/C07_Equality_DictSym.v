(* C07, equality_test is independent of the order of its operands also for values that contain dicts.
   What makes it true: the keys of a Python dict are pairwise different under ==, == is an equivalence on the scalars, and two
   key lists of the same length in which every key of the first has a partner in the second are in bijection (pigeonhole) -
   so "every key of the expected dict is found in the actual one, with an equal value" can be read from either side. *)
From Coq Require Import ZArith QArith Qabs List Bool Arith Lia.
Import ListNotations.
From Pedal Require Import model.C07_Equality proof.C07_Equality_Lemmas proof.C07_Equality_Dicts.

(* ------------------------------------------------------------------ Python's == on scalars is transitive *)
Lemma Qeq_bool_trans x y z : Qeq_bool x y = true -> Qeq_bool y z = true -> Qeq_bool x z = true.
Proof. intros A B. apply Qeq_bool_iff in A, B. apply Qeq_bool_iff. now rewrite A. Qed.

Lemma speq_trans a b c : speq a b = true -> speq b c = true -> speq a c = true.
Proof.
  destruct a, b, c; cbn; try discriminate; try (intros A B; exact (Qeq_bool_trans _ _ _ A B));
    try (intros A B; apply Nat.eqb_eq in A, B; apply Nat.eqb_eq; congruence); auto.
Qed.

(* ------------------------------------------------------------------ key lists *)
Definition has_key (k : scalar) (l : list scalar) : bool := existsb (fun k' => speq k' k) l.

Lemma has_key_iff k l : has_key k l = true <-> exists k', In k' l /\ speq k' k = true.
Proof. unfold has_key. apply existsb_exists. Qed.

Lemma keys_distinct_cons k l : keys_distinct (k :: l) = negb (has_key k l) && keys_distinct l.
Proof.
  cbn [keys_distinct]. f_equal. f_equal. unfold has_key. induction l as [|x l IH]; cbn; [reflexivity|].
  now rewrite IH, (speq_sym k x).
Qed.

Lemma keys_distinct_remove p y q : keys_distinct (p ++ y :: q) = true -> keys_distinct (p ++ q) = true /\ has_key y (p ++ q) = false.
Proof.
  induction p as [|x p IH]; intros H.
  - cbn [app] in *. rewrite keys_distinct_cons in H. apply andb_prop in H. destruct H as [H1 H2].
    split; [exact H2|]. now apply negb_true_iff in H1.
  - cbn [app] in *. rewrite keys_distinct_cons in H |- *. apply andb_prop in H. destruct H as [H1 H2].
    destruct (IH H2) as [I1 I2]. apply negb_true_iff in H1. split.
    + apply andb_true_iff. split; [|exact I1]. apply negb_true_iff.
      destruct (has_key x (p ++ q)) eqn:E; [|reflexivity]. exfalso.
      apply has_key_iff in E. destruct E as (k' & Hin & Hk).
      assert (X : has_key x (p ++ y :: q) = true).
      { apply has_key_iff. exists k'. split; [|exact Hk]. apply in_app_or in Hin. apply in_or_app. destruct Hin; [now left|right; now right]. }
      congruence.
    + unfold has_key in *. cbn [existsb]. rewrite I2. rewrite orb_false_r.
      destruct (speq x y) eqn:E; [|reflexivity]. exfalso.
      assert (X : existsb (fun k' => speq k' x) (p ++ y :: q) = true).
      { apply existsb_exists. exists y. split; [apply in_or_app; right; now left|]. now rewrite speq_sym. }
      congruence.
Qed.

(* pigeonhole: same length, pairwise different keys on both sides, every key of the first has a partner in the second:
   then every key of the second has one in the first *)
Lemma partners_both_ways : forall l1 l2,
  keys_distinct l1 = true -> keys_distinct l2 = true -> length l1 = length l2 ->
  (forall x, In x l1 -> has_key x l2 = true) ->
  forall y, In y l2 -> exists x, In x l1 /\ speq y x = true.
Proof.
  induction l1 as [|x l1 IH]; intros l2 D1 D2 L H y Hy.
  - destruct l2; [destruct Hy|discriminate].
  - assert (Hx : has_key x l2 = true) by (apply H; now left).
    apply has_key_iff in Hx. destruct Hx as (y0 & Hy0 & E0).
    destruct (in_split _ _ Hy0) as (p & q & ->).
    rewrite keys_distinct_cons in D1. apply andb_prop in D1. destruct D1 as [D1a D1b]. apply negb_true_iff in D1a.
    destruct (keys_distinct_remove _ _ _ D2) as [D2' N2].
    assert (L' : length l1 = length (p ++ q)).
    { rewrite app_length in L |- *. cbn [length] in L. lia. }
    assert (H' : forall x', In x' l1 -> has_key x' (p ++ q) = true).
    { intros x' Hx'. assert (A : has_key x' (p ++ y0 :: q) = true) by (apply H; now right).
      apply has_key_iff in A. destruct A as (k' & Hk' & Ek').
      apply in_app_or in Hk'. destruct Hk' as [Hk'|[->|Hk']].
      - apply has_key_iff. exists k'. split; [apply in_or_app; now left|exact Ek'].
      - (* y0 is the partner of both x and x': then x == x' - but the keys of l1 are pairwise different *)
        exfalso. assert (X : has_key x l1 = true).
        { apply has_key_iff. exists x'. split; [exact Hx'|]. apply speq_trans with (b := k'); [now rewrite speq_sym|exact E0]. }
        congruence.
      - apply has_key_iff. exists k'. split; [apply in_or_app; now right|exact Ek']. }
    apply in_app_or in Hy. destruct Hy as [Hy|[<-|Hy]].
    + destruct (IH (p ++ q) D1b D2' L' H' y (in_or_app _ _ _ (or_introl Hy))) as (x0 & Hx0 & E). exists x0. split; [now right|exact E].
    + exists x. split; [now left|exact E0].
    + destruct (IH (p ++ q) D1b D2' L' H' y (in_or_app _ _ _ (or_intror Hy))) as (x0 & Hx0 & E). exists x0. split; [now right|exact E].
Qed.

(* ------------------------------------------------------------------ lookups *)
Lemma lookup_some d : forall k v, lookup k d = Some v -> exists k0, In (k0, v) d /\ speq k0 k = true.
Proof.
  induction d as [|[k0 v0] d IH]; intros k v H; [discriminate|]. cbn [lookup] in H.
  destruct (speq k0 k) eqn:E.
  - inversion H; subst. exists k0. split; [now left|exact E].
  - destruct (IH k v H) as (k1 & Hin & E1). exists k1. split; [now right|exact E1].
Qed.

Lemma lookup_none d : forall k, lookup k d = None -> has_key k (map fst d) = false.
Proof.
  induction d as [|[k0 v0] d IH]; intros k H; [reflexivity|]. cbn [lookup] in H. unfold has_key. cbn [map fst existsb].
  destruct (speq k0 k) eqn:E; [discriminate|]. cbn [orb]. apply IH. exact H.
Qed.

(* with pairwise different keys the entry found for a key is THE entry whose key equals it *)
Lemma lookup_partner d : forall k0 v k, keys_distinct (map fst d) = true -> In (k0, v) d -> speq k0 k = true -> lookup k d = Some v.
Proof.
  induction d as [|[k1 v1] d IH]; intros k0 v k D Hin E; [destruct Hin|].
  cbn [map fst] in D. rewrite keys_distinct_cons in D. apply andb_prop in D. destruct D as [D1 D2]. apply negb_true_iff in D1.
  cbn [lookup]. destruct Hin as [X|Hin].
  - inversion X; subst. now rewrite E.
  - destruct (speq k1 k) eqn:E1; [|now apply (IH k0 v k)].
    exfalso. assert (X : has_key k1 (map fst d) = true).
    { apply has_key_iff. exists k0. split; [apply in_map_iff; exists (k0, v); split; [reflexivity|exact Hin]|].
      apply speq_trans with (b := k); [exact E|now rewrite speq_sym]. }
    congruence.
Qed.

(* "every entry of da finds, under its key, an entry of de whose value is R-related to its own" *)
Definition dict_all (R : val -> val -> bool) (da de : list (scalar * val)) : bool :=
  forallb (fun kv => match lookup (fst kv) de with Some v' => R (snd kv) v' | None => false end) da.

Lemma dict_all_swap (R R' : val -> val -> bool) da de :
  keys_distinct (map fst da) = true -> keys_distinct (map fst de) = true -> length da = length de ->
  (forall v v', In v (map snd da) -> In v' (map snd de) -> R v v' = true -> R' v' v = true) ->
  dict_all R da de = true -> dict_all R' de da = true.
Proof.
  intros Da De L HR A. unfold dict_all in *. rewrite forallb_forall in A. apply forallb_forall. intros [k' v'] Hin'. cbn [fst snd].
  assert (P : forall x, In x (map fst da) -> has_key x (map fst de) = true).
  { intros x Hx. apply in_map_iff in Hx. destruct Hx as ([k v] & <- & Hin). specialize (A (k, v) Hin). cbn [fst snd] in A.
    destruct (lookup k de) as [v1|] eqn:E; [|discriminate]. destruct (lookup_some _ _ _ E) as (k1 & Hin1 & E1).
    apply has_key_iff. exists k1. split; [|exact E1]. apply in_map_iff. exists (k1, v1). split; [reflexivity|exact Hin1]. }
  assert (L' : length (map fst da) = length (map fst de)) by (rewrite !map_length; exact L).
  destruct (partners_both_ways _ _ Da De L' P k') as (k & Hk & Ek).
  { apply in_map_iff. exists (k', v'). split; [reflexivity|exact Hin']. }
  apply in_map_iff in Hk. destruct Hk as ([k0 v] & E0 & Hin). cbn [fst] in E0. subst k0.
  (* (k, v) in da and (k', v') in de with k' == k *)
  rewrite (lookup_partner da k v k' Da Hin) by (now rewrite speq_sym).
  specialize (A (k, v) Hin). cbn [fst snd] in A. rewrite (lookup_partner de k' v' k De Hin' Ek) in A.
  apply (HR v v'); [apply in_map_iff; exists (k, v); split; [reflexivity|exact Hin]|apply in_map_iff; exists (k', v'); split; [reflexivity|exact Hin']|exact A].
Qed.

Lemma dict_all_sym (R R' : val -> val -> bool) da de :
  keys_distinct (map fst da) = true -> keys_distinct (map fst de) = true -> length da = length de ->
  (forall v v', In v (map snd da) -> In v' (map snd de) -> R v v' = R' v' v) ->
  dict_all R da de = dict_all R' de da.
Proof.
  intros Da De L HR.
  destruct (dict_all R da de) eqn:A, (dict_all R' de da) eqn:B; try reflexivity.
  - rewrite (dict_all_swap R R' da de Da De L) in B; [discriminate| |exact A]. intros v v' Hv Hv' E. now rewrite <- HR.
  - rewrite (dict_all_swap R' R de da De Da (eq_sym L)) in A; [discriminate| |exact B]. intros v' v Hv' Hv E. now rewrite HR.
Qed.

(* ------------------------------------------------------------------ the loops of the dict branch are instances of dict_all *)
Lemma py_eq_dict_all da de : py_eq (VDict da) (VDict de) = Nat.eqb (length da) (length de) && dict_all py_eq da de.
Proof. apply py_eq_dict. Qed.

Lemma dict_go_all ex d da de : dict_go ex d da de = dict_all (eqt false ex d) da de.
Proof. unfold dict_all. induction da as [|[k v] da IH]; [reflexivity|]. cbn [dict_go forallb fst snd]. now rewrite IH. Qed.

Lemma dict_find_all ex d da de : forallb (dict_find ex d da) de = dict_all (fun v' v => eqt true ex d v v') de da.
Proof.
  unfold dict_all. induction de as [|kv' de IHe]; [reflexivity|]. cbn [forallb]. rewrite IHe. f_equal. clear IHe.
  induction da as [|[k v] da IH]; [reflexivity|]. cbn [dict_find lookup]. destruct (speq k (fst kv')); [reflexivity|exact IH].
Qed.

Lemma wfv_dict_parts d : wfv (VDict d) = true ->
  keys_distinct (map fst d) = true /\ forall v, In v (map snd d) -> wfv v = true.
Proof.
  rewrite wfv_dict. intros H. apply andb_prop in H. destruct H as [H Hv]. apply andb_prop in H. destruct H as [_ Hk].
  split; [exact Hk|]. intros v Hin. apply in_map_iff in Hin. destruct Hin as (kv & <- & Hin). rewrite forallb_forall in Hv. now apply Hv.
Qed.

Lemma sets_eq_length R x y : sets_eq R x y = true -> length x = length y.
Proof. unfold sets_eq. intros H. apply andb_prop in H. destruct H as [H _]. apply andb_prop in H. destruct H as [H _]. now apply Nat.eqb_eq. Qed.

(* ------------------------------------------------------------------ Python's == is symmetric, dicts included *)
Theorem py_eq_sym_any a : wfv a = true -> forall e, wfv e = true -> py_eq a e = py_eq e a.
Proof.
  induction a as [s|l IH|l IH|l|l|da IH] using val_ind'; intros Ha e He.
  - destruct e; cbn; try reflexivity. apply speq_sym.
  - destruct e as [s|l'|l'|l'|l'|l']; try reflexivity.
    rewrite !py_eq_list. rewrite wfv_list in Ha, He. revert l' He.
    induction IH as [|x l Hx _ IHl]; intros [|y l'] He; cbn; try reflexivity.
    cbn in Ha, He. apply andb_prop in Ha, He. destruct Ha as [Ha1 Ha2], He as [He1 He2].
    now rewrite (Hx Ha1 y He1), (IHl Ha2 l' He2).
  - destruct e as [s|l'|l'|l'|l'|l']; try reflexivity.
    rewrite !py_eq_tuple. rewrite wfv_tuple in Ha, He. revert l' He.
    induction IH as [|x l Hx _ IHl]; intros [|y l'] He; cbn; try reflexivity.
    cbn in Ha, He. apply andb_prop in Ha, He. destruct Ha as [Ha1 Ha2], He as [He1 He2].
    now rewrite (Hx Ha1 y He1), (IHl Ha2 l' He2).
  - destruct e; cbn; try reflexivity; apply sets_eq_sym.
  - destruct e; cbn; try reflexivity; apply sets_eq_sym.
  - destruct e as [s|l'|l'|l'|l'|de]; try reflexivity.
    rewrite !py_eq_dict_all. rewrite (Nat.eqb_sym (length da)).
    destruct (Nat.eqb (length de) (length da)) eqn:L; [|reflexivity]. cbn [andb]. apply Nat.eqb_eq in L.
    destruct (wfv_dict_parts _ Ha) as [Da Va]. destruct (wfv_dict_parts _ He) as [De Ve].
    apply dict_all_sym; auto. intros v v' Hv Hv'.
    rewrite Forall_forall in IH. apply in_map_iff in Hv. destruct Hv as (kv & <- & Hin).
    apply (IH kv Hin); [apply Va; apply in_map_iff; now exists kv|now apply Ve].
Qed.

(* ------------------------------------------------------------------ equality_test is symmetric, dicts included *)
Theorem eqt_sym_any ex d a : wfv a = true -> forall f e, wfv e = true -> eqt f ex d a e = eqt f ex d e a.
Proof.
  induction a as [s|l IH|l IH|l|l|da IH] using val_ind'; intros Ha f e He.
  - destruct e; cbn; try reflexivity. apply sc_eq'_sym.
  - destruct e as [s|l'|l'|l'|l'|l']; try reflexivity.
    rewrite !eqt_list.
    assert (Hp : py_eq (VList l) (VList l') = py_eq (VList l') (VList l)) by (apply py_eq_sym_any; assumption).
    replace (eqt_all f ex d l l') with (eqt_all f ex d l' l); [destruct f; now rewrite Hp|].
    rewrite wfv_list in Ha, He. clear Hp. revert l' He.
    induction IH as [|x l Hx _ IHl]; intros [|y l'] He; cbn; try reflexivity.
    cbn in Ha, He. apply andb_prop in Ha, He. destruct Ha as [Ha1 Ha2], He as [He1 He2].
    now rewrite (Hx Ha1 f y He1), (IHl Ha2 l' He2).
  - destruct e as [s|l'|l'|l'|l'|l']; try reflexivity.
    rewrite !eqt_tuple.
    assert (Hp : py_eq (VTuple l) (VTuple l') = py_eq (VTuple l') (VTuple l)) by (apply py_eq_sym_any; assumption).
    replace (eqt_all f ex d l l') with (eqt_all f ex d l' l); [destruct f; now rewrite Hp|].
    rewrite wfv_tuple in Ha, He. clear Hp. revert l' He.
    induction IH as [|x l Hx _ IHl]; intros [|y l'] He; cbn; try reflexivity.
    cbn in Ha, He. apply andb_prop in Ha, He. destruct Ha as [Ha1 Ha2], He as [He1 He2].
    now rewrite (Hx Ha1 f y He1), (IHl Ha2 l' He2).
  - destruct e as [s|l'|l'|l'|l'|l']; try reflexivity; cbn [eqt].
    + rewrite (sets_eq'_sym f _ l l'), (py_eq_sym (VSet l) eq_refl (VSet l') eq_refl). destruct f; reflexivity.
    + rewrite (py_eq_sym (VSet l) eq_refl (VFrozen l') eq_refl). destruct f; reflexivity.
  - destruct e as [s|l'|l'|l'|l'|l']; try reflexivity; cbn [eqt].
    + rewrite (py_eq_sym (VFrozen l) eq_refl (VSet l') eq_refl). destruct f; reflexivity.
    + rewrite (sets_eq'_sym f _ l l'), (py_eq_sym (VFrozen l) eq_refl (VFrozen l') eq_refl). destruct f; reflexivity.
  - destruct e as [s|l'|l'|l'|l'|de]; try reflexivity.
    rewrite !eqt_dict.
    assert (Hp : py_eq (VDict da) (VDict de) = py_eq (VDict de) (VDict da)) by (apply py_eq_sym_any; assumption).
    destruct (wfv_dict_parts _ Ha) as [Da Va]. destruct (wfv_dict_parts _ He) as [De Ve].
    rewrite Forall_forall in IH.
    assert (HR : forall g v v', In v (map snd da) -> In v' (map snd de) -> eqt g ex d v v' = eqt g ex d v' v).
    { intros g v v' Hv Hv'. apply in_map_iff in Hv. destruct Hv as (kv & <- & Hin).
      apply (IH kv Hin); [apply Va; apply in_map_iff; now exists kv|now apply Ve]. }
    destruct f.
    + rewrite Hp. f_equal. rewrite (sets_eq_sym _ (map fst da)).
      destruct (sets_eq (sc_eq ex d) (map fst de) (map fst da)) eqn:S; [|reflexivity]. cbn [andb].
      apply sets_eq_length in S. rewrite !map_length in S.
      rewrite !dict_go_all. apply dict_all_sym; auto; intros v v' Hv Hv'; now apply HR.
    + rewrite Hp. f_equal. rewrite (sets_eq_sym _ (map fst de)).
      destruct (sets_eq (sc_eq ex d) (map fst da) (map fst de)) eqn:S; [|reflexivity]. cbn [andb].
      apply sets_eq_length in S. rewrite !map_length in S.
      rewrite !dict_find_all. symmetry. apply dict_all_sym; auto; intros v v' Hv Hv'; symmetry; now apply HR.
Qed.

(* the verdict of equality_test does not depend on which operand is called actual and which expected - for values of any
   nesting with dicts, whose dicts have pairwise different keys (as every Python dict has) *)
Theorem equality_is_order_independent_any_value exact delta a e :
  wfv a = true -> wfv e = true -> equality_test exact delta a e = equality_test exact delta e a.
Proof. intros Ha He. unfold equality_test. now apply eqt_sym_any. Qed.

(* non-vacuity: two dicts built in different key order, equal only within the tolerance, nested values; in both orders *)
Example ex_dict_order :
  let a := VDict [(SStr 0 0, Sc (SFloat 1)); (SInt 2, VList [Sc (SFloat 2); VDict [(SNone, VSet [SFloat 5])]])] in
  let e := VDict [(SFloat 2, VList [Sc (SFloat (20004 # 10000)); VDict [(SNone, VSet [SFloat (50004 # 10000)])]]);
                  (SStr 0 0, Sc (SFloat (10004 # 10000)))] in
  wfv a = true /\ wfv e = true /\ equality_test false (1 # 1000) a e = true /\ equality_test false (1 # 1000) e a = true /\
  equality_test false (1 # 100000) a e = false.
Proof. repeat split; vm_compute; reflexivity. Qed.
