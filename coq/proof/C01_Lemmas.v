(* Proofs about the resolver model (C01, C02, C03). *)
From Coq Require Import ZArith QArith Qround List String Ascii Bool Lia Permutation.
Import ListNotations.
From Pedal Require Import lib.PyMini lib.Assoc lib.StableSort model.C01_Resolver gen.C01_Gen model.C01_Run.
Open Scope string_scope.
Open Scope list_scope.
Open Scope Z_scope.

(* ----------------------------------------------------------------- rank table *)
(* the documented order, as written in the property statement *)
Definition doc_order : list string :=
  ["highest"; "syntax"; "mistakes"; "instructor"; "algorithmic"; "runtime"; "student";
   "specification"; "positive"; "instructions"; "uncategorized"; "lowest"].

Lemma rank_table_is_documented : gen_category_priority = doc_order.
Proof. reflexivity. Qed.

Lemma gen_offset_spec p :
  gen_offset p = if String.eqb p "low" then 7 else if String.eqb p "medium" then 5
                 else if String.eqb p "high" then 3 else 1.
Proof.
  unfold gen_offset, gen_priority_offset_body. cbn.
  destruct (String.eqb p "low"); cbn; [reflexivity|].
  destruct (String.eqb p "medium"); cbn; [reflexivity|].
  destruct (String.eqb p "high"); reflexivity.
Qed.

Lemma gen_offset_range p : 1 <= gen_offset p <= 7.
Proof.
  rewrite gen_offset_spec.
  destruct (String.eqb p "low"); [lia|]. destruct (String.eqb p "medium"); [lia|].
  destruct (String.eqb p "high"); lia.
Qed.

Section Generic.
  Variable category_priority : list string.
  Variable aliases : list (string * string).
  Variable offset_of : string -> Z.

  Notation key := (key category_priority aliases offset_of).
  Notation resolve := (resolve category_priority aliases offset_of).
  Notation build_supp := (build_supp aliases).

  (* a feedback that the learner could see *)
  Definition shown (s : supp) (f : fb) : bool :=
    f_triggered f && negb (f_muted f) && negb (suppressed s f) && negb (String.eqb (f_kind f) "Compliment").
  (* ... and that carries a message *)
  Definition eligible (s : supp) (f : fb) : bool := shown s f && f_has_message f.

  Definition cat_str (f : fb) : string := match f_category f with Some c => c | None => "" end.

  Definition score_strs (s : supp) (f : fb) : list string :=
    if suppressed s f then [] else
    if f_unscored f then [] else
    match f_score f with
    | Some sc => [String.append (if invert_logic f then "!" else "") sc]
    | None => []
    end.

  Lemma fold_merge_err s l c : fold_left (merge s) l (Err c) = Err c.
  Proof. induction l; cbn; auto. Qed.

  (* ---- one merge step, fully characterised ---- *)
  Lemma merge_step s fin f fin1 :
    merge s (Ok fin) f = Ok fin1 ->
    fin_scores fin1 = fin_scores fin ++ score_strs s f
    /\ fin_correct fin1 = (fin_correct fin && implb (shown s f) (f_correct f))%bool
    /\ (match fin_used fin with
        | Some u => fin_used fin1 = Some u /\ fin_label fin1 = fin_label fin /\ fin_category fin1 = fin_category fin
        | None => if eligible s f
                  then fin_used fin1 = Some (f_id f) /\ fin_label fin1 = f_label f /\ fin_category fin1 = cat_str f
                  else fin_used fin1 = None /\ fin_label fin1 = fin_label fin /\ fin_category fin1 = fin_category fin
        end).
  Proof.
    unfold merge, score_strs, eligible, shown, cat_str.
    destruct (suppressed s f) eqn:Hs.
    { intros [= <-]. rewrite app_nil_r. rewrite !andb_false_r. cbn. rewrite andb_true_r.
      destruct (fin_used fin); auto. }
    destruct (f_unscored f); cbn [negb];
    [ | destruct (f_score f) as [sc|];
        [ destruct (parse_score (String.append (if invert_logic f then "!" else "") sc)); [|discriminate] | ] ];
    destruct (f_triggered f), (f_else f), (f_muted f), (String.eqb (f_kind f) "Compliment"),
             (f_has_message f), (f_correct f);
    destruct (fin_used fin) eqn:Hused; destruct (fin_correct fin) eqn:Hcorr;
    cbn; intros [= <-]; cbn; rewrite ?app_nil_r; repeat split; auto.
  Qed.

  Lemma merge_ok_inv s fin f fin' l :
    fold_left (merge s) l (merge s (Ok fin) f) = Ok fin' -> exists fin1, merge s (Ok fin) f = Ok fin1.
  Proof.
    destruct (merge s (Ok fin) f) eqn:E; [eauto|]. rewrite fold_merge_err. discriminate.
  Qed.

  (* ---- the whole fold ---- *)
  Lemma fold_merge s l : forall fin fin',
    fold_left (merge s) l (Ok fin) = Ok fin' ->
    fin_scores fin' = fin_scores fin ++ flat_map (score_strs s) l
    /\ fin_correct fin' = (fin_correct fin && forallb (fun f => implb (shown s f) (f_correct f)) l)%bool
    /\ (match fin_used fin with
        | Some u => fin_used fin' = Some u /\ fin_label fin' = fin_label fin /\ fin_category fin' = fin_category fin
        | None => match find (eligible s) l with
                  | Some f => fin_used fin' = Some (f_id f) /\ fin_label fin' = f_label f /\ fin_category fin' = cat_str f
                  | None => fin_used fin' = None /\ fin_label fin' = fin_label fin /\ fin_category fin' = fin_category fin
                  end
        end).
  Proof.
    induction l as [|f l IH]; intros fin fin' H.
    - cbn in H. injection H as <-. cbn. rewrite app_nil_r, andb_true_r. destruct (fin_used fin); auto.
    - cbn [fold_left] in H. destruct (merge_ok_inv _ _ _ _ _ H) as [fin1 H1]. rewrite H1 in H.
      destruct (merge_step _ _ _ _ H1) as (S1 & C1 & U1).
      destruct (IH _ _ H) as (S2 & C2 & U2).
      split; [|split].
      + rewrite S2, S1. cbn [flat_map]. now rewrite app_assoc.
      + rewrite C2, C1. cbn [forallb]. now rewrite andb_assoc.
      + destruct (fin_used fin) as [u|] eqn:Hu.
        * destruct U1 as (U1 & L1 & K1). rewrite U1 in U2. destruct U2 as (U2 & L2 & K2).
          repeat split; congruence.
        * cbn [find]. destruct (eligible s f) eqn:He.
          -- destruct U1 as (U1 & L1 & K1). rewrite U1 in U2. destruct U2 as (U2 & L2 & K2).
             repeat split; congruence.
          -- destruct U1 as (U1 & L1 & K1). rewrite U1 in U2.
             destruct (find (eligible s) l); destruct U2 as (U2 & L2 & K2); repeat split; congruence.
  Qed.

  (* ---- resolve: unfolding ---- *)
  Lemma resolve_inv act ign calls r :
    resolve act ign calls = Ok r ->
    exists fin, fold_left (merge (build_supp calls)) (sort_by key (act ++ ign)) (Ok (final0)) = Ok fin
                /\ finalize (build_supp calls) fin = Ok r.
  Proof.
    unfold C01_Resolver.resolve.
    destruct (fold_left _ _ _) as [fin|c] eqn:E; [|discriminate]. eauto.
  Qed.

  Lemma finalize_used s fin r : finalize s fin = Ok r -> r_used r = fin_used fin.
  Proof.
    unfold finalize. destruct (_ && _ && _)%bool.
    - intros [= <-]. reflexivity.
    - destruct (combine_scores _ _); [|discriminate]. intros [= <-]. reflexivity.
  Qed.

  (* ================================================================ C01 *)
  Theorem resolve_selects_best act ign calls r :
    resolve act ign calls = Ok r ->
    let s := build_supp calls in
    let all := act ++ ign in
    match r_used r with
    | Some u =>
        exists f l1 l2, f_id f = u /\ all = l1 ++ f :: l2 /\ eligible s f = true
          /\ (forall g, In g all -> eligible s g = true -> key f <= key g)
          /\ (forall g, In g l1 -> eligible s g = true -> key f < key g)
    | None => forall g, In g all -> eligible s g = false
    end.
  Proof.
    intros H s all. destruct (resolve_inv _ _ _ _ H) as (fin & Hf & Hfin).
    rewrite (finalize_used _ _ _ Hfin).
    destruct (fold_merge _ _ _ _ Hf) as (_ & _ & U). cbn [final0 fin_used] in U.
    rewrite (find_sort key (eligible (build_supp calls))) in U.
    fold s all in U.
    destruct (best key (eligible s) all) as [b|] eqn:Hb.
    - destruct U as (-> & _ & _).
      destruct (best_some _ _ _ _ Hb) as (Hin & Pb & Hmin).
      destruct (best_earliest _ _ _ _ Hb) as (l1 & l2 & Hsplit & Hbefore).
      exists b, l1, l2. repeat split; auto.
    - destruct U as (-> & _ & _). intros g Hg. eapply best_none; eauto.
  Qed.

  (* ---- the sectional resolver: the same choice, made separately among the triggered feedback of each group ---- *)
  Notation sectional_at := (sectional_at category_priority aliases offset_of).

  Lemma in_group_of tagged g f : In f (group_of tagged g) <-> In (g, f) tagged.
  Proof.
    unfold group_of. rewrite in_map_iff. split.
    - intros ((g', f') & E & Hin). cbn in E. subst f'. apply filter_In in Hin. destruct Hin as [Hin Hg].
      cbn in Hg. apply Nat.eqb_eq in Hg. now subst g'.
    - intros Hin. exists (g, f). split; [reflexivity|]. apply filter_In. split; [exact Hin|]. cbn. apply Nat.eqb_refl.
  Qed.

  Theorem sectional_selects_best_in_the_group tagged calls g r :
    sectional_at tagged calls g = Ok r ->
    let s := build_supp calls in
    match r_used r with
    | Some u =>
        exists f l1 l2, f_id f = u /\ In (g, f) tagged /\ group_of tagged g = l1 ++ f :: l2 /\ eligible s f = true
          /\ (forall h, In (g, h) tagged -> eligible s h = true -> key f <= key h)
          /\ (forall h, In h l1 -> eligible s h = true -> key f < key h)
    | None => forall h, In (g, h) tagged -> eligible s h = false
    end.
  Proof.
    unfold C01_Resolver.sectional_at. intros H. pose proof (resolve_selects_best _ _ _ _ H) as B. cbn zeta in B.
    rewrite app_nil_r in B. destruct (r_used r) as [u|].
    - destruct B as (f & l1 & l2 & Hu & Hall & He & Hmin & Hfirst).
      exists f, l1, l2. repeat split; try assumption.
      + apply in_group_of. rewrite Hall. apply in_or_app. right. now left.
      + intros h Hh. apply Hmin. now apply in_group_of.
    - intros h Hh. apply B. now apply in_group_of.
  Qed.

  (* a feedback of another group never takes part in the choice for g *)
  Theorem sectional_ignores_other_groups tagged calls g g' f :
    g' <> g -> sectional_at ((g', f) :: tagged) calls g = sectional_at tagged calls g.
  Proof.
    intros Hne. unfold C01_Resolver.sectional_at, group_of. cbn [filter fst].
    destruct (Nat.eqb_spec g' g); [contradiction|reflexivity].
  Qed.

  Theorem default_when_nothing_eligible act ign calls r :
    resolve act ign calls = Ok r -> r_used r = None ->
    hides_correctness (build_supp calls) = false ->
    r_is_default r = true /\ r_correct r = true /\ r_score r = inject_Z 1.
  Proof.
    intros H Hu Hh. destruct (resolve_inv _ _ _ _ H) as (fin & Hf & Hfin).
    rewrite (finalize_used _ _ _ Hfin) in Hu.
    destruct (fold_merge _ _ _ _ Hf) as (_ & _ & U). cbn [final0 fin_used fin_label fin_category] in U.
    destruct (find _ _) as [b|]; destruct U as (U1 & L & K); [congruence|].
    unfold finalize in Hfin. rewrite Hh, L, K in Hfin. cbn in Hfin.
    injection Hfin as <-. cbn. auto.
  Qed.

  (* ---- totality: resolve raises only for a score string that Score.parse rejects or a division by zero ---- *)
  Definition str_ok (str : string) : bool :=
    match parse_score str with
    | Ok v => match s_op v with
              | Some c => if Ascii.eqb c "/"%char then (s_invert v || negb (Qeq_bool (s_value v) 0))%bool else true
              | None => true
              end
    | Err _ => false
    end.
  Definition scores_wf (f : fb) : bool :=
    match f_score f with
    | Some sc => str_ok sc && str_ok (String.append "!" sc)
    | None => true
    end.

  Lemma merge_total s fin f : scores_wf f = true -> exists fin1, merge s (Ok fin) f = Ok fin1.
  Proof.
    unfold scores_wf, merge. intros Hwf.
    destruct (suppressed s f); [eauto|].
    destruct (negb (f_unscored f)).
    - destruct (f_score f) as [sc|].
      + apply andb_prop in Hwf. destruct Hwf as [H1 H2].
        assert (Hp : exists v, parse_score (String.append (if invert_logic f then "!" else "") sc) = Ok v).
        { unfold str_ok in H1, H2. destruct (invert_logic f); cbn [String.append].
          - cbn [String.append] in H2. destruct (parse_score (String "!" sc)); [eauto|discriminate].
          - destruct (parse_score sc); [eauto|discriminate]. }
        destruct Hp as [v ->].
        destruct (negb (f_triggered f) && f_else f)%bool; [eauto|].
        destruct (negb (f_triggered f) || f_muted f)%bool; [eauto|].
        destruct (String.eqb (f_kind f) "Compliment"); [eauto|].
        destruct (fin_used _), (f_has_message f); eauto.
      + destruct (negb (f_triggered f) && f_else f)%bool; [eauto|].
        destruct (negb (f_triggered f) || f_muted f)%bool; [eauto|].
        destruct (String.eqb (f_kind f) "Compliment"); [eauto|].
        destruct (fin_used _), (f_has_message f); eauto.
    - destruct (negb (f_triggered f) && f_else f)%bool; [eauto|].
      destruct (negb (f_triggered f) || f_muted f)%bool; [eauto|].
      destruct (String.eqb (f_kind f) "Compliment"); [eauto|].
      destruct (fin_used _), (f_has_message f); eauto.
  Qed.

  Lemma fold_total s l : forall fin,
    (forall f, In f l -> scores_wf f = true) -> exists fin', fold_left (merge s) l (Ok fin) = Ok fin'.
  Proof.
    induction l as [|f l IH]; intros fin H; cbn [fold_left]; [eauto|].
    destruct (merge_total s fin f (H f (or_introl eq_refl))) as [fin1 ->].
    apply IH. intros g Hg. apply H. now right.
  Qed.

  Lemma score_strs_ok s f : scores_wf f = true -> forall x, In x (score_strs s f) -> str_ok x = true.
  Proof.
    unfold scores_wf, score_strs. intros H x.
    destruct (suppressed s f); [intros []|]. destruct (f_unscored f); [intros []|].
    destruct (f_score f) as [sc|]; [|intros []].
    apply andb_prop in H. destruct H as [H1 H2].
    intros [<-|[]]. destruct (invert_logic f); cbn [String.append]; assumption.
  Qed.

  Lemma combine_total l : forall cur, (forall x, In x l -> str_ok x = true) -> exists q, combine_scores l cur = Ok q.
  Proof.
    induction l as [|x l IH]; intros cur H; cbn [combine_scores]; [eauto|].
    assert (Hx := H x (or_introl eq_refl)). unfold str_ok in Hx.
    destruct (parse_score x) as [v|]; [|discriminate].
    assert (Ha : exists c, add_to_current v cur = Ok c).
    { unfold add_to_current. destruct (s_invert v) eqn:Hi; [eauto|].
      destruct (s_op v) as [c|]; [|eauto].
      destruct (Ascii.eqb c "+"); [eauto|]. destruct (Ascii.eqb c "-"); [eauto|].
      destruct (Ascii.eqb c "*"); [eauto|].
      destruct (Ascii.eqb c "/") eqn:Hd; [|eauto].
      cbn in Hx. destruct (Qeq_bool (s_value v) 0); [discriminate|eauto]. }
    destruct Ha as [c ->]. apply IH. intros y Hy. apply H. now right.
  Qed.

  Theorem resolve_total act ign calls :
    (forall f, In f (act ++ ign) -> scores_wf f = true) ->
    exists r, resolve act ign calls = Ok r.
  Proof.
    intros H. unfold C01_Resolver.resolve.
    set (s := build_supp calls).
    assert (Hs : forall f, In f (sort_by key (act ++ ign)) -> scores_wf f = true).
    { intros f Hf. apply H. eapply Permutation_in; [apply Permutation_sym, sort_perm|exact Hf]. }
    destruct (fold_total s _ final0 Hs) as [fin Hfin]. rewrite Hfin.
    unfold finalize. destruct (_ && _ && _)%bool; [eauto|].
    destruct (fold_merge _ _ _ _ Hfin) as (S & _ & _). cbn [final0 fin_scores app] in S.
    destruct (combine_total (fin_scores fin) (inject_Z 0)) as [q ->]; [|eauto].
    rewrite S. intros x Hx. apply in_flat_map in Hx. destruct Hx as (f & Hf & Hx).
    eapply score_strs_ok; eauto.
  Qed.

  (* ================================================================ C02 *)
  (* no feedback impersonates the default record *)
  Definition not_impersonating (f : fb) : Prop :=
    ~ (f_label f = DEFAULT_LABEL /\ cat_str f = COMPLETE).
  (* C20: a triggered feedback always has a message *)
  Definition msgs_present (s : supp) (f : fb) : Prop := shown s f = true -> f_has_message f = true.

  Lemma forallb_perm {A} (p : A -> bool) l l' : Permutation l l' -> forallb p l = forallb p l'.
  Proof.
    induction 1; cbn; auto.
    - now rewrite IHPermutation.
    - rewrite !andb_assoc. f_equal. apply andb_comm.
    - congruence.
  Qed.

  Theorem correct_iff act ign calls r :
    resolve act ign calls = Ok r ->
    let s := build_supp calls in
    let all := act ++ ign in
    (forall f, In f all -> not_impersonating f) ->
    (forall f, In f all -> msgs_present s f) ->
    (r_correct r = true <-> forall f, In f all -> shown s f = true -> f_correct f = true).
  Proof.
    intros H s all Himp Hmsg. destruct (resolve_inv _ _ _ _ H) as (fin & Hf & Hfin).
    destruct (fold_merge _ _ _ _ Hf) as (_ & C & U). cbn [final0 fin_used fin_label fin_category fin_correct] in C, U.
    fold s in C, U, Hfin.
    rewrite (forallb_perm _ _ _ (Permutation_sym (sort_perm key (act ++ ign)))) in C. fold all in C.
    cbn [andb] in C.
    assert (Hall : fin_correct fin = true <-> (forall f, In f all -> shown s f = true -> f_correct f = true)).
    { rewrite C, forallb_forall. split.
      - intros Hx f Hin Hsh. specialize (Hx f Hin). rewrite Hsh in Hx. exact Hx.
      - intros Hx f Hin. destruct (shown s f) eqn:Hsh; [|reflexivity]. cbn. now apply Hx. }
    unfold finalize in Hfin.
    destruct (negb (hides_correctness s) && String.eqb (fin_label fin) DEFAULT_LABEL
              && String.eqb (fin_category fin) COMPLETE)%bool eqn:Hd.
    - (* default-correct result: then nothing is shown *)
      injection Hfin as <-. cbn [r_correct]. split; [|reflexivity]. intros _.
      apply andb_prop in Hd. destruct Hd as [Hd Hc]. apply andb_prop in Hd. destruct Hd as [_ Hl].
      apply String.eqb_eq in Hl. apply String.eqb_eq in Hc.
      rewrite (find_sort key (eligible s)) in U. fold all in U.
      destruct (best key (eligible s) all) as [b|] eqn:Hb.
      + destruct U as (_ & L & K).
        destruct (best_some _ _ _ _ Hb) as (Hin & _ & _).
        exfalso. apply (Himp b Hin). split; congruence.
      + intros f Hin Hsh. assert (He := best_none _ _ _ Hb f Hin).
        unfold eligible in He. rewrite Hsh in He. cbn in He.
        rewrite (Hmsg f Hin Hsh) in He. discriminate.
    - destruct (combine_scores _ _); [|discriminate]. injection Hfin as <-. cbn [r_correct]. exact Hall.
  Qed.

  (* ================================================================ C03 *)
  Definition additive (v : score) : bool :=
    match s_op v with
    | None => true
    | Some c => (Ascii.eqb c "+" || Ascii.eqb c "-")%char
    end.
  Definition signed (v : score) : Q :=
    match s_op v with
    | Some c => if Ascii.eqb c "-"%char then Qopp (s_value v) else s_value v
    | None => s_value v
    end.

  (* the documented contribution of one feedback *)
  Definition contrib (s : supp) (f : fb) : Q :=
    if (suppressed s f || f_unscored f)%bool then 0%Q else
    match f_score f with
    | None => 0%Q
    | Some sc =>
        (* triggered positive/neutral, or untriggered negative *)
        if Bool.eqb (f_triggered f) (negb (f_negative f))
        then match parse_score sc with Ok v => signed v | Err _ => 0%Q end
        else 0%Q
    end.
  (* the score forms of the property: [+-]?number%?  (no leading "!", no * or /) *)
  Definition additive_fb (f : fb) : Prop :=
    match f_score f with
    | Some sc => exists v, parse_score sc = Ok v /\ additive v = true /\ s_invert v = false
    | None => True
    end.

  Fixpoint qsum (l : list Q) : Q := match l with [] => 0%Q | x :: l' => (x + qsum l')%Q end.

  Lemma qsum_perm l l' : Permutation l l' -> (qsum l == qsum l')%Q.
  Proof.
    induction 1; cbn.
    - reflexivity.
    - now rewrite IHPermutation.
    - ring.
    - now rewrite IHPermutation1.
  Qed.

  Lemma invert_logic_spec f : invert_logic f = negb (Bool.eqb (f_triggered f) (negb (f_negative f))).
  Proof. unfold invert_logic. destruct (f_triggered f), (f_negative f); reflexivity. Qed.

  (* "!" in front flips only the invert flag *)
  Lemma parse_bang sc :
    parse_score (String "!" sc) =
    match parse_score sc with
    | Ok v => Ok (mkScore (negb (s_invert v)) (s_op v) (s_value v) (s_percent v))
    | Err c => Err c
    end.
  Proof.
    unfold parse_score. cbn [count_bangs].
    change (Ascii.eqb "!" "!") with true. cbn iota.
    destruct (count_bangs sc) as [n r1]. unfold parse_after.
    destruct (parse_body r1) as [[[[op v] pct]|c]|]; try reflexivity.
    cbn. rewrite Nat.odd_succ, <- Nat.negb_odd. reflexivity.
  Qed.

  Lemma round2_proper q1 q2 : (q1 == q2)%Q -> round2 q1 = round2 q2.
  Proof.
    intros H. unfold round2, round_half_even.
    assert (H100 : (q1 * inject_Z 100 == q2 * inject_Z 100)%Q) by now rewrite H.
    rewrite (Qfloor_comp _ _ H100).
    assert (Hc : ((q1 * inject_Z 100 - inject_Z (Qfloor (q2 * inject_Z 100))) ?= 1 # 2)%Q
                 = ((q2 * inject_Z 100 - inject_Z (Qfloor (q2 * inject_Z 100))) ?= 1 # 2)%Q).
    { apply Qcompare_comp; [now rewrite H100|reflexivity]. }
    rewrite Hc. reflexivity.
  Qed.

  Lemma add_additive v cur :
    additive v = true -> s_invert v = false ->
    exists cur', add_to_current v cur = Ok cur' /\ (cur' == cur + signed v)%Q.
  Proof.
    unfold additive, add_to_current, signed. intros Ha ->.
    destruct (s_op v) as [c|].
    - destruct (Ascii.eqb c "+") eqn:E1.
      + assert (E2 : Ascii.eqb c "-" = false) by (apply Ascii.eqb_eq in E1; subst c; reflexivity).
        rewrite E2. eexists; split; [reflexivity|]. rewrite Qred_correct. reflexivity.
      + cbn in Ha. rewrite Ha. eexists; split; [reflexivity|]. rewrite Qred_correct. unfold Qminus. reflexivity.
    - eexists; split; [reflexivity|]. rewrite Qred_correct. reflexivity.
  Qed.

  (* processing one feedback's score strings moves the running total by exactly its documented contribution *)
  Lemma combine_app_fb s f rest cur :
    additive_fb f ->
    exists cur', (cur' == cur + contrib s f)%Q /\
                 combine_scores (score_strs s f ++ rest) cur = combine_scores rest cur'.
  Proof.
    unfold additive_fb, score_strs, contrib. intros Hadd.
    destruct (suppressed s f); [exists cur; cbn [orb]; split; [ring|reflexivity]|].
    destruct (f_unscored f); [exists cur; cbn [orb]; split; [ring|reflexivity]|]. cbn [orb].
    destruct (f_score f) as [sc|]; [|exists cur; split; [ring|reflexivity]].
    destruct Hadd as (v & Hp & Ha & Hi).
    rewrite invert_logic_spec.
    destruct (Bool.eqb (f_triggered f) (negb (f_negative f))); cbn [negb String.append app combine_scores].
    - rewrite Hp. destruct (add_additive v cur Ha Hi) as (cur' & -> & Hq). exists cur'. split; [exact Hq|reflexivity].
    - rewrite parse_bang, Hp. unfold add_to_current. cbn [s_invert]. rewrite Hi. cbn [negb].
      exists cur. split; [ring|reflexivity].
  Qed.

  Lemma combine_flat s l : forall cur,
    (forall f, In f l -> additive_fb f) ->
    exists q, (q == cur + qsum (map (contrib s) l))%Q /\
              combine_scores (flat_map (score_strs s) l) cur = Ok (round2 q).
  Proof.
    induction l as [|f l IH]; intros cur H.
    - exists cur. split; [cbn; ring|reflexivity].
    - cbn [flat_map map qsum].
      destruct (combine_app_fb s f (flat_map (score_strs s) l) cur (H f (or_introl eq_refl))) as (cur' & Hq & ->).
      destruct (IH cur' (fun g Hg => H g (or_intror Hg))) as (q & Hq2 & ->).
      exists q. split; [|reflexivity]. rewrite Hq2, Hq. ring.
  Qed.

  Theorem score_spec act ign calls r :
    resolve act ign calls = Ok r ->
    let s := build_supp calls in
    let all := act ++ ign in
    (forall f, In f all -> additive_fb f) ->
    (r_is_default r = true /\ r_score r = inject_Z 1) \/
    (r_is_default r = false /\ r_score r = round2 (qsum (map (contrib s) all))).
  Proof.
    intros H s all Hadd. destruct (resolve_inv _ _ _ _ H) as (fin & Hf & Hfin).
    destruct (fold_merge _ _ _ _ Hf) as (S & _ & _). cbn [final0 fin_scores app] in S. fold s in S, Hfin.
    unfold finalize in Hfin. destruct (_ && _ && _)%bool.
    - left. injection Hfin as <-. auto.
    - right. rewrite S in Hfin.
      destruct (combine_flat s (sort_by key (act ++ ign)) (inject_Z 0)) as (q & Hq & Hc).
      { intros f Hin. apply Hadd. eapply Permutation_in; [apply Permutation_sym, sort_perm|exact Hin]. }
      rewrite Hc in Hfin. injection Hfin as <-. cbn [r_is_default r_score]. split; [reflexivity|].
      apply round2_proper. rewrite Hq.
      rewrite (qsum_perm _ _ (Permutation_map (contrib s) (Permutation_sym (sort_perm key (act ++ ign))))).
      fold all. ring.
  Qed.

  (* corollaries named in the property *)
  Lemma muted_still_scores s f :
    contrib s f = contrib s (mkFb (f_id f) (f_category f) (f_label f) (f_priority f) (f_kind f) (negb (f_muted f))
                                  (f_unscored f) (f_triggered f) (f_else f) (f_correct f) (f_score f) (f_negative f)
                                  (f_has_message f) (f_fields f)).
  Proof. reflexivity. Qed.
End Generic.

(* ------------------------------------------------------------------ instantiation with the regenerated tables *)

Lemma index_of_lt x l i j : index_of x l i = Some j -> i <= j < i + Z.of_nat (List.length l).
Proof.
  revert i. induction l as [|y l IH]; cbn [index_of]; intros i H; [discriminate|].
  destruct (String.eqb x y).
  - injection H as <-. cbn [List.length]. lia.
  - apply IH in H. cbn [List.length]. lia.
Qed.

(* the key of a feedback: rank of its (possibly re-ranked) category, shifted by priority *)
Lemma the_key_spec f :
  the_key f =
    let category := match f_category f with Some c => lower c | None => "uncategorized" end in
    let priority0 := match f_priority f with
                     | Some p => match assoc (lower p) gen_aliases with Some a => a | None => lower p end
                     | None => "medium" end in
    match index_of priority0 doc_order 0 with
    | Some i => 10 * i + 5
    | None => 10 * (match index_of category doc_order 0 with Some i => i | None => 12 end)
              + (if String.eqb priority0 "low" then 7 else if String.eqb priority0 "medium" then 5
                 else if String.eqb priority0 "high" then 3 else 1)
    end.
Proof.
  unfold the_key, key. rewrite rank_table_is_documented. cbn zeta.
  rewrite !gen_offset_spec. cbn [String.eqb Ascii.eqb Bool.eqb]. reflexivity.
Qed.

(* non-vacuity: a report with a muted syntax item and a suppressed instructor item ahead of the winner *)
Definition ex_fbs : list fb :=
  [ mkFb 0 (Some "syntax") "a" None "" true false true false false None true true [];
    mkFb 1 (Some "Instructor") "b" None "Mistake" false false true false false (Some "+10%") true true [("q", FZ 1)];
    mkFb 2 (Some "runtime") "c" (Some "high") "Mistake" false false true false false None true true [];
    mkFb 3 (Some "runtime") "d" (Some "high") "Mistake" false false true false false None true true [];
    mkFb 4 (Some "specification") "e" None "Mistake" false false true false true (Some "25%") false true [] ].
Definition ex_ign : list fb :=
  [ mkFb 5 (Some "specification") "g" None "Mistake" false false false false false (Some "0.5") true true [] ].
Definition ex_calls : list supp_call := [ mkCall (Some "INSTRUCTOR") (Some "B") [("q", FZ 1)] ].

Example ex_resolves :
  match the_resolve ex_fbs ex_ign ex_calls with
  | Ok r => r_used r = Some 2 /\ r_correct r = false /\ Qeq_bool (r_score r) (3 # 4) = true /\ r_is_default r = false
  | Err _ => False
  end.
Proof. vm_compute. repeat split; reflexivity. Qed.

Definition additive_fb_b (f : fb) : bool :=
  match f_score f with
  | Some sc => match parse_score sc with Ok v => additive v && negb (s_invert v) | Err _ => false end
  | None => true
  end.
Lemma additive_fb_b_sound f : additive_fb_b f = true -> additive_fb f.
Proof.
  unfold additive_fb_b, additive_fb. destruct (f_score f) as [sc|]; [|trivial].
  destruct (parse_score sc) as [v|]; [|discriminate]. intros H. apply andb_prop in H. destruct H as [H1 H2].
  exists v. repeat split; auto. now destruct (s_invert v).
Qed.

Example ex_hypotheses_hold :
  forallb scores_wf (ex_fbs ++ ex_ign) = true /\ forallb additive_fb_b (ex_fbs ++ ex_ign) = true.
Proof. vm_compute. split; reflexivity. Qed.
