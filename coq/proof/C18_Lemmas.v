(* C18 proofs. *)
From Coq Require Import List Bool Arith Lia.
Import ListNotations.
From Pedal Require Import lib.ExnFlow model.C18_Tifa gen.C18_Gen.

Lemma process_paths_ok : forallb process_ok (paths teff None gen_process_code) = true.
Proof. vm_compute. reflexivity. Qed.

(* for EVERY oracle: whatever ast.parse, the traversal or anything they call raises (any Exception subclass,
   including RecursionError), process_code returns an analysis *)
Theorem process_code_total : forall o, process_ok (exec teff o None gen_process_code) = true.
Proof. exact (forall_paths teff process_ok gen_process_code process_paths_ok). Qed.

Theorem process_code_never_raises o :
  match fst (exec teff o None gen_process_code) with Raised _ => False | _ => True end.
Proof.
  pose proof (process_code_total o) as H. destruct (exec teff o None gen_process_code) as [oc t].
  cbn. destruct oc; [exact I|exact I|]. cbn in H. discriminate.
Qed.

(* ---------------- cache ---------------- *)
Lemma analyse_hit adds s c r : find_code c (cache s) = Some r -> analyse adds s c = (s, r).
Proof. unfold analyse. now intros ->. Qed.

(* analysing the same code again returns the same result and attaches nothing *)
Theorem second_call_same s adds c :
  let '(s1, r1) := analyse adds s c in
  let '(s2, r2) := analyse adds s1 c in
  r2 = r1 /\ s2 = s1.
Proof.
  unfold analyse at 1. destruct (find_code c (cache s)) as [r|] eqn:E.
  - rewrite (analyse_hit adds s c r E). auto.
  - unfold analyse. cbn [cache find_code]. rewrite Nat.eqb_refl. auto.
Qed.

Lemma find_code_mono adds s c s' r c' r' :
  analyse adds s c = (s', r) -> find_code c' (cache s) = Some r' -> find_code c' (cache s') = Some r'.
Proof.
  unfold analyse. destruct (find_code c (cache s)) as [x|] eqn:E.
  - intros [= <- <-]. auto.
  - intros [= <- <-] H. cbn [cache find_code]. destruct (Nat.eqb_spec c' c); [subst; congruence|exact H].
Qed.

(* for ANY sequence of calls (any repetition counts, any other codes in between): once a code has been analysed,
   every later call with it returns that same result and leaves the report untouched *)
Theorem repeat_is_noop adds cs : forall s c r,
  find_code c (cache s) = Some r ->
  let '(s', _) := analyse_all adds s cs in
  find_code c (cache s') = Some r /\ analyse adds s' c = (s', r).
Proof.
  induction cs as [|x cs IH]; intros s c r H; cbn [analyse_all].
  - split; [exact H|now apply analyse_hit].
  - destruct (analyse adds s x) as [s1 rx] eqn:E1.
    pose proof (find_code_mono adds s x s1 rx c r E1 H) as H1.
    specialize (IH s1 c r H1). destruct (analyse_all adds s1 cs) as [s2 rs]. exact IH.
Qed.

(* feedback grows only by fresh analyses: the total equals the sum over DISTINCT codes, in first-seen order *)
Fixpoint fresh_sum (adds : nat -> nat) (seen : list nat) (cs : list nat) : nat :=
  match cs with
  | [] => 0
  | c :: cs' => if existsb (Nat.eqb c) seen then fresh_sum adds seen cs'
                else adds c + fresh_sum adds (c :: seen) cs'
  end.

Lemma find_code_keys c l : (exists r, find_code c l = Some r) <-> existsb (Nat.eqb c) (map fst l) = true.
Proof.
  induction l as [|[c' r'] l IH]; cbn.
  - split; [intros [r H]; discriminate|discriminate].
  - destruct (Nat.eqb c c'); cbn; [split; eauto|exact IH].
Qed.

Theorem feedback_only_from_fresh adds cs : forall s,
  fb (fst (analyse_all adds s cs)) = fb s + fresh_sum adds (map fst (cache s)) cs.
Proof.
  induction cs as [|c cs IH]; intros s; cbn [analyse_all fresh_sum]; [cbn; lia|].
  unfold analyse. destruct (find_code c (cache s)) as [r|] eqn:E.
  - assert (Hk : existsb (Nat.eqb c) (map fst (cache s)) = true) by (apply find_code_keys; eauto).
    rewrite Hk. specialize (IH s). destruct (analyse_all adds s cs) as [s2 rs]. exact IH.
  - assert (Hk : existsb (Nat.eqb c) (map fst (cache s)) = false).
    { destruct (existsb _ _) eqn:X; [|reflexivity]. apply find_code_keys in X. destruct X as [r X]. congruence. }
    rewrite Hk.
    specialize (IH (mkT ((c, next_id s) :: cache s) (S (next_id s)) (fb s + adds c))).
    destruct (analyse_all adds _ cs) as [s2 rs]. cbn [fst] in *. rewrite IH. cbn [fb cache map fst]. lia.
Qed.
