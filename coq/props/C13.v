(* C13 - grading a submission is independent of what the process graded before it.
   PARTIAL: the Coq part is (1) two finite theorems over data REGENERATED from the source - every mutable global is
   classified, Report.clear resets every field Report.__init__ creates - and (2) the abstract argument that a grading
   which first resets everything it reads cannot depend on the history.  That the real gradings read nothing else is
   what the history-vs-fresh-interpreter correspondence run tests. *)
From Coq Require Import List String Bool.
Import ListNotations.
From Pedal Require Import model.C13_Classification gen.C13_Gen proof.C13_Lemmas.
Open Scope string_scope.

Theorem C13_inventory_classified : forallb (fun i => mem i (map fst classification)) gen_inventory = true.
Proof. exact inventory_classified. Qed.
Print Assumptions C13_inventory_classified.

Theorem C13_clear_covers_init :
  forallb (fun f => mem f gen_report_clear_fields || mem f clear_exempt) gen_report_init_fields = true.
Proof. exact clear_covers_init. Qed.
Print Assumptions C13_clear_covers_init.

Theorem C13_history_independent :
  forall comp content (init : comp -> content) resets script result (grade : script -> (comp -> content) -> (comp -> content) * result),
    (forall s g g', (forall c, resets c = true -> g c = g' c) -> snd (grade s g) = snd (grade s g')) ->
    forall h s,
      snd (grade s (clear comp content init resets (fold_left (run_one comp content init resets script result grade) h init)))
      = snd (grade s (clear comp content init resets init)).
Proof. exact history_independent. Qed.
Print Assumptions C13_history_independent.
