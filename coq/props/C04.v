(* C04 - student-code failures are contained and reported, never raised into the grader.
   Over the skeleton of Sandbox._execute regenerated on every run, for EVERY oracle: the execution returns unless the
   class is outside Exception/SystemExit; exactly one failure is captured when student code did not finish, none when
   it did.  (Contract: pedal's own recording code does not raise - established for the repaired feedback code by the
   exception zoo of the correspondence run.) *)
From Coq Require Import List Bool Arith.
Import ListNotations.
From Pedal Require Import lib.ExnFlow model.C05_Effects gen.C05_Gen proof.C05_Lemmas.

Theorem C04_execute_contains : forall o, c04_ok (exec eff o None gen_execute) = true.
Proof. exact execute_contains. Qed.
Print Assumptions C04_execute_contains.

(* the metatheorem the finite path check rests on *)
Theorem C04_paths_complete : forall o s cur, In (exec eff o cur s) (paths eff cur s).
Proof. exact (paths_complete eff). Qed.
Print Assumptions C04_paths_complete.
