(* C19 - TIFA's operator typing agrees with what CPython does at run time (core types int, float, str, list, tuple).
   The operator table is REGENERATED from pedal/types/operations.py on every run.
   Comparisons: Tifa.visit_Compare's dispatch lists, the orderable sets and the allows_membership shapes are REGENERATED too.
   Value typing (get_pedal_type_from_value, is_subtype, the normal form of a Python type) is modelled too (end of this file). *)
From Coq Require Import List String Bool.
Import ListNotations.
From Pedal Require Import model.C19_Types gen.C19_Gen model.C19_Compare proof.C19_Lemmas proof.C19_Compare_Lemmas.
Open Scope string_scope.

Theorem C19_reports_when_cpython_raises :
  forall op a b, In op binops -> cpy_raises op a b = true -> T op a b = PImpossible.
Proof. exact reports_when_cpython_raises. Qed.
Print Assumptions C19_reports_when_cpython_raises.

Theorem C19_result_conforms :
  forall op a b r, In op binops -> excluded op a b = false -> T op a b <> PImpossible ->
    In r (cpy_binop op a b) -> conforms r (T op a b) = true.
Proof. exact result_conforms. Qed.
Print Assumptions C19_result_conforms.

Theorem C19_results_stay_core :
  forall op a b, In op binops -> T op a b = PImpossible \/ core_of_ptype_b (T op a b) = true.
Proof. exact results_stay_core. Qed.
Print Assumptions C19_results_stay_core.

Theorem C19_static_sound :
  forall e c, ops_ok e -> static e = Some c -> dynamic e = Some [c].
Proof. exact static_sound. Qed.
Print Assumptions C19_static_sound.

(* comparisons: for every comparison operator x every ordered pair of core operand types, whichever pedal class (plain or
   literal) the operands carry *)
Theorem C19_compare_reports_when_cpython_raises :
  forall op a b l r, In op cmpops -> In l (reps a) -> In r (reps b) -> cpy_cmp_raises op a b = true -> tifa_cmp op l r = Some true.
Proof. exact compare_reports_when_cpython_raises. Qed.
Print Assumptions C19_compare_reports_when_cpython_raises.

Theorem C19_compare_exact :
  forall op a b l r, In op cmpops -> In l (reps a) -> In r (reps b) -> decided op b = true ->
    tifa_cmp op l r = Some (cpy_cmp_raises op a b).
Proof. exact compare_exact. Qed.
Print Assumptions C19_compare_exact.

Theorem C19_undecided_cells_never_raise :
  forall op a b, decided op b = false -> cpy_cmp_raises op a b = false.
Proof. exact undecided_cells_never_raise. Qed.
Print Assumptions C19_undecided_cells_never_raise.

(* without the exclusion, C19_result_conforms is false: the witness is the recorded finding *)
Theorem C19_pow_int_int_refuted :
  T "Pow" CInt CInt <> PImpossible /\ exists r, In r (cpy_binop "Pow" CInt CInt) /\ conforms r (T "Pow" CInt CInt) = false.
Proof. exact pow_int_int_refuted. Qed.
Print Assumptions C19_pow_int_int_refuted.

(* value typing: for values of ANY size and nesting (ints, floats, bools, strs, None, lists, tuples, dicts, sets) the type pedal
   computes is a subtype of itself and of the normal form of the value's own Python type.  Model: model/C19_Values.v, tied to
   get_pedal_type_from_value / normalize_type / is_subtype by the correspondence run (type structure of every generated value,
   is_subtype on ordered pairs of value types). *)
From Pedal Require Import model.C19_Values proof.C19_Values_Lemmas.

Theorem C19_value_type_is_a_subtype_of_itself : forall v, sub (type_of v) (type_of v) = true.
Proof. exact value_type_is_a_subtype_of_itself. Qed.
Print Assumptions C19_value_type_is_a_subtype_of_itself.

Theorem C19_value_type_conforms : forall v, sub (type_of v) (norm_of v) = true.
Proof. exact value_type_conforms. Qed.
Print Assumptions C19_value_type_conforms.

Theorem C19_subtyping_is_reflexive : forall t, sub t t = true.
Proof. exact sub_refl. Qed.
Print Assumptions C19_subtyping_is_reflexive.

(* apply_binary_operation itself (shape checked against the source on every run): AnyType short-cuts and promotion of Literal
   operand types before the table is consulted - the operator theorems hold whichever class the operands carry *)
From Pedal Require Import model.C19_Apply proof.C19_Apply_Lemmas.

Theorem C19_apply_on_any_representation :
  forall op a b la rb, In op binops -> In la (reps a) -> In rb (reps b) -> apply_binop op (OClass la) (OClass rb) = RType (T op a b).
Proof. exact apply_on_any_representation. Qed.
Print Assumptions C19_apply_on_any_representation.

Theorem C19_reports_when_cpython_raises_any_representation :
  forall op a b la rb, In op binops -> In la (reps a) -> In rb (reps b) -> cpy_raises op a b = true ->
    apply_binop op (OClass la) (OClass rb) = RType PImpossible.
Proof. exact reports_when_cpython_raises_any_representation. Qed.
Print Assumptions C19_reports_when_cpython_raises_any_representation.

Theorem C19_unknown_operand_is_never_reported :
  forall op x, apply_binop op OAny x = RSame x /\ (x <> OAny -> apply_binop op x OAny = RSame x).
Proof. exact unknown_operand_is_never_reported. Qed.
Print Assumptions C19_unknown_operand_is_never_reported.
