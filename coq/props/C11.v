(* C11 - CAIT finds every occurrence that exists by construction.  Statements only; proofs in proof/C10_Lemmas.v
   (completeness of the search) and proof/C11_Lemmas.v (derived patterns embed). *)
From Coq Require Import List String Bool Arith ZArith.
Import ListNotations.
From Pedal Require Import model.C10_Cait proof.C10_Lemmas proof.C10_Spec proof.C11_Lemmas.
Open Scope string_scope.

(* the search is exhaustive: whatever embeds at whatever node of the program is returned *)
Theorem C11_every_embedding_is_found :
  forall pattern student s' m,
  Subtree s' (trim_root student) -> Emb true (trim_root pattern) s' m -> In m (find_matches pattern student).
Proof. intros p s s' m Hs He. apply find_matches_spec. eauto. Qed.
Print Assumptions C11_every_embedding_is_found.

(* a pattern derived from ANY node of the program (kept nodes, sub-expressions -> ___ / __e__, statements -> ___ /
   __e__ statements, identifiers -> placeholders by an injective renaming, children dropped; any positions, any
   depth) is matched, and the expected map is among the matches *)
Theorem C11_a_derived_pattern_is_matched_with_the_expected_map :
  forall rho pattern student t m,
  (forall x y, rho x = rho y -> x = y) ->
  Subtree t (trim_root student) ->
  Der rho t (trim_root pattern) m ->
  In m (find_matches pattern student).
Proof. exact derived_pattern_matches. Qed.
Print Assumptions C11_a_derived_pattern_is_matched_with_the_expected_map.

(* that map binds each placeholder rho(x) to the identifier x it replaced ... *)
Theorem C11_expected_map_binds_placeholders_to_the_identifiers_they_replaced :
  forall rho t i m, (forall x y, rho x = rho y -> x = y) -> Der rho t i m ->
  forall tb k v, In (tb, k, v) (syms m) -> k = rho v.
Proof. exact derived_binding. Qed.
Print Assumptions C11_expected_map_binds_placeholders_to_the_identifiers_they_replaced.

(* ... and each __expr__ placeholder to a node of the tree the pattern was derived from *)
Theorem C11_expected_map_binds_expressions_to_nodes_of_the_program :
  forall rho t i m, Der rho t i m ->
  forall n x, In (n, x) (exps m) -> exists t', Subtree t' t /\ x = t_id t'.
Proof. exact derived_exps. Qed.
Print Assumptions C11_expected_map_binds_expressions_to_nodes_of_the_program.

(* the derived pattern embeds under both settings of check_meta *)
Theorem C11_a_derived_pattern_embeds :
  forall rho, (forall x y, rho x = rho y -> x = y) ->
  forall t i m, Der rho t i m -> forall meta, Emb meta i t m /\ syms_ok rho m.
Proof. exact der_emb. Qed.
Print Assumptions C11_a_derived_pattern_embeds.

(* the property's last sentence, for ANY matching pattern (not only one derived from the program): replacing
   sub-trees by ___ / __n__ names in the same parent field and dropping children, at any positions and depths
   (Gen), keeps an embedding - with no new symbol bindings *)
From Pedal Require Import proof.C11_Gen.

Theorem C11_generalising_a_matching_pattern_keeps_the_match :
  forall meta p s m, Emb meta p s m ->
  forall p', Gen p p' -> exists m', Emb meta p' s m' /\ incl (syms m') (syms m).
Proof. exact generalising_keeps_the_match. Qed.
Print Assumptions C11_generalising_a_matching_pattern_keeps_the_match.

Theorem C11_generalised_pattern_still_matches :
  forall pattern pattern' student m,
  In m (find_matches pattern student) -> Gen (trim_root pattern) (trim_root pattern') ->
  exists m', In m' (find_matches pattern' student).
Proof. exact generalised_pattern_still_matches. Qed.
Print Assumptions C11_generalised_pattern_still_matches.

(* history: on a report that has searched other texts before (texts that parse, texts that do not, the same text
   again, the submission itself), a search sees exactly the parse of the text it is asked about - as on a fresh
   report (model of reparse_if_needed: model/C11_Cache.v) *)
From Pedal Require Import model.C11_Cache proof.C11_Cache_Lemmas.

Theorem C11_search_sees_the_text_it_is_asked_about :
  forall (code tree : Type) (code_eqb : code -> code -> bool),
  (forall a b, code_eqb a b = true <-> a = b) ->
  forall (parse : code -> option tree) (empty : tree) history arg st,
  Inv code tree code_eqb parse st ->
  seen code tree (reparse code tree code_eqb parse empty arg (run code tree code_eqb parse empty history st)) =
  parse (code_of code tree arg st).
Proof. intros. now apply seen_independent_of_history. Qed.
Print Assumptions C11_search_sees_the_text_it_is_asked_about.

Theorem C11_search_same_as_on_a_fresh_report :
  forall (code tree : Type) (code_eqb : code -> code -> bool),
  (forall a b, code_eqb a b = true <-> a = b) ->
  forall (parse : code -> option tree) (empty : tree) history arg main,
  seen code tree (reparse code tree code_eqb parse empty arg (run code tree code_eqb parse empty history (fresh code tree main))) =
  seen code tree (reparse code tree code_eqb parse empty arg (fresh code tree main)).
Proof. intros. now apply same_as_on_a_fresh_report. Qed.
Print Assumptions C11_search_same_as_on_a_fresh_report.
