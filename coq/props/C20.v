(* C20 - each feedback call is recorded once, truthfully, and rendered from its fields. *)
From Coq Require Import ZArith List String Bool Arith.
Import ListNotations.
From Pedal Require Import model.C20_Feedback gen.C20_Gen proof.C20_Lemmas.
Open Scope string_scope.
Open Scope list_scope.

Theorem C20_added_exactly_once :
  forall s, sp_delay s = false -> sp_has_report s = true ->
    (cr_in_active (create s) + cr_in_ignored (create s) = 1)%nat.
Proof. exact added_exactly_once. Qed.
Print Assumptions C20_added_exactly_once.

Theorem C20_in_triggered_iff_condition :
  forall s, sp_delay s = false -> sp_has_report s = true -> fails s = false ->
    (cr_in_active (create s) = 1%nat <-> cond_truthy s = true).
Proof. exact in_triggered_iff_condition. Qed.
Print Assumptions C20_in_triggered_iff_condition.

Theorem C20_bool_is_outcome :
  forall s, sp_delay s = false -> fails s = false -> cr_met (create s) = cond_truthy s.
Proof. exact bool_is_outcome. Qed.
Print Assumptions C20_bool_is_outcome.

(* if evaluating the condition or the message raises: untriggered list, error status, falsy, exception propagates *)
Theorem C20_error_path :
  forall s, sp_delay s = false -> fails s = true ->
    cr_raises (create s) = true /\ cr_status (create s) = Error /\ cr_met (create s) = false /\
    cr_in_active (create s) = 0%nat /\ (sp_has_report s = true -> cr_in_ignored (create s) = 1%nat).
Proof. exact error_path. Qed.
Print Assumptions C20_error_path.

Theorem C20_no_error_no_raise : forall s, fails s = false -> cr_raises (create s) = false.
Proof. exact no_error_no_raise. Qed.
Print Assumptions C20_no_error_no_raise.

Theorem C20_delayed_not_recorded :
  forall s, sp_delay s = true ->
    cr_in_active (create s) = 0%nat /\ cr_in_ignored (create s) = 0%nat /\ cr_met (create s) = false
    /\ cr_status (create s) = Delayed /\ cr_raises (create s) = false.
Proof. exact delayed_not_recorded. Qed.
Print Assumptions C20_delayed_not_recorded.

Theorem C20_message_spec :
  forall s, sp_delay s = false -> fails s = false -> cond_truthy s = true ->
    cr_message (create s) = Some (sp_msg s).
Proof. exact message_spec. Qed.
Print Assumptions C20_message_spec.

(* used by C02: a triggered feedback always has a message *)
Theorem C20_message_total :
  forall s, sp_delay s = false -> cr_met (create s) = true -> exists r, cr_message (create s) = Some r.
Proof. exact message_total. Qed.
Print Assumptions C20_message_total.

(* every format name declared in Formatter.available (regenerated on this run) is dispatched to the formatter of
   that name, alone or after a width spec *)
Theorem C20_dispatch_exact :
  forall n, In n gen_available ->
    dispatch gen_available n = (Some n, "") /\ dispatch gen_available (">10:" ++ n) = (Some n, ">10").
Proof. exact dispatch_exact. Qed.
Print Assumptions C20_dispatch_exact.

Theorem C20_dispatch_none :
  forall avail sp, (forall n, In n avail -> ends_with sp n = false) -> dispatch avail sp = (None, sp).
Proof. exact dispatch_none. Qed.
Print Assumptions C20_dispatch_none.

(* clearing a report restores every class attribute overridden through it, after ANY history of overrides and clears
   through ANY reports *)
Theorem C20_clear_restores_the_reports_classes :
  forall s0 ops r, (forall c f, bk s0 c f = None) ->
    forall c, ov (crun s0 ops) r c = true -> forall f, own (cstep (crun s0 ops) (Clear r)) c f = own s0 c f.
Proof. exact clear_restores_the_reports_classes. Qed.
Print Assumptions C20_clear_restores_the_reports_classes.

(* once every report used has been cleared, in any order, every class is as it was before the first override *)
Theorem C20_clearing_every_report_restores :
  forall s0 ops rs, (forall c f, bk s0 c f = None) -> (forall r c, ov s0 r c = false) ->
    Forall (fun o => In (report_of o) rs) ops ->
    forall c f, own (crun (crun s0 ops) (map Clear rs)) c f = own s0 c f.
Proof. exact clearing_every_report_restores. Qed.
Print Assumptions C20_clearing_every_report_restores.

(* the one-report case *)
Theorem C20_override_clear_restores :
  forall s0 ops r, (forall c f, bk s0 c f = None) -> (forall r c, ov s0 r c = false) ->
    Forall (fun o => report_of o = r) ops ->
    forall c f, own (cstep (crun s0 ops) (Clear r)) c f = own s0 c f.
Proof. exact override_clear_restores. Qed.
Print Assumptions C20_override_clear_restores.

Theorem C20_override_clear_restores_lookup :
  forall parent fuel s0 ops r, (forall c f, bk s0 c f = None) -> (forall r c, ov s0 r c = false) ->
    Forall (fun o => report_of o = r) ops ->
    forall c f, lookup parent (cstep (crun s0 ops) (Clear r)) fuel c f = lookup parent s0 fuel c f.
Proof. exact override_clear_restores_lookup. Qed.
Print Assumptions C20_override_clear_restores_lookup.
