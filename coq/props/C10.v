(* C10 - every CAIT match is a genuine embedding.  Statements only; proofs in proof/C10_Lemmas.v, proof/C10_Spec.v. *)
From Coq Require Import List String Bool Arith ZArith.
Import ListNotations.
From Pedal Require Import model.C10_Cait gen.C10_Gen proof.C10_Lemmas proof.C10_Spec.
Open Scope string_scope.

(* the special cases, trimmed kinds, commutative operators, placeholder regexes of the SOURCE are the modelled ones *)
Theorem C10_dispatch_surface_of_the_source_is_the_modelled_one :
  gen_deep_kinds = ["BinOp"; "Expr"; "Name"] /\
  gen_shallow_kinds = ["Attribute"; "Call"; "ClassDef"; "Expr"; "FunctionDef"; "Module"; "Name"; "Pass"; "arg"; "arguments"] /\
  gen_trim_set = ["Expr"; "Module"] /\
  gen_flex_ops = ["Add"; "Mult"] /\
  gen_var_regex = "^_[^_].*_$" /\ gen_exp_regex = "^__.*__$" /\ gen_wild_regex = "^___$" /\
  gen_metas = "check_meta and ins_node.field == std_node.field or not check_meta or ins_node.field == _NONE_FIELD" /\
  gen_merged_tables = ["class_table"; "exp_table"; "func_table"; "symbol_table"] /\
  gen_has_conflicts = "len(self.conflict_keys) > 0".
Proof. exact dispatch_surface_modelled. Qed.
Print Assumptions C10_dispatch_surface_of_the_source_is_the_modelled_one.

(* every match returned for ANY pattern and ANY program is an embedding of the (trimmed) pattern at some node of
   the program *)
Theorem C10_every_match_is_an_embedding :
  forall pattern student m, In m (find_matches pattern student) ->
  exists s', Subtree s' (trim_root student) /\ Emb true (trim_root pattern) s' m.
Proof. intros p s m H. apply find_matches_spec in H. exact H. Qed.
Print Assumptions C10_every_match_is_an_embedding.

(* ONE map witnesses the whole pattern: every node paired, partner passes the node test, partners of children are
   direct children of the partner at strictly increasing positions (either order for + and * ) *)
Theorem C10_one_map_witnesses_the_whole_pattern :
  forall meta i s m, Emb meta i s m -> Wit m i s.
Proof. exact emb_witness. Qed.
Print Assumptions C10_one_map_witnesses_the_whole_pattern.

(* the node test: same syntactic kind unless the pattern node is a wrapper / wildcard; the fields agree *)
Theorem C10_node_test_same_kind_and_fields :
  forall i s meta b, shallow i s meta = Some b -> In (t_id i, t_id s) (pairs b) /\ node_ok i s.
Proof. exact shallow_node_ok. Qed.
Print Assumptions C10_node_test_same_kind_and_fields.

(* "fields agree" = equal literal / identifier content at every position the pattern specifies *)
Theorem C10_equal_literal_content :
  forall ikind ig fi fs n f g,
  fields_ok ikind ig fi fs = true -> nth_error fi n = Some f -> nth_error fs n = Some g ->
  carries_content ikind ig f = true ->
  fst f = fst g /\
  (forall j p x, nth_error (as_list (snd f)) j = Some (PPrim p) -> nth_error (as_list (snd g)) j = Some x -> x = PPrim p) /\
  (forallb is_prim (as_list (snd f)) = true -> as_list (snd f) <> [] -> snd f <> FvNone ->
   List.length (as_list (snd f)) = List.length (as_list (snd g))).
Proof. exact content_equal. Qed.
Print Assumptions C10_equal_literal_content.

Theorem C10_definition_names_equal_or_placeholder :
  forall i s meta b, (t_kind i = "FunctionDef" \/ t_kind i = "ClassDef") -> shallow i s meta = Some b ->
  exists ni ns, fld_str "name" (t_flds i) = Some ni /\ fld_str "name" (t_flds s) = Some ns /\
                (ni = ns \/ classify ni = CVar \/ classify ni = CWild).
Proof. exact def_name_ok. Qed.
Print Assumptions C10_definition_names_equal_or_placeholder.

(* every _name_ placeholder (per table) is bound to a single student identifier throughout the match *)
Theorem C10_placeholders_bound_to_a_single_identifier :
  forall meta i s m, Emb meta i s m ->
  forall t k v1 v2, In (t, k, v1) (syms m) -> In (t, k, v2) (syms m) -> v1 = v2.
Proof. intros meta i s m H. apply conflictb_false_spec. eapply emb_noconflict. exact H. Qed.
Print Assumptions C10_placeholders_bound_to_a_single_identifier.

(* every __expr__ placeholder is bound to the partner of a pattern node, i.e. to the subtree at its position *)
Theorem C10_expressions_bound_at_their_position :
  forall meta i s m, Emb meta i s m -> forall n x, In (n, x) (exps m) -> exists a, In (a, x) (pairs m).
Proof. exact emb_exps_bound_at_position. Qed.
Print Assumptions C10_expressions_bound_at_their_position.

(* a pattern whose concrete content (a literal or identifier of a plain-value field of a concrete node) occurs
   nowhere in the program yields no match *)
From Pedal Require Import proof.C10_Content.

Theorem C10_witness_has_the_required_content :
  forall m i s, Wit m i s -> forall p, In p (required i) -> In p (tree_prims s).
Proof. exact witness_has_the_content. Qed.
Print Assumptions C10_witness_has_the_required_content.

Theorem C10_no_match_without_the_content :
  forall pattern student p,
  In p (required (trim_root pattern)) -> ~ In p (tree_prims (trim_root student)) ->
  find_matches pattern student = [].
Proof. exact no_match_without_the_content. Qed.
Print Assumptions C10_no_match_without_the_content.

(* where the full-strength statements are false of the faithful model: witnesses of the two recorded findings *)
From Pedal Require Import model.C10_Findings proof.C10_Refuted.

Theorem C10_same_kind_pairing_refuted :
  exists m pi si, In m (find_matches f1_pattern f1_student) /\ In (pi, si) (pairs m) /\
                  kind_at pi f1_pattern = Some "Expr"%string /\ kind_at si f1_student = Some "Assign"%string.
Proof. exact same_kind_pairing_refuted. Qed.
Print Assumptions C10_same_kind_pairing_refuted.

Theorem C10_one_identifier_per_placeholder_refuted :
  exists m, In m (find_matches f2_pattern f2_student) /\
            In (TFunc, "_f_"%string, "print"%string) (syms m) /\ In (TVar, "_f_"%string, "x"%string) (syms m).
Proof. exact one_identifier_per_placeholder_refuted. Qed.
Print Assumptions C10_one_identifier_per_placeholder_refuted.
