(* C14 - a time-limit violation yields exactly one timeout report and a usable sandbox. *)
From Coq Require Import List Bool Arith.
Import ListNotations.
From Pedal Require Import lib.ExnFlow lib.Interleave model.C05_Effects gen.C05_Gen proof.C05_Lemmas proof.C14_Lemmas.

(* every schedule of two step lists is enumerated by [merges] (so "for all interleavings" is a statement about
   the inductive relation, not about a sample) *)
Theorem C14_merges_complete : forall (a b m : list eff), interleaving a b m -> In m (merges a b).
Proof. exact (@merges_complete eff). Qed.
Print Assumptions C14_merges_complete.

(* after it was terminated the student thread only performs thread-local steps, whatever it does (any oracle) *)
Theorem C14_terminated_thread_touches_nothing_shared :
  forall o, forallb thread_local (post_termination (snd (exec eff o None gen_execute_terminated))) = true.
Proof. exact terminated_post_local. Qed.
Print Assumptions C14_terminated_thread_touches_nothing_shared.

(* the flag is set before the SystemExit is injected (so "terminated" is visible to every handler of the thread) *)
Theorem C14_terminate_sets_flag_first : forall o, terminate_ok (exec eff o None gen_terminate) = true.
Proof. exact terminate_sets_flag_first. Qed.
Print Assumptions C14_terminate_sets_flag_first.

(* MAIN: all behaviours of the three parties x all interleavings *)
Theorem C14_all_interleavings_ok :
  forall oS oG oN m,
    is_timeout_path (exec eff oG None gen_execute_with_timeout) = true ->
    interleaving (post_termination (snd (exec eff oS None gen_execute_terminated)))
                 (snd (exec eff oG None gen_execute_with_timeout) ++ snd (exec eff oN None gen_execute)) m ->
    exists s, shared_run started m = Some s /\ s_patches s = 0 /\ s_stdouts s = 0
              /\ 1 <= s_captures s <= 2 /\ s_outputs s = 2
              /\ (forall sG, shared_run started (snd (exec eff oG None gen_execute_with_timeout)) = Some sG ->
                             s_captures sG = 1).
Proof. exact all_interleavings_ok. Qed.
Print Assumptions C14_all_interleavings_ok.
