(* C08 - property theorems only.  Every theorem is closed by [exact] of a lemma
   from proof/C08_Lemmas.v and followed by Print Assumptions. *)
From Coq Require Import ZArith List String Bool.
From Pedal Require Import lib.PyMini lib.Assoc model.C08_Static gen.C08_Gen proof.C08_Lemmas.
Open Scope string_scope.

(* The symbol -> AST class tables regenerated from pedal/utilities/operators.py agree
   with CPython's own classes for EVERY symbol. *)
Theorem C08_tables_agree_with_cpython :
  (forall k, assoc k gen_COMPARE_OP_NAMES = assoc k cpy_compare) /\
  (forall k, assoc k gen_BOOL_OP_NAMES = assoc k cpy_boolop) /\
  (forall k, assoc k gen_BIN_OP_NAMES = assoc k cpy_binop) /\
  (forall k, assoc k gen_UNARY_OP_NAMES = assoc k cpy_unaryop).
Proof. exact (conj gen_compare_agrees (conj gen_boolop_agrees (conj gen_binop_agrees gen_unaryop_agrees))). Qed.
Print Assumptions C08_tables_agree_with_cpython.

(* find_operation returns exactly as many nodes as a plain walk finds operator nodes of
   CPython's class for that symbol - for every program tree and every symbol. *)
Theorem C08_find_operation_count :
  forall sym t, wf_tree t = true ->
    List.length (gen_find_operation sym t) = spec_count sym t.
Proof. exact gen_find_operation_count. Qed.
Print Assumptions C08_find_operation_count.

Theorem C08_find_operation_nodes :
  forall sym t n, In n (gen_find_operation sym t) ->
    In n (preorder t) /\
    (String.eqb (kind_of n) "Compare" || String.eqb (kind_of n) "BoolOp"
     || String.eqb (kind_of n) "BinOp" || String.eqb (kind_of n) "UnaryOp") = true.
Proof. exact gen_find_operation_nodes. Qed.
Print Assumptions C08_find_operation_nodes.

(* ensure_X(at_least=n) fires exactly when there are fewer than n occurrences
   (threshold logic regenerated from EnsureAssertionFeedback._check_usage). *)
Theorem C08_ensure_fires_iff :
  forall n uses, fires (ensure_fires n uses) <-> (Z.of_nat (List.length uses) < n)%Z.
Proof. exact ensure_fires_iff. Qed.
Print Assumptions C08_ensure_fires_iff.

Theorem C08_ensure_never_raises :
  forall n uses, exists b, ensure_fires n uses = Ret (VB b).
Proof. exact ensure_total. Qed.
Print Assumptions C08_ensure_never_raises.

(* prevent_X(at_most=m) fires exactly when there are more than m occurrences (m >= 0). *)
Theorem C08_prevent_fires_iff :
  forall m uses, (0 <= m)%Z ->
    (fires (prevent_fires m uses) <-> (m < Z.of_nat (List.length uses))%Z).
Proof. exact prevent_fires_iff. Qed.
Print Assumptions C08_prevent_fires_iff.

Theorem C08_ensure_operation_iff :
  forall sym n t, wf_tree t = true ->
    (fires (ensure_fires n (gen_find_operation sym t)) <-> (Z.of_nat (spec_count sym t) < n)%Z).
Proof. exact ensure_operation_iff. Qed.
Print Assumptions C08_ensure_operation_iff.

Theorem C08_prevent_operation_iff :
  forall sym m t, wf_tree t = true -> (0 <= m)%Z ->
    (fires (prevent_fires m (gen_find_operation sym t)) <-> (m < Z.of_nat (spec_count sym t))%Z).
Proof. exact prevent_operation_iff. Qed.
Print Assumptions C08_prevent_operation_iff.

(* find_all is exactly the filtered document-order walk; find_function_calls exactly the
   Call nodes whose callee is that name or attribute. *)
Theorem C08_find_all_is_walk :
  forall k t n, In n (find_all k t) <-> In n (preorder t) /\ is_kind k n = true.
Proof. exact find_all_is_walk. Qed.
Print Assumptions C08_find_all_is_walk.

Theorem C08_find_function_calls_exact :
  forall name t n, In n (find_function_calls name t) <->
    In n (preorder t) /\ String.eqb (kind_of n) "Call" = true /\ call_matches name n = true.
Proof. exact find_function_calls_exact. Qed.
Print Assumptions C08_find_function_calls_exact.

(* the line reported by a firing prevent_* is the line of one of the occurrences *)
Theorem C08_reported_line_is_a_use :
  forall m uses, (0 <= m)%Z -> fires (prevent_fires m uses) ->
    exists l u, reported_line uses = Some l /\ In u uses /\ line_of u = l.
Proof.
  exact (fun m uses Hm H =>
           match prevent_fires_has_line m uses Hm H with
           | ex_intro _ l Hl =>
               match reported_line_is_a_use uses l Hl with
               | ex_intro _ u Hu => ex_intro _ l (ex_intro _ u (conj Hl Hu))
               end
           end).
Qed.
Print Assumptions C08_reported_line_is_a_use.
