(* C02 - a submission is marked correct exactly when no shown negative feedback fired. *)
From Coq Require Import ZArith QArith List String Bool.
Import ListNotations.
From Pedal Require Import lib.PyMini lib.Assoc lib.StableSort model.C01_Resolver gen.C01_Gen model.C01_Run proof.C01_Lemmas.
Open Scope string_scope.
Open Scope list_scope.

(* correct <-> every triggered, unmuted, unsuppressed, non-compliment feedback declares the submission correct.
   Hypotheses: (msgs_present) a shown feedback has a message (C20: message is never None when triggered);
   (not_impersonating) no feedback carries the reserved label 'set_correct_no_errors' with category 'complete'. *)
Theorem C02_correct_iff :
  forall act ign calls r,
    the_resolve act ign calls = Ok r ->
    let s := the_supp calls in
    let all := act ++ ign in
    (forall f, In f all -> not_impersonating f) ->
    (forall f, In f all -> msgs_present s f) ->
    (r_correct r = true <-> forall f, In f all -> shown s f = true -> f_correct f = true).
Proof. exact (correct_iff gen_category_priority gen_aliases gen_offset). Qed.
Print Assumptions C02_correct_iff.
