(* C02 - a submission is marked correct exactly when no shown negative feedback fired. *)
From Coq Require Import ZArith QArith List String Bool Permutation.
Import ListNotations.
From Pedal Require Import lib.PyMini lib.Assoc lib.StableSort model.C01_Resolver gen.C01_Gen model.C01_Run proof.C01_Lemmas proof.C02_Order.
Open Scope string_scope.
Open Scope list_scope.

(* correct <-> every triggered, unmuted, unsuppressed, non-compliment feedback declares the submission correct.
   Hypotheses: (msgs_present) a shown feedback has a message (C20: message is never None when triggered);
   (not_impersonating) no feedback carries the reserved label 'set_correct_no_errors' with category 'complete'. *)
Theorem C02_correct_iff :
  forall act ign calls r,
    the_resolve act ign calls = Ok r ->
    let s := the_supp calls in
    let all := act ++ ign in
    (forall f, In f all -> not_impersonating f) ->
    (forall f, In f all -> msgs_present s f) ->
    (r_correct r = true <-> forall f, In f all -> shown s f = true -> f_correct f = true).
Proof. exact (correct_iff gen_category_priority gen_aliases gen_offset). Qed.
Print Assumptions C02_correct_iff.

(* the verdict does not depend on the order in which the feedback objects were recorded: two reports holding the same
   feedback (any permutation, any split between the active and the ignored list) and the same suppressions are
   both marked correct or both marked incorrect *)
Theorem C02_verdict_is_independent_of_recording_order :
  forall act ign act' ign' calls r r',
    the_resolve act ign calls = Ok r ->
    the_resolve act' ign' calls = Ok r' ->
    Permutation (act ++ ign) (act' ++ ign') ->
    (forall f, In f (act ++ ign) -> not_impersonating f) ->
    (forall f, In f (act ++ ign) -> msgs_present (the_supp calls) f) ->
    r_correct r = r_correct r'.
Proof. exact correct_order_independent. Qed.
Print Assumptions C02_verdict_is_independent_of_recording_order.
