(* C05 - whatever the sandbox patches is restored after every execution, however it ends.
   Skeletons regenerated from pedal/sandbox/sandbox.py on every run; each theorem quantifies over EVERY oracle:
   student code may raise any BaseException class, compile may fail, any branch may be taken. *)
From Coq Require Import List Bool Arith.
Import ListNotations.
From Pedal Require Import lib.ExnFlow model.C05_Effects gen.C05_Gen proof.C05_Lemmas.

Theorem C05_execute_restores : forall o, balanced (snd (exec eff o None gen_execute)) = true.
Proof. exact execute_restores. Qed.
Print Assumptions C05_execute_restores.

Theorem C05_run_restores : forall o, balanced (snd (exec eff o None gen_run)) = true.
Proof. exact run_restores. Qed.
Print Assumptions C05_run_restores.

Theorem C05_call_restores : forall o, balanced (snd (exec eff o None gen_call)) = true.
Proof. exact call_restores. Qed.
Print Assumptions C05_call_restores.

Theorem C05_evaluate_restores : forall o, balanced (snd (exec eff o None gen_evaluate)) = true.
Proof. exact evaluate_restores. Qed.
Print Assumptions C05_evaluate_restores.

(* a balanced execution leaves ANY state as it found it: nested executions and every history *)
Theorem C05_balanced_from_any_state : forall t s, balanced t = true -> run_eff s t = Some s.
Proof. exact balanced_from_any_state. Qed.
Print Assumptions C05_balanced_from_any_state.

Theorem C05_restored_over_histories :
  forall g, (forall o, balanced (snd (exec eff o None g)) = true) ->
    forall os s, run_eff s (flat_map (fun o => snd (exec eff o None g)) os) = Some s.
Proof. exact restored_over_histories. Qed.
Print Assumptions C05_restored_over_histories.

(* time-outs: the abandoned thread touches nothing shared after it was terminated, and the caller's handler
   undoes exactly what the thread had started (one patch set, one stdout buffer) and records one capture *)
Theorem C05_terminated_thread_is_silent : forall o, terminated_ok (exec eff o None gen_execute_terminated) = true.
Proof. exact terminated_thread_is_silent. Qed.
Print Assumptions C05_terminated_thread_is_silent.

Theorem C05_timeout_handler_restores : forall o, timeout_handler_ok (exec eff o None gen_execute_with_timeout) = true.
Proof. exact timeout_handler_restores. Qed.
Print Assumptions C05_timeout_handler_restores.

(* restoration does not rest on the contract "the recording code does not raise": with _capture_exception allowed to raise any
   Exception (skeletons gen_*_rec) everything is restored all the same, for an ordinary failure and for a time-out *)
Theorem C05_execute_restores_even_if_recording_fails : forall o, balanced (snd (exec eff o None gen_execute_rec)) = true.
Proof. exact execute_restores_even_if_recording_fails. Qed.
Print Assumptions C05_execute_restores_even_if_recording_fails.

Theorem C05_timeout_handler_restores_even_if_recording_fails :
  forall o, timeout_restored_ok (exec eff o None gen_execute_with_timeout_rec) = true.
Proof. exact timeout_handler_restores_even_if_recording_fails. Qed.
Print Assumptions C05_timeout_handler_restores_even_if_recording_fails.
