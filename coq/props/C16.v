(* C16 - the result proxy is transparent for every operation that works on the real value.
   PARTIAL: the slot-level dispatch is itself a model of CPython (validated on the full op x type matrix by the
   correspondence run); unary operators, conversions, comparisons, indexing, iteration, hashing, formatting are tied
   by the regenerated shape table and the matrix only. *)
From Coq Require Import List String Bool Arith.
Import ListNotations.
From Pedal Require Import model.C16_Proxy gen.C16_Gen proof.C16_Lemmas proof.C16_Refuted.
Open Scope string_scope.

(* the dunder table regenerated from result.py: every binary operator has a forward method  clone(value OP unwrap(other))
   and a reflected method  clone(unwrap(other) OP value) *)
Theorem C16_shapes_ok : shapes_ok gen_dunders = true.
Proof. exact gen_shapes_ok. Qed.
Print Assumptions C16_shapes_ok.

Theorem C16_transparent_left :
  forall val ty nb sq o v (x : xval val),
    binop val ty nb sq gen_dunders o (Proxy v) x = wrap val (binop_real val ty nb sq o v (unwrap val x)).
Proof. exact transparent_left. Qed.
Print Assumptions C16_transparent_left.

Theorem C16_transparent_right :
  forall val ty nb sq o (x : val) w,
    declines_proxy val nb ->
    binop val ty nb sq gen_dunders o (Real x) (Proxy w) = wrap val (binop_real val ty nb sq o x w).
Proof. exact transparent_right. Qed.
Print Assumptions C16_transparent_right.

Theorem C16_never_not_implemented :
  forall val ty nb sq o v (x : xval val), binop val ty nb sq gen_dunders o (Proxy v) x <> RNotImpl.
Proof. exact never_not_implemented. Qed.
Print Assumptions C16_never_not_implemented.

(* the hypothesis of C16_transparent_right cannot be dropped: witness = a slot that accepts a proxy as data without asking for
   its value, as str.__mod__ does ('ab' % proxy(7) gives 'ab', 'ab' % 7 raises) - the recorded finding *)
Theorem C16_transparent_right_without_declining_slots_refuted :
  exists (nb : nat -> bop -> option (xval bool -> xval bool -> res bool)) x w,
    binop bool (fun _ => 0) nb (fun _ _ => None) gen_dunders Mod (Real x) (Proxy w)
    <> wrap bool (binop_real bool (fun _ => 0) nb (fun _ _ => None) Mod x w).
Proof. exact transparent_right_without_declining_slots_refuted. Qed.
Print Assumptions C16_transparent_right_without_declining_slots_refuted.
