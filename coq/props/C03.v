(* C03 - the final score follows the documented valence/trigger arithmetic. *)
From Coq Require Import ZArith QArith List String Bool Permutation.
Import ListNotations.
From Pedal Require Import lib.PyMini lib.Assoc lib.StableSort model.C01_Resolver gen.C01_Gen model.C01_Run proof.C01_Lemmas proof.C03_Order.
Open Scope string_scope.
Open Scope list_scope.

(* Either the default all-correct result (score 1), or the score is round2 of the sum over ALL feedback of its
   documented contribution: 0 if suppressed or unscored or without score; the signed value ('-' subtracts, 'N%'
   is N/100) if (triggered and not negative) or (untriggered and negative); 0 otherwise.  Muting does not occur
   in [contrib].  Exact rational arithmetic; score strings restricted to the additive forms of the property. *)
Theorem C03_score_spec :
  forall act ign calls r,
    the_resolve act ign calls = Ok r ->
    let s := the_supp calls in
    let all := act ++ ign in
    (forall f, In f all -> additive_fb f) ->
    (r_is_default r = true /\ r_score r = inject_Z 1) \/
    (r_is_default r = false /\ r_score r = round2 (qsum (map (contrib s) all))).
Proof. exact (score_spec gen_category_priority gen_aliases gen_offset). Qed.
Print Assumptions C03_score_spec.

(* muting a feedback does not change its contribution *)
Theorem C03_muted_still_scores :
  forall s f,
    contrib s f = contrib s (mkFb (f_id f) (f_category f) (f_label f) (f_priority f) (f_kind f) (negb (f_muted f))
                                  (f_unscored f) (f_triggered f) (f_else f) (f_correct f) (f_score f) (f_negative f)
                                  (f_has_message f) (f_fields f)).
Proof. exact muted_still_scores. Qed.
Print Assumptions C03_muted_still_scores.

(* the score does not depend on the order in which the feedback objects were recorded: two reports holding the
   same feedback (any permutation, any split between the active and the ignored list) and the same suppressions
   get the same score whenever neither resolves to the default result *)
Theorem C03_score_is_independent_of_recording_order :
  forall act ign act' ign' calls r r',
    the_resolve act ign calls = Ok r ->
    the_resolve act' ign' calls = Ok r' ->
    Permutation (act ++ ign) (act' ++ ign') ->
    (forall f, In f (act ++ ign) -> additive_fb f) ->
    r_is_default r = false -> r_is_default r' = false ->
    r_score r = r_score r'.
Proof. exact score_order_independent. Qed.
Print Assumptions C03_score_is_independent_of_recording_order.
