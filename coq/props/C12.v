(* C12 - verify() reports a syntax error exactly when Python's parser rejects the source.
   Over the skeleton of verify() regenerated on every run, for EVERY parser outcome. *)
From Coq Require Import List Bool Arith.
Import ListNotations.
From Pedal Require Import lib.ExnFlow model.C12_Effects gen.C12_Gen proof.C12_Lemmas.

(* verify never raises; unless the file could not be loaded, a syntax-category feedback (exactly one) is attached iff
   the parser returned no tree; when it returned one the tree is stored and success is True, otherwise the empty
   tree is stored and success is False *)
Theorem C12_verify_decision_table : forall o, verify_ok (exec veff o None gen_verify) = true.
Proof. exact verify_decision_table. Qed.
Print Assumptions C12_verify_decision_table.

Theorem C12_verify_never_raises :
  forall o, match fst (exec veff o None gen_verify) with Raised _ => False | _ => True end.
Proof. exact verify_never_raises. Qed.
Print Assumptions C12_verify_never_raises.

Theorem C12_never_both_kinds : forall o, indent_first (exec veff o None gen_verify) = true.
Proof. exact never_both_kinds. Qed.
Print Assumptions C12_never_both_kinds.

(* the line: over the arithmetic of syntax_error.__init__ regenerated on every run *)
From Pedal Require Import gen.C12_Line_Gen proof.C12_Line.

Theorem C12_reported_line_is_the_parsers_line_plus_offset : forall l off, reported (Some l) off = (l + off, l + off).
Proof. exact reported_line_is_the_parsers_line_plus_offset. Qed.
Print Assumptions C12_reported_line_is_the_parsers_line_plus_offset.

Theorem C12_message_and_location_name_the_same_line : forall pl off, fst (reported pl off) = snd (reported pl off).
Proof. exact message_and_location_name_the_same_line. Qed.
Print Assumptions C12_message_and_location_name_the_same_line.

Theorem C12_reported_line_without_a_parser_line : forall off, reported None off = (1 + off, 1 + off).
Proof. exact reported_line_without_a_parser_line. Qed.
Print Assumptions C12_reported_line_without_a_parser_line.

