(* C12 - verify() reports a syntax error exactly when Python's parser rejects the source.
   Over the skeleton of verify() regenerated on every run, for EVERY parser outcome. *)
From Coq Require Import List Bool Arith.
Import ListNotations.
From Pedal Require Import lib.ExnFlow model.C12_Effects gen.C12_Gen proof.C12_Lemmas.

(* verify never raises; unless the file could not be loaded, a syntax-category feedback (exactly one) is attached iff
   the parser returned no tree; when it returned one the tree is stored and success is True, otherwise the empty
   tree is stored and success is False *)
Theorem C12_verify_decision_table : forall o, verify_ok (exec veff o None gen_verify) = true.
Proof. exact verify_decision_table. Qed.
Print Assumptions C12_verify_decision_table.

Theorem C12_verify_never_raises :
  forall o, match fst (exec veff o None gen_verify) with Raised _ => False | _ => True end.
Proof. exact verify_never_raises. Qed.
Print Assumptions C12_verify_never_raises.

Theorem C12_never_both_kinds : forall o, indent_first (exec veff o None gen_verify) = true.
Proof. exact never_both_kinds. Qed.
Print Assumptions C12_never_both_kinds.
