(* C15 - captured output and mocked input exactly record what student code did, in order.
   All theorems quantify over EVERY history of operations (induction over the list). *)
From Coq Require Import ZArith List Bool.
Import ListNotations.
From Pedal Require Import lib.PyStr model.C15_IO proof.C15_Lemmas.
Open Scope Z_scope.

(* the raw output is exactly the concatenation, in order, of what the executions since the last clear wrote *)
Theorem C15_raw_is_concat : forall ops, raw (run ops) = concat (texts_since_clear ops []).
Proof. exact raw_is_concat. Qed.
Print Assumptions C15_raw_is_concat.

(* the line view is the in-order concatenation, over the executions that wrote something, of
   [l.rstrip() for l in text.rstrip().split("\n")]; an execution that wrote nothing contributes no entry *)
Theorem C15_lines_view_spec : forall ops, out (run ops) = view_of (texts_since_clear ops []).
Proof. exact lines_view_spec. Qed.
Print Assumptions C15_lines_view_spec.

Theorem C15_silent_exec_adds_nothing :
  forall s ins evs, text_of evs = [] ->
    raw (step s (Exec ins evs)) = raw s /\ out (step s (Exec ins evs)) = out s.
Proof. exact silent_exec_adds_nothing. Qed.
Print Assumptions C15_silent_exec_adds_nothing.

(* each execution's own record holds exactly its share *)
Theorem C15_ctx_has_its_share : forall ops, map c_output (ctxs (run ops)) = exec_texts ops.
Proof. exact ctx_has_its_share. Qed.
Print Assumptions C15_ctx_has_its_share.

(* position = identity of a record (get_context(id) indexes the history): the record at position k is the k-th execution since
   the history was last cleared *)
Theorem C15_record_lookup_by_position :
  forall ops k, nth_error (map c_output (ctxs (run ops))) k = nth_error (exec_texts ops) k.
Proof. exact record_lookup_by_position. Qed.
Print Assumptions C15_record_lookup_by_position.

(* input() returns the queue first-in-first-out, each element consumed once, then the default "0" *)
Theorem C15_inputs_fifo_once :
  forall s ins evs,
    let q0 := match ins with Some xs => xs | None => inputs s end in
    let s' := step s (Exec ins evs) in
    inputs s' = skipn (n_inputs evs) q0 /\
    (exists c, last (ctxs s') c = mkCtx (text_of evs) (take_default (n_inputs evs) q0)).
Proof. exact inputs_fifo_once. Qed.
Print Assumptions C15_inputs_fifo_once.

Theorem C15_take_default_spec :
  (forall k q, (k <= length q)%nat -> take_default k q = firstn k q) /\
  (forall k, take_default k [] = repeat ZERO k).
Proof. exact (conj take_default_firstn take_default_nil). Qed.
Print Assumptions C15_take_default_spec.

Theorem C15_queue_ops :
  forall s xs,
    inputs (step s (SetInput xs)) = xs /\ inputs (step s (QueueInput xs)) = inputs s ++ xs
    /\ inputs (step s ClearInput) = [] /\ inputs (step s ClearOutput) = inputs s
    /\ raw (step s ClearOutput) = [] /\ out (step s ClearOutput) = [].
Proof. exact queue_ops. Qed.
Print Assumptions C15_queue_ops.
