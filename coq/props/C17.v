(* C17 - sections split a submission losslessly and report whole-file line numbers.
   The theorems hold for EVERY whole-line marker predicate (the default pattern is one instance). *)
From Coq Require Import ZArith List Bool.
Import ListNotations.
From Pedal Require Import lib.PyStr model.C17_Sections proof.C17_Lemmas.
Open Scope Z_scope.

Theorem C17_split_lossless : forall is_marker t, concat (split_sections is_marker t) = t.
Proof. exact split_lossless. Qed.
Print Assumptions C17_split_lossless.

(* code, marker, code, ..., code: odd positions are marker lines, the number of chunks is odd *)
Theorem C17_split_alternating :
  forall is_marker t,
    alternating is_marker (split_sections is_marker t) /\
    (exists k, length (split_sections is_marker t) = (2 * k + 1)%nat) /\
    (forall i m, nth_error (split_sections is_marker t) (2 * i + 1) = Some m -> is_marker m = true).
Proof.
  exact (fun is_marker t =>
    conj (split_alternating is_marker t)
         (conj (alternating_odd is_marker _ (split_alternating is_marker t))
               (alternating_markers is_marker _ (split_alternating is_marker t)))).
Qed.
Print Assumptions C17_split_alternating.

(* independent mode: section k is exactly chunk 2k, and every character of it sits on whole-file line
   offset + (its line inside the section) *)
Theorem C17_independent_section_spec :
  forall is_marker t k c off,
    section_independent is_marker t k = Some (c, off) ->
    nth_error (split_sections is_marker t) (2 * k) = Some c /\
    exists before after,
      t = before ++ c ++ after /\ off = count_nl before /\
      forall p, (p <= length c)%nat ->
        line_of_pos t (length before + p) = off + line_of_pos c p.
Proof. exact independent_section_spec. Qed.
Print Assumptions C17_independent_section_spec.

(* cumulative mode: the section text is the file up to and including the chunk; lines coincide *)
Theorem C17_cumulative_section_spec :
  forall is_marker t k c off,
    section_cumulative is_marker t k = Some (c, off) ->
    off = 0 /\ exists after, t = c ++ after /\
      forall p, (p <= length c)%nat -> line_of_pos t p = line_of_pos c p.
Proof. exact cumulative_section_spec. Qed.
Print Assumptions C17_cumulative_section_spec.

(* asking for a section past the end gives the feedback, never an error *)
Theorem C17_next_never_fails_inside_sections :
  forall is_marker s, stack s <> [] -> exists s', sstep is_marker s Next = Some s'.
Proof. exact next_never_fails_inside_sections. Qed.
Print Assumptions C17_next_never_fails_inside_sections.

Theorem C17_past_end_gives_feedback :
  forall is_marker s s',
    sstep is_marker s Next = Some s' ->
    (Nat.div (sec_index s + 2 + 1) 2 > Nat.div (length (secs s) - 1) 2)%nat ->
    not_enough s' = S (not_enough s) /\ exists top rest, stack s = top :: rest /\ main s' = top.
Proof. exact past_end_gives_feedback. Qed.
Print Assumptions C17_past_end_gives_feedback.

(* after ANY sequence of separate/next/stop/resolve/set_source/restore operations, whenever no substitution is
   outstanding the main code is the original text; in particular after separate; next*; resolve *)
Theorem C17_stack_restores :
  forall is_marker t ops s', srun is_marker (sinit t) ops = Some s' -> stack s' = [] -> main s' = t.
Proof. exact stack_restores. Qed.
Print Assumptions C17_stack_restores.

Theorem C17_resolve_after_sections :
  forall is_marker t ind nexts s',
    srun is_marker (sinit t) (Separate ind :: repeat Next nexts ++ [Resolve]) = Some s' -> main s' = t.
Proof. exact resolve_after_sections. Qed.
Print Assumptions C17_resolve_after_sections.

(* ... and no line offset stays registered when the sections are over *)
Theorem C17_stop_clears_the_offset :
  forall is_marker s s', stack s <> [] ->
    (sstep is_marker s Stop = Some s' \/ sstep is_marker s Resolve = Some s') -> line_offset s' = 0%Z.
Proof. exact stop_clears_the_offset. Qed.
Print Assumptions C17_stop_clears_the_offset.

