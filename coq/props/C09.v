(* C09 - TIFA's initialization / unused-variable diagnoses match the execution paths: EXACT on the branch subset (any
   nesting, any size); SOUND for while loops (any nesting, any number of iterations).  for loops and function calls:
   covered by the correspondence run only (for over an empty iterable is a known finding). *)


From Coq Require Import List Bool Arith.
Import ListNotations.
From Pedal Require Import model.C09_Tifa proof.C09_Lemmas.

(* every read of every program is diagnosed exactly according to the set of ALL branch outcomes: no issue when every
   path assigns it first, 'Initialization Problem' when no path does, 'Possible Initialization Problem' when only
   some do (same issue list, same order) *)
Theorem C09_tifa_exact_init : forall b, snd (t_block b aempty) = snd (s_block b [cempty]).
Proof. exact tifa_exact_init. Qed.
Print Assumptions C09_tifa_exact_init.

(* a variable is reported unused iff it is touched on some path and on NO path read after its last assignment *)
Theorem C09_tifa_exact_unused :
  forall b x, t_unused (fst (t_block b aempty)) x = s_unused (fst (s_block b [cempty])) x.
Proof. exact tifa_exact_unused. Qed.
Print Assumptions C09_tifa_exact_unused.

Theorem C09_used_everywhere_not_reported :
  forall b x, s_used_everywhere (fst (s_block b [cempty])) x = true -> t_unused (fst (t_block b aempty)) x = false.
Proof. exact used_everywhere_not_reported. Qed.
Print Assumptions C09_used_everywhere_not_reported.

(* the collecting semantics used as specification contains every single execution (any sequence of branch outcomes) *)
Theorem C09_every_execution_is_collected :
  forall b ch c' ch', p_block b cempty ch = Some (c', ch') -> In c' (fst (s_block b [cempty])).
Proof. exact every_execution_is_collected. Qed.
Print Assumptions C09_every_execution_is_collected.

(* loops: no missed uninitialised read for `while`, any nesting, any number of iterations.
   [RelB n real analysed]: the same program with every loop run up to n times (real) and analysed once, the way
   visit_While does (model/C09_Tifa.v: unroll, once).  Every read that is unassigned on some real execution is
   reported by TIFA at that line for that variable. *)
From Pedal Require Import proof.C09_While.

Theorem C09_while_no_missed_uninitialised_read :
  forall n b b1, RelB n b b1 ->
  forall i, In i (snd (s_block b [cempty])) ->
  exists j, In j (snd (t_block b1 aempty)) /\ site j = site i.
Proof. exact while_no_missed_uninitialised_read. Qed.
Print Assumptions C09_while_no_missed_uninitialised_read.
