(* C09 - TIFA's initialization / unused-variable diagnoses match the execution paths: EXACT on the branch subset (any
   nesting, any size); SOUND for while loops (any nesting, any number of iterations); for a for loop SOUND when the body runs
   at least once and REFUTED (witness) when the iterable is empty - the recorded finding.  Function calls: covered by the
   correspondence run only. *)


From Coq Require Import List Bool Arith.
Import ListNotations.
From Pedal Require Import model.C09_Tifa proof.C09_Lemmas.

(* every read of every program is diagnosed exactly according to the set of ALL branch outcomes: no issue when every
   path assigns it first, 'Initialization Problem' when no path does, 'Possible Initialization Problem' when only
   some do (same issue list, same order) *)
Theorem C09_tifa_exact_init : forall b, snd (t_block b aempty) = snd (s_block b [cempty]).
Proof. exact tifa_exact_init. Qed.
Print Assumptions C09_tifa_exact_init.

(* a variable is reported unused iff it is touched on some path and on NO path read after its last assignment *)
Theorem C09_tifa_exact_unused :
  forall b x, t_unused (fst (t_block b aempty)) x = s_unused (fst (s_block b [cempty])) x.
Proof. exact tifa_exact_unused. Qed.
Print Assumptions C09_tifa_exact_unused.

Theorem C09_used_everywhere_not_reported :
  forall b x, s_used_everywhere (fst (s_block b [cempty])) x = true -> t_unused (fst (t_block b aempty)) x = false.
Proof. exact used_everywhere_not_reported. Qed.
Print Assumptions C09_used_everywhere_not_reported.

(* the collecting semantics used as specification contains every single execution (any sequence of branch outcomes) *)
Theorem C09_every_execution_is_collected :
  forall b ch c' ch', p_block b cempty ch = Some (c', ch') -> In c' (fst (s_block b [cempty])).
Proof. exact every_execution_is_collected. Qed.
Print Assumptions C09_every_execution_is_collected.

(* loops: no missed uninitialised read for `while`, any nesting, any number of iterations.
   [RelB n real analysed]: the same program with every loop run up to n times (real) and analysed once, the way
   visit_While does (model/C09_Tifa.v: unroll, once).  Every read that is unassigned on some real execution is
   reported by TIFA at that line for that variable. *)
From Pedal Require Import proof.C09_While.

Theorem C09_while_no_missed_uninitialised_read :
  forall n b b1, RelB n b b1 ->
  forall i, In i (snd (s_block b [cempty])) ->
  exists j, In j (snd (t_block b1 aempty)) /\ site j = site i.
Proof. exact while_no_missed_uninitialised_read. Qed.
Print Assumptions C09_while_no_missed_uninitialised_read.

(* for loops.  TIFA analyses  for x in f(rs): B  as  x = f(rs); B  (model/C09_Tifa.v: for_analysed; tied to real TIFA by the
   correspondence run); an execution reads the iterable once and runs  x = item; B  k times (for_run). *)
From Pedal Require Import proof.C09_For.

Theorem C09_for_no_missed_read_when_the_body_runs :
  forall pre l x rs body rest k,
  forall i, In i (snd (s_block (bapp pre (bapp (for_run l x rs body (S k)) rest)) [cempty])) ->
  exists j, In j (snd (t_block (bapp pre (bapp (for_analysed l x rs body) rest)) aempty)) /\ site j = site i.
Proof. exact for_no_missed_read_when_the_body_runs. Qed.
Print Assumptions C09_for_no_missed_read_when_the_body_runs.

Theorem C09_for_one_iteration_is_what_tifa_analyses :
  forall l x rs body St, s_block (for_run l x rs body 1) St = s_block (for_analysed l x rs body) St.
Proof. exact for_one_iteration_is_what_tifa_analyses. Qed.
Print Assumptions C09_for_one_iteration_is_what_tifa_analyses.

(* the full statement (no missed read for ANY number of iterations) is false of the faithful model: zero iterations *)
Theorem C09_for_zero_iterations_refuted :
  exists l x rs body rest,
    snd (t_block (bapp (for_analysed l x rs body) rest) aempty) = [] /\
    In (3, 0, InitProblem) (snd (s_block (bapp (for_run l x rs body 0) rest) [cempty])).
Proof. exact for_zero_iterations_refuted. Qed.
Print Assumptions C09_for_zero_iterations_refuted.
