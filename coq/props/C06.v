(* C06 - sandboxed execution is observationally equivalent to plain CPython execution.
   PARTIAL: what is proved is pedal's own contribution - the namespace it builds (overrides regenerated from
   reset_default_overrides on every run) and how call() hands values over.  Whole-program equivalence is a statement
   about two runs of CPython and is tested differentially (sandbox vs a fresh plain interpreter). *)
From Coq Require Import List String Bool Arith.
Import ListNotations.
From Pedal Require Import model.C06_Namespace gen.C06_Gen proof.C06_Lemmas.
Open Scope string_scope.

Theorem C06_changed_names_are_exactly_the_documented_ones : changed_is_documented_b = true.
Proof. exact changed_is_documented. Qed.
Print Assumptions C06_changed_names_are_exactly_the_documented_ones.

Theorem C06_ns_agrees : forall n, mem n documented_changed = false -> NS n = plain_ns n.
Proof. exact ns_agrees. Qed.
Print Assumptions C06_ns_agrees.

Theorem C06_marshal_binds_equal :
  forall a, (repr_is_literal a = true -> True) ->
    forall roundtrips, (repr_is_literal a = true -> roundtrips = true) -> binds_equal roundtrips a = true.
Proof. exact marshal_binds_equal. Qed.
Print Assumptions C06_marshal_binds_equal.

Theorem C06_non_literal_never_by_source : forall a, repr_is_literal a = false -> marshal a <> BySource.
Proof. exact non_literal_never_by_source. Qed.
Print Assumptions C06_non_literal_never_by_source.

Theorem C06_long_never_by_source : forall a, (repr_len a > MAXIMUM_TEMPORARY_LENGTH)%nat -> marshal a <> BySource.
Proof. exact long_never_by_source. Qed.
Print Assumptions C06_long_never_by_source.

(* where a failure is located (model/C06_Location.v, tied on real tracebacks on every run): the same source line as a plain
   interpreter's traceback shows for the learner's file *)
From Pedal Require Import model.C06_Location proof.C06_Location_Lemmas.

Theorem C06_location_is_the_innermost_student_frame :
  forall student offset pre f post,
    student (fst f) = true -> (forall g, In g post -> student (fst g) = false) ->
    location student offset None (pre ++ f :: post)%list = Some (snd f + offset (fst f)).
Proof. exact location_is_the_innermost_student_frame. Qed.
Print Assumptions C06_location_is_the_innermost_student_frame.

Theorem C06_location_is_a_student_line_when_student_code_is_on_the_stack :
  forall student offset frames,
    (exists f, In f frames /\ student (fst f) = true) ->
    exists f, In f frames /\ student (fst f) = true /\ location student offset None frames = Some (snd f + offset (fst f)).
Proof. exact location_is_a_student_line_when_student_code_is_on_the_stack. Qed.
Print Assumptions C06_location_is_a_student_line_when_student_code_is_on_the_stack.

Theorem C06_innermost_frame_of_any_file_refuted :
  exists frames, (exists f, In f frames /\ fst f = 0) /\
                 location_before (fun _ => 0) frames = Some 347 /\
                 location (fun file => Nat.eqb file 0) (fun _ => 0) None frames = Some 3.
Proof. exact innermost_frame_of_any_file_refuted. Qed.
Print Assumptions C06_innermost_frame_of_any_file_refuted.

