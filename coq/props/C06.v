(* C06 - sandboxed execution is observationally equivalent to plain CPython execution.
   PARTIAL: what is proved is pedal's own contribution - the namespace it builds (overrides regenerated from
   reset_default_overrides on every run) and how call() hands values over.  Whole-program equivalence is a statement
   about two runs of CPython and is tested differentially (sandbox vs a fresh plain interpreter). *)
From Coq Require Import List String Bool Arith.
Import ListNotations.
From Pedal Require Import model.C06_Namespace gen.C06_Gen proof.C06_Lemmas.
Open Scope string_scope.

Theorem C06_changed_names_are_exactly_the_documented_ones : changed_is_documented_b = true.
Proof. exact changed_is_documented. Qed.
Print Assumptions C06_changed_names_are_exactly_the_documented_ones.

Theorem C06_ns_agrees : forall n, mem n documented_changed = false -> NS n = plain_ns n.
Proof. exact ns_agrees. Qed.
Print Assumptions C06_ns_agrees.

Theorem C06_marshal_binds_equal :
  forall a, (repr_is_literal a = true -> True) ->
    forall roundtrips, (repr_is_literal a = true -> roundtrips = true) -> binds_equal roundtrips a = true.
Proof. exact marshal_binds_equal. Qed.
Print Assumptions C06_marshal_binds_equal.

Theorem C06_non_literal_never_by_source : forall a, repr_is_literal a = false -> marshal a <> BySource.
Proof. exact non_literal_never_by_source. Qed.
Print Assumptions C06_non_literal_never_by_source.

Theorem C06_long_never_by_source : forall a, (repr_len a > MAXIMUM_TEMPORARY_LENGTH)%nat -> marshal a <> BySource.
Proof. exact long_never_by_source. Qed.
Print Assumptions C06_long_never_by_source.
