(* C18 - TIFA analyses every parsable program, deterministically and idempotently.
   PARTIAL: "completes on the introductory subset" and determinism are test-level (see MANIFEST). *)
From Coq Require Import List Bool Arith.
Import ListNotations.
From Pedal Require Import lib.ExnFlow model.C18_Tifa gen.C18_Gen proof.C18_Lemmas.

(* process_code (skeleton regenerated on every run) returns for EVERY oracle: whatever the parser or the traversal
   raise (any Exception subclass); it completes iff both stages returned, and a failure is marked once with one
   system_error feedback *)
Theorem C18_process_code_total : forall o, process_ok (exec teff o None gen_process_code) = true.
Proof. exact process_code_total. Qed.
Print Assumptions C18_process_code_total.

Theorem C18_process_code_never_raises :
  forall o, match fst (exec teff o None gen_process_code) with Raised _ => False | _ => True end.
Proof. exact process_code_never_raises. Qed.
Print Assumptions C18_process_code_never_raises.

(* analysing the same code again yields the same result and attaches nothing, for every repetition count and
   every sequence of other analyses in between *)
Theorem C18_second_call_same :
  forall s adds c,
    let '(s1, r1) := analyse adds s c in
    let '(s2, r2) := analyse adds s1 c in
    r2 = r1 /\ s2 = s1.
Proof. exact second_call_same. Qed.
Print Assumptions C18_second_call_same.

Theorem C18_repeat_is_noop :
  forall adds cs s c r,
    find_code c (cache s) = Some r ->
    let '(s', _) := analyse_all adds s cs in
    find_code c (cache s') = Some r /\ analyse adds s' c = (s', r).
Proof. exact repeat_is_noop. Qed.
Print Assumptions C18_repeat_is_noop.

Theorem C18_feedback_only_from_fresh :
  forall adds cs s, fb (fst (analyse_all adds s cs)) = fb s + fresh_sum adds (map fst (cache s)) cs.
Proof. exact feedback_only_from_fresh. Qed.
Print Assumptions C18_feedback_only_from_fresh.
