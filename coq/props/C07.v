(* C07 - runtime assertions pass only when the asserted relation really holds.
   The condition of every assertion is REGENERATED from pedal/assertions/runtime.py on every run.
   equality_test (tolerance, normalisation, containers) is modelled in Coq too (end of this file).
   PARTIAL: the wrapping combinations and unit_test are tied by the operand-matrix correspondence run only. *)
From Coq Require Import List String Bool.
Import ListNotations.
From Pedal Require Import model.C07_Assert gen.C07_Gen proof.C07_Lemmas.
Open Scope string_scope.

Theorem C07_conditions_match_documented_relations :
  forallb (fun d => condition_matches gen_conditions doc_relations (fst d)) doc_relations = true.
Proof. exact all_match_ok. Qed.
Print Assumptions C07_conditions_match_documented_relations.

Theorem C07_assert_spec :
  forall n a pos c,
    lookup n doc_relations = Some (a, pos) -> lookup n gen_conditions = Some c ->
    forall atom err,
      silent atom err c = true <-> err = false /\ atom a = (if pos then ETrue else EFalse).
Proof. exact assert_spec. Qed.
Print Assumptions C07_assert_spec.

Theorem C07_negation_pair :
  forall n n' a c c',
    lookup n doc_relations = Some (a, true) -> lookup n' doc_relations = Some (a, false) ->
    lookup n gen_conditions = Some c -> lookup n' gen_conditions = Some c' ->
    forall atom, atom a <> ERaise -> silent atom false c = negb (silent atom false c').
Proof. exact negation_pair. Qed.
Print Assumptions C07_negation_pair.

Theorem C07_error_or_unevaluable_fails :
  forall n a pos c,
    lookup n doc_relations = Some (a, pos) -> lookup n gen_conditions = Some c ->
    forall atom err, err = true \/ atom a = ERaise -> silent atom err c = false.
Proof. exact error_or_unevaluable_fails. Qed.
Print Assumptions C07_error_or_unevaluable_fails.

(* equality: independent of the order of the operands.  Model of pedal/utilities/comparisons.py equality_test
   (model/C07_Equality.v), tied to the implementation by the correspondence run on every ordered pair of the operand universe;
   proved for values of any size and nesting built from scalars, lists, tuples, sets and frozensets. *)
From Coq Require Import QArith Qabs.
From Pedal Require Import model.C07_Equality proof.C07_Equality_Lemmas proof.C07_Equality_Dicts proof.C07_Equality_DictSym.

Theorem C07_equality_is_order_independent :
  forall exact delta a e, dfree a = true -> dfree e = true -> equality_test exact delta a e = equality_test exact delta e a.
Proof. exact equality_is_order_independent. Qed.
Print Assumptions C07_equality_is_order_independent.

Theorem C07_scalar_equality_symmetric : forall exact delta a e, sc_eq exact delta a e = sc_eq exact delta e a.
Proof. exact sc_eq_sym. Qed.
Print Assumptions C07_scalar_equality_symmetric.

(* the set comparison as it was before fix 5caf932 (one direction only) does depend on the order: witness *)
Theorem C07_one_way_set_comparison_refuted :
  exists x y, sets_eq_one_way (sc_eq false (1 # 1000)) x y = true /\ sets_eq_one_way (sc_eq false (1 # 1000)) y x = false.
Proof. exact one_way_set_comparison_refuted. Qed.
Print Assumptions C07_one_way_set_comparison_refuted.

(* the tolerance: two floats are equal exactly when they differ by less than delta; a larger tolerance never rejects what a
   smaller one accepts; every NaN-free value equals itself *)
Theorem C07_float_tolerance_spec :
  forall exact delta x y, sc_eq exact delta (SFloat x) (SFloat y) = negb (Qle_bool delta (Qabs (y - x))).
Proof. exact float_tolerance_spec. Qed.
Print Assumptions C07_float_tolerance_spec.

Theorem C07_equality_monotone_in_the_tolerance :
  forall exact d d' a e, d <= d' -> dfree a = true -> equality_test exact d a e = true -> equality_test exact d' a e = true.
Proof. exact equality_monotone_in_the_tolerance. Qed.
Print Assumptions C07_equality_monotone_in_the_tolerance.

Theorem C07_equality_reflexive :
  forall exact delta a, 0 < delta -> dfree a = true -> nan_free a = true -> equality_test exact delta a a = true.
Proof. exact equality_reflexive. Qed.
Print Assumptions C07_equality_reflexive.

(* the same two statements for ANY values, dicts included (proof/C07_Equality_Dicts.v); wfv: no NaN, dict keys pairwise different *)
Theorem C07_equality_monotone_in_the_tolerance_any_value :
  forall exact d d' a e, d <= d' -> equality_test exact d a e = true -> equality_test exact d' a e = true.
Proof. exact equality_monotone_in_the_tolerance_any_value. Qed.
Print Assumptions C07_equality_monotone_in_the_tolerance_any_value.

Theorem C07_equality_reflexive_any_value :
  forall exact delta a, 0 < delta -> wfv a = true -> equality_test exact delta a a = true.
Proof. exact equality_reflexive_any_value. Qed.
Print Assumptions C07_equality_reflexive_any_value.

(* ... and the order independence itself (proof/C07_Equality_DictSym.v: pigeonhole on the key lists) *)
Theorem C07_equality_is_order_independent_any_value :
  forall exact delta a e, wfv a = true -> wfv e = true -> equality_test exact delta a e = equality_test exact delta e a.
Proof. exact equality_is_order_independent_any_value. Qed.
Print Assumptions C07_equality_is_order_independent_any_value.
