(* C01 - the resolver shows the highest-priority eligible feedback and nothing ineligible. *)
From Coq Require Import ZArith QArith List String Bool Permutation.
Import ListNotations.
From Pedal Require Import lib.PyMini lib.Assoc lib.StableSort model.C01_Resolver gen.C01_Gen model.C01_Run proof.C01_Lemmas proof.C01_Order.
Open Scope string_scope.
Open Scope list_scope.
Open Scope Z_scope.

(* the rank table in pedal/core/feedback.py, regenerated on this run, is the documented order *)
Theorem C01_rank_table_is_documented :
  gen_category_priority =
    ["highest"; "syntax"; "mistakes"; "instructor"; "algorithmic"; "runtime"; "student";
     "specification"; "positive"; "instructions"; "uncategorized"; "lowest"].
Proof. exact rank_table_is_documented. Qed.
Print Assumptions C01_rank_table_is_documented.

(* priority_offset (regenerated) : low .7, medium .5, high .3, anything else .1 (in tenths) *)
Theorem C01_priority_offset_spec :
  forall p, gen_offset p = if String.eqb p "low" then 7 else if String.eqb p "medium" then 5
                           else if String.eqb p "high" then 3 else 1.
Proof. exact gen_offset_spec. Qed.
Print Assumptions C01_priority_offset_spec.

(* the sort key: documented rank of the category (unknown categories after 'lowest'), re-ranked by a
   category-valued priority (aliases resolved), shifted high/low within the rank otherwise *)
Theorem C01_key_spec :
  forall f, the_key f =
    let category := match f_category f with Some c => lower c | None => "uncategorized" end in
    let priority0 := match f_priority f with
                     | Some p => match assoc (lower p) gen_aliases with Some a => a | None => lower p end
                     | None => "medium" end in
    match index_of priority0 doc_order 0 with
    | Some i => 10 * i + 5
    | None => 10 * (match index_of category doc_order 0 with Some i => i | None => 12 end)
              + (if String.eqb priority0 "low" then 7 else if String.eqb priority0 "medium" then 5
                 else if String.eqb priority0 "high" then 3 else 1)
    end.
Proof. exact the_key_spec. Qed.
Print Assumptions C01_key_spec.

(* MAIN: for every list of triggered and untriggered feedback (creation order) and every list of suppress()
   calls, the delivered feedback is eligible (triggered, unmuted, unsuppressed, not a compliment, has a message),
   no eligible feedback has a strictly smaller key, and no eligible feedback created earlier has the same key;
   if nothing is delivered then nothing was eligible. *)
Theorem C01_resolve_selects_best :
  forall act ign calls r,
    the_resolve act ign calls = Ok r ->
    let s := the_supp calls in
    let all := act ++ ign in
    match r_used r with
    | Some u =>
        exists f l1 l2, f_id f = u /\ all = l1 ++ f :: l2 /\ eligible s f = true
          /\ (forall g, In g all -> eligible s g = true -> the_key f <= the_key g)
          /\ (forall g, In g l1 -> eligible s g = true -> the_key f < the_key g)
    | None => forall g, In g all -> eligible s g = false
    end.
Proof. exact (resolve_selects_best gen_category_priority gen_aliases gen_offset). Qed.
Print Assumptions C01_resolve_selects_best.

(* which feedback is delivered does not depend on the order in which the feedback objects were recorded, as long as no
   two eligible feedback share a key (with equal keys the earlier one wins, by the theorem above): two reports holding the
   same feedback in any order, with the same suppressions, deliver the same object or both deliver none *)
Theorem C01_choice_is_independent_of_recording_order :
  forall act ign act' ign' calls r r',
    the_resolve act ign calls = Ok r ->
    the_resolve act' ign' calls = Ok r' ->
    Permutation (act ++ ign) (act' ++ ign') ->
    (forall f g, In f (act ++ ign) -> In g (act ++ ign) ->
                 eligible (the_supp calls) f = true -> eligible (the_supp calls) g = true ->
                 the_key f = the_key g -> f_id f = f_id g) ->
    r_used r = r_used r'.
Proof. exact choice_order_independent. Qed.
Print Assumptions C01_choice_is_independent_of_recording_order.

(* if no feedback is eligible the learner gets the default 'complete / no errors' result *)
Theorem C01_default_when_nothing_eligible :
  forall act ign calls r,
    the_resolve act ign calls = Ok r -> r_used r = None ->
    hides_correctness (the_supp calls) = false ->
    r_is_default r = true /\ r_correct r = true /\ r_score r = inject_Z 1.
Proof. exact (default_when_nothing_eligible gen_category_priority gen_aliases gen_offset). Qed.
Print Assumptions C01_default_when_nothing_eligible.

(* resolving never raises, whatever the feedback and suppressions, as long as every score string is one
   that Score.parse accepts and no "/0" is applied (the only two raises in the model) *)
Theorem C01_resolve_total :
  forall act ign calls,
    (forall f, In f (act ++ ign) -> scores_wf f = true) ->
    exists r, the_resolve act ign calls = Ok r.
Proof. exact (resolve_total gen_category_priority gen_aliases gen_offset). Qed.
Print Assumptions C01_resolve_total.

(* the sectional resolver (pedal/resolvers/sectional.py): the triggered feedback grouped by parent section, every group
   resolved on its own.  For every group g the feedback delivered for g belongs to g, is eligible, and is the best and the
   earliest of its key AMONG THE FEEDBACK OF g; feedback of other groups takes no part. *)
Theorem C01_sectional_selects_best_in_the_group :
  forall tagged calls g r,
    the_sectional_at tagged calls g = Ok r ->
    let s := the_supp calls in
    match r_used r with
    | Some u =>
        exists f l1 l2, f_id f = u /\ In (g, f) tagged /\ group_of tagged g = l1 ++ f :: l2 /\ eligible s f = true
          /\ (forall h, In (g, h) tagged -> eligible s h = true -> the_key f <= the_key h)
          /\ (forall h, In h l1 -> eligible s h = true -> the_key f < the_key h)
    | None => forall h, In (g, h) tagged -> eligible s h = false
    end.
Proof. exact (sectional_selects_best_in_the_group gen_category_priority gen_aliases gen_offset). Qed.
Print Assumptions C01_sectional_selects_best_in_the_group.

Theorem C01_sectional_ignores_other_groups :
  forall tagged calls g g' f, g' <> g -> the_sectional_at ((g', f) :: tagged) calls g = the_sectional_at tagged calls g.
Proof. exact (sectional_ignores_other_groups gen_category_priority gen_aliases gen_offset). Qed.
Print Assumptions C01_sectional_ignores_other_groups.
