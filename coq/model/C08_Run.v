(* C08: executable entry points used by the correspondence run (model side).
   Threshold logic is the regenerated PyMini body, tables are the regenerated ones. *)
From Coq Require Import ZArith List String Bool.
Import ListNotations.
From Pedal Require Import lib.PyMini lib.Assoc model.C08_Static gen.C08_Gen.
Open Scope string_scope.
Open Scope list_scope.

Inductive query :=
| QOp (sym : string)
| QCall (name : string)
| QAst (kind : string)
| QLit (l : lit)
| QLitType (ty : string)
| QImport (name : string).

Fixpoint zs_eqb (a b : list Z) : bool :=
  match a, b with
  | [], [] => true
  | x :: a', y :: b' => Z.eqb x y && zs_eqb a' b'
  | _, _ => false
  end.

Definition lit_eqb (a b : lit) : bool :=
  match a, b with
  | LBool x, LBool y => Bool.eqb x y
  | LInt x, LInt y => Z.eqb x y
  | LFloat x, LFloat y => String.eqb x y
  | LStr x, LStr y => zs_eqb x y
  | _, _ => false
  end.

Definition is_const (l : lit) (n : node) : bool :=
  String.eqb (kind_of n) "Constant" && lit_eqb (lit_of n) l.

Definition uses_of (q : query) (t : node) : list node :=
  match q with
  | QOp sym => find_operation gen_COMPARE_OP_NAMES gen_BOOL_OP_NAMES gen_BIN_OP_NAMES gen_UNARY_OP_NAMES sym t
  | QCall name => find_function_calls name t
  | QAst k => find_all k t
  | QLit l => filter (is_const l) (preorder t)
  | QLitType ty =>
      if String.eqb ty "bool" then filter (is_const (LBool false)) (preorder t) ++ filter (is_const (LBool true)) (preorder t)
      else if String.eqb ty "str" then find_all "Str" t
      else if String.eqb ty "int" then filter (fun n => match lit_of n with LInt _ => true | _ => false end) (find_all "Num" t)
      else if String.eqb ty "float" then filter (fun n => match lit_of n with LFloat _ => true | _ => false end) (find_all "Num" t)
      else if String.eqb ty "list" then find_all "List" t
      else if String.eqb ty "dict" then find_all "Dict" t
      else []
  | QImport _ => []
  end.

Definition usage_env (fld : string) (threshold count : Z) : env :=
  [(fld, VZ threshold); ("n_uses", VZ count)].

Definition as_fired (o : outcome) : option bool :=
  match o with Ret (VB b) => Some b | _ => None end.

Definition last_line (uses : list node) : option Z :=
  match rev uses with [] => None | u :: _ => Some (line_of u) end.

(* (ensure fired?, prevent fired?, uids of the occurrences, line of the last occurrence) *)
Definition run_query (q : query) (n m : Z) (t : node) : option bool * option bool * list Z * option Z :=
  match q with
  | QImport name => (Some (negb (has_import name t)), Some (has_import name t), [], None)
  | _ =>
    let uses := uses_of q t in
    let c := Z.of_nat (List.length uses) in
    (as_fired (exec_block (usage_env "fields_at_least" n c) gen_ensure_check_usage_body),
     as_fired (exec_block (usage_env "fields_at_most" m c) gen_prevent_check_usage_body),
     map uid_of uses, last_line uses)
  end.

Definition ob_eqb (a b : option bool) : bool :=
  match a, b with Some x, Some y => Bool.eqb x y | None, None => true | _, _ => false end.
Definition oz_eqb (a b : option Z) : bool :=
  match a, b with Some x, Some y => Z.eqb x y | None, None => true | _, _ => false end.

(* one expectation measured on the implementation *)
Definition expect := (query * Z * Z * option bool * option bool * list Z * option Z)%type.

Definition check_expect (t : node) (e : expect) : bool :=
  let '(q, n, m, ens, prev, uids, line) := e in
  let '(ens', prev', uids', line') := run_query q n m t in
  ob_eqb ens ens' && ob_eqb prev prev' && zs_eqb uids uids' && oz_eqb line line'.

Definition check_case (c : node * list expect) : bool :=
  wf_tree (fst c) && forallb (check_expect (fst c)) (snd c).

(* validation of the CPython specification table against the live `ast` module:
   (symbol, class that ast.parse produced for it) *)
Definition cpy_class (sym : string) : option string :=
  match assoc sym cpy_compare with Some c => Some c | None =>
  match assoc sym cpy_boolop with Some c => Some c | None =>
  match assoc sym cpy_binop with Some c => Some c | None => assoc sym cpy_unaryop end end end.
Definition check_cpy (p : string * string) : bool := opt_str_eqb (cpy_class (fst p)) (Some (snd p)).
