(* C19: checkers for the correspondence run. *)
From Coq Require Import List String Bool.
Import ListNotations.
From Pedal Require Import model.C19_Types gen.C19_Gen.
Open Scope string_scope.

Definition ptype_eqb (a b : ptype) : bool :=
  match a, b with
  | PNum, PNum | PInt, PInt | PFloat, PFloat | PStr, PStr | PBool, PBool | PList, PList | PTuple, PTuple
  | PImpossible, PImpossible => true
  | _, _ => false
  end.

Definition subset (a b : list core) : bool := forallb (fun x => existsb (core_eqb x) b) a.

(* live CPython: (op, a, b, TypeError on every sample?, result types seen) *)
Definition check_spec (c : string * core * core * bool * list core) : bool :=
  let '(op, a, b, raises, results) := c in
  Bool.eqb (cpy_raises op a b) raises && subset results (cpy_binop op a b).

(* real TIFA: (op, a, b, inferred type or PImpossible) *)
Definition check_tifa_cell (c : string * core * core * ptype) : bool :=
  let '(op, a, b, t) := c in ptype_eqb (tifa_binop gen_binop_table op a b) t.
