(* C19: checkers for the correspondence run. *)
From Coq Require Import List String Bool.
Import ListNotations.
From Pedal Require Import model.C19_Types gen.C19_Gen model.C19_Compare.
Open Scope string_scope.

Definition ptype_eqb (a b : ptype) : bool :=
  match a, b with
  | PNum, PNum | PInt, PInt | PFloat, PFloat | PStr, PStr | PBool, PBool | PList, PList | PTuple, PTuple
  | PImpossible, PImpossible => true
  | _, _ => false
  end.

Definition subset (a b : list core) : bool := forallb (fun x => existsb (core_eqb x) b) a.

(* live CPython: (op, a, b, TypeError on every sample?, result types seen) *)
Definition check_spec (c : string * core * core * bool * list core) : bool :=
  let '(op, a, b, raises, results) := c in
  Bool.eqb (cpy_raises op a b) raises && subset results (cpy_binop op a b).

(* real TIFA: (op, a, b, inferred type or PImpossible) *)
Definition check_tifa_cell (c : string * core * core * ptype) : bool :=
  let '(op, a, b, t) := c in ptype_eqb (tifa_binop gen_binop_table op a b) t.

(* comparisons.  live CPython: (op, a, b, TypeError on every sample pair?) *)
Definition check_cmp_spec (c : string * core * core * bool) : bool :=
  let '(op, a, b, raises) := c in Bool.eqb (cpy_cmp_raises op a b) raises.

(* real TIFA: (op, a, b, reported?) - whichever pedal class the operands were typed with, the model must say the same
   (cells the model leaves open - membership in a list / tuple - pass) *)
Definition check_tifa_cmp (c : string * core * core * bool) : bool :=
  let '(op, a, b, reported) := c in
  forallb (fun l => forallb (fun r => match tifa_cmp op l r with Some x => Bool.eqb x reported | None => true end) (reps b)) (reps a).
