(* C12: effects tracked in the skeleton of pedal/source/source.py::verify *)
From Coq Require Import List Bool Arith.
Import ListNotations.
From Pedal Require Import lib.ExnFlow.

Inductive veff :=
| VParsed          (* ast.parse returned a tree *)
| VStoreTree       (* report['source']['ast'] = parsed *)
| VFbSyntax        (* syntax_error feedback attached *)
| VFbIndent        (* indentation_error feedback attached *)
| VFbBlank         (* blank_source feedback attached *)
| VFbNotFound      (* source_file_not_found feedback attached *)
| VStoreEmptyTree  (* report['source']['ast'] = ast.parse("") *)
| VParsedEmpty
| VSuccessTrue
| VSuccessFalse.

Definition veff_eqb (a b : veff) : bool :=
  match a, b with
  | VParsed, VParsed | VStoreTree, VStoreTree | VFbSyntax, VFbSyntax | VFbIndent, VFbIndent | VFbBlank, VFbBlank
  | VFbNotFound, VFbNotFound | VStoreEmptyTree, VStoreEmptyTree | VParsedEmpty, VParsedEmpty | VSuccessTrue, VSuccessTrue
  | VSuccessFalse, VSuccessFalse => true
  | _, _ => false
  end.
Definition has (e : veff) (t : list veff) : bool := existsb (veff_eqb e) t.
Definition cnt (e : veff) (t : list veff) : nat := length (filter (veff_eqb e) t).

Fixpoint last_success (t : list veff) (cur : option bool) : option bool :=
  match t with
  | [] => cur
  | VSuccessTrue :: t' => last_success t' (Some true)
  | VSuccessFalse :: t' => last_success t' (Some false)
  | _ :: t' => last_success t' cur
  end.

(* the decision table of verify(), on one path *)
Definition verify_ok (p : outcome * list veff) : bool :=
  let '(o, t) := p in
  match o with
  | Raised _ => false                                   (* verify never raises *)
  | _ =>
    if has VFbNotFound t then negb (has VParsed t) && negb (has VFbSyntax t) && negb (has VFbIndent t)
    else
      (* a syntax-category feedback is attached iff the parser did not return a tree; exactly one then *)
      (if has VParsed t
       then Nat.eqb (cnt VFbSyntax t + cnt VFbIndent t) 0 && has VStoreTree t
            && match last_success t None with Some true => true | _ => false end
       else Nat.eqb (cnt VFbSyntax t + cnt VFbIndent t) 1 && negb (has VStoreTree t) && has VStoreEmptyTree t
            && match last_success t None with Some false => true | _ => false end)
  end.
