(* C09: model vs real TIFA. *)
From Coq Require Import List Bool Arith.
Import ListNotations.
From Pedal Require Import model.C09_Tifa.

Definition kind_eqb (a b : issue_kind) : bool :=
  match a, b with InitProblem, InitProblem | PossibleInitProblem, PossibleInitProblem => true | _, _ => false end.
Definition issue_eqb (a b : issue) : bool :=
  let '(l1, x1, k1) := a in let '(l2, x2, k2) := b in Nat.eqb l1 l2 && Nat.eqb x1 x2 && kind_eqb k1 k2.
Definition subset (a b : list issue) : bool := forallb (fun i => existsb (issue_eqb i) b) a.

(* (program, issues reported by TIFA (any order), variables reported unused) *)
Definition check_tifa (c : block * list issue * list nat) : bool :=
  let '(b, issues, unused) := c in
  let '(a, mine) := t_block b aempty in
  subset mine issues && subset issues mine && Nat.eqb (length mine) (length issues)
  && forallb (fun x => Bool.eqb (t_unused a x) (existsb (Nat.eqb x) unused)) (seq 0 4).

(* programs with while loops: the model analyses the once-unrolled program; the re-read of the condition can repeat
   an issue, so issues are compared as sets *)
Definition check_tifa_set (c : block * list issue) : bool :=
  let '(b, issues) := c in
  let mine := snd (t_block b aempty) in
  subset mine issues && subset issues mine.
