(* C15: checker used by the correspondence run. *)
From Coq Require Import ZArith List Bool.
Import ListNotations.
From Pedal Require Import lib.PyStr model.C15_IO.
Open Scope Z_scope.

Fixpoint str_eqb (a b : str) : bool :=
  match a, b with
  | [], [] => true
  | x :: a', y :: b' => Z.eqb x y && str_eqb a' b'
  | _, _ => false
  end.
Fixpoint list_eqb {A} (e : A -> A -> bool) (a b : list A) : bool :=
  match a, b with
  | [], [] => true
  | x :: a', y :: b' => e x y && list_eqb e a' b'
  | _, _ => false
  end.
Definition ctx_eqb (a b : ctx) : bool :=
  str_eqb (c_output a) (c_output b) && list_eqb str_eqb (c_inputs a) (c_inputs b).
Definition st_eqb (a b : st) : bool :=
  str_eqb (raw a) (raw b) && list_eqb str_eqb (out a) (out b)
  && list_eqb str_eqb (inputs a) (inputs b) && list_eqb ctx_eqb (ctxs a) (ctxs b).

(* the model state after EVERY operation equals the observed one *)
Fixpoint check_from (s : st) (ops : list op) (obs : list st) : bool :=
  match ops, obs with
  | [], [] => true
  | o :: ops', x :: obs' => let s' := step s o in st_eqb s' x && check_from s' ops' obs'
  | _, _ => false
  end.
Definition check_history (c : list op * list st) : bool := check_from init (fst c) (snd c).
