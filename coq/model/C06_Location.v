(* C04 / C06 model: where a failure is located - pedal/utilities/exceptions.py, ExpandedTraceback.__init__.
   The traceback is the list of its frames, outermost first; a frame is (file, line).  [student] says which files are the
   learner's; [offset] is the per-file line offset (non-zero while the file is split into sections).
   The location is the line of the INNERMOST frame in one of the learner's files (plus that file's offset); only when no such
   frame exists is it the innermost frame of any file.  A SyntaxError of a learner's file that names a line overrides both
   (the frame that called compile() is not the place). *)
From Coq Require Import List Bool Arith.
Import ListNotations.

Definition frame := (nat * nat)%type.        (* file id, line *)

Fixpoint last_frame (frames : list frame) : option frame :=
  match frames with [] => None | [f] => Some f | _ :: r => last_frame r end.

(* for frame in reversed(frames): if frame[0] in student_files: ... break *)
Definition innermost_student (student : nat -> bool) (frames : list frame) : option frame :=
  find (fun f => student (fst f)) (rev frames).

Definition chosen (student : nat -> bool) (frames : list frame) : option frame :=
  match innermost_student student frames with Some f => Some f | None => last_frame frames end.

(* syntax: Some (file, line) when the exception is a SyntaxError that carries a line *)
Definition location (student : nat -> bool) (offset : nat -> nat) (syntax : option frame) (frames : list frame) : option nat :=
  match chosen student frames with
  | None => None                                   (* no traceback at all: the code indexes [-1] and fails *)
  | Some f =>
      let f' := match syntax with Some s => if student (fst s) then s else f | None => f end in
      Some (snd f' + offset (fst f'))
  end.

(* what the code did before the repair: the innermost frame of ANY file *)
Definition location_before (offset : nat -> nat) (frames : list frame) : option nat :=
  match last_frame frames with Some f => Some (snd f + offset (fst f)) | None => None end.
