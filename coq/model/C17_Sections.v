(* C17 model: splitting a submission into sections and mapping section lines to file lines.
   pedal/source/sections.py (separate_into_sections, next_section, stop_sections, stop_any_sections),
   pedal/core/submission.py (replace_main, set_line_offset), pedal/source/source.py (set_source, restore_code). *)
From Coq Require Import ZArith List Bool Lia.
Import ListNotations.
From Pedal Require Import lib.PyStr.
Open Scope Z_scope.

Section Split.
  (* a whole-line marker predicate: what  re.split(r'^(...)$', text, flags=MULTILINE)  matches *)
  Variable is_marker : str -> bool.

  (* walk the "\n"-separated lines; [acc] is the code chunk being built; [sep] = the newline owed before the
     next line ([] for the first line).  Chunks: code0, marker1, code1, ... (markers at odd positions). *)
  Fixpoint chunks_from (lines : list str) (acc : str) (first : bool) : list str :=
    match lines with
    | [] => [acc]
    | l :: ls =>
        let sep := if first then [] else [NL] in
        if is_marker l then (acc ++ sep) :: l :: chunks_from ls [] false
        else chunks_from ls (acc ++ sep ++ l) false
    end.

  Definition split_sections (t : str) : list str := chunks_from (split_nl t) [] true.

  Definition count_nl (s : str) : Z := Z.of_nat (length (filter (fun c => c =? NL) s)).

  (* independent mode: section k is chunk 2k; its line offset is the number of newlines before it *)
  Definition section_independent (t : str) (k : nat) : option (str * Z) :=
    let cs := split_sections t in
    match nth_error cs (2 * k) with
    | Some c => Some (c, count_nl (concat (firstn (2 * k) cs)))
    | None => None
    end.

  (* cumulative mode: the file up to and including chunk 2k; no offset *)
  Definition section_cumulative (t : str) (k : nat) : option (str * Z) :=
    let cs := split_sections t in
    match nth_error cs (2 * k) with
    | Some _ => Some (concat (firstn (2 * k + 1) cs), 0)
    | None => None
    end.

  (* number of sections after the prologue *)
  Definition n_sections (t : str) : nat := Nat.div (length (split_sections t) - 1) 2.
End Split.

(* the default pattern  ^(##### Part .+)$ *)
Definition PREFIX : str := [35; 35; 35; 35; 35; 32; 80; 97; 114; 116; 32].   (* "##### Part " *)
Fixpoint starts_with (p s : str) : option str :=
  match p, s with
  | [], _ => Some s
  | a :: p', b :: s' => if a =? b then starts_with p' s' else None
  | _, [] => None
  end.
Definition default_marker (l : str) : bool :=
  match starts_with PREFIX l with Some (_ :: _) => true | _ => false end.

(* ---------------- the substitution stack ---------------- *)
Inductive sop :=
| Separate (independent : bool)
| Next
| Stop
| Resolve             (* the resolver hook: stop_any_sections *)
| SetSource (code : str)
| Restore.

Record sst := mkSst {
  main : str;                 (* report.submission.main_code *)
  stack : list str;           (* substitutions, top first *)
  secs : list str;            (* report['source']['sections'] *)
  sec_index : nat;            (* report['source']['section'] *)
  indep : bool;
  line_offset : Z;
  not_enough : nat            (* how many not_enough_sections feedbacks were attached *)
}.

Definition sstep (is_marker : str -> bool) (s : sst) (o : sop) : option sst :=
  match o with
  | Separate ind =>
      let cs := split_sections is_marker (main s) in
      Some (mkSst (hd [] cs) (main s :: stack s) cs 0 ind 0 (not_enough s))
  | Next =>
      match stack s with
      | [] => None           (* IndexError in the real code: next_section without sections *)
      | top :: _ =>
          let idx := (sec_index s + 2)%nat in
          let number := Nat.div (idx + 1) 2 in
          let found := Nat.div (length (secs s) - 1) 2 in
          if Nat.leb number found then
            if indep s then
              Some (mkSst (nth idx (secs s) []) (stack s) (secs s) idx (indep s)
                          (count_nl (concat (firstn idx (secs s)))) (not_enough s))
            else
              Some (mkSst (concat (firstn (idx + 1) (secs s))) (stack s) (secs s) idx (indep s)
                          (line_offset s) (not_enough s))
          else Some (mkSst top (stack s) (secs s) idx (indep s) (line_offset s) (S (not_enough s)))
      end
  | Stop => match stack s with
            | [] => None
            (* the whole file is the main code again: clear_line_offsets *)
            | top :: rest => Some (mkSst top rest (secs s) (sec_index s) (indep s) 0 (not_enough s))
            end
  | Resolve => match stack s with
               | [] => Some s
               | top :: rest => Some (mkSst top rest (secs s) (sec_index s) (indep s) 0 (not_enough s))
               end
  | SetSource c => Some (mkSst c (main s :: stack s) (secs s) (sec_index s) (indep s) (line_offset s) (not_enough s))
  | Restore => match stack s with
               | [] => None
               | top :: rest => Some (mkSst top rest (secs s) (sec_index s) (indep s) (line_offset s) (not_enough s))
               end
  end.

Fixpoint srun (is_marker : str -> bool) (s : sst) (ops : list sop) : option sst :=
  match ops with
  | [] => Some s
  | o :: ops' => match sstep is_marker s o with Some s' => srun is_marker s' ops' | None => None end
  end.

Definition sinit (t : str) : sst := mkSst t [] [] 0 true 0 0.

(* how each tool turns a section-relative line into a reported line *)
Inductive tool := SyntaxFeedback | TifaIssue | TracebackFrame | RuntimeLocation.
Definition report_line (_ : tool) (l off : Z) : Z := l + off.
