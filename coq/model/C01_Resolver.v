(* Model of pedal's simple resolver (C01, C02, C03):
   pedal/resolvers/simple.py (by_priority, resolve), pedal/core/final_feedback.py
   (merge, finalize), pedal/core/report.py (suppress), pedal/core/scoring.py.

   The model is executable; it raises (returns [Err]) where the code raises.
   Float sort keys value+{.1,.3,.5,.7} are represented in tenths (exact);
   scores are exact rationals. *)
From Coq Require Import ZArith QArith Qround List String Ascii Bool.
Import ListNotations.
From Pedal Require Import lib.PyMini lib.Assoc lib.StableSort.
Open Scope string_scope.
Open Scope list_scope.
Open Scope Z_scope.

(* ---------------------------------------------------------------- strings *)
Definition lower_ascii (c : ascii) : ascii :=
  let n := nat_of_ascii c in
  if (Nat.leb 65 n && Nat.leb n 90)%bool then ascii_of_nat (n + 32) else c.
Fixpoint lower (s : string) : string :=
  match s with EmptyString => EmptyString | String c s' => String (lower_ascii c) (lower s') end.

(* ---------------------------------------------------------------- feedback *)
Inductive fval := FZ (z : Z) | FS (s : string) | FNone | FB (b : bool).
Definition fval_eqb (a b : fval) : bool :=
  match a, b with
  | FZ x, FZ y => x =? y
  | FS x, FS y => String.eqb x y
  | FNone, FNone => true
  | FB x, FB y => Bool.eqb x y
  | FB x, FZ y => (if x then 1 else 0) =? y     (* Python: True == 1 *)
  | FZ x, FB y => x =? (if y then 1 else 0)
  | _, _ => false
  end.

Record fb := mkFb {
  f_id : Z;                      (* identity of the object (creation order index) *)
  f_category : option string;
  f_label : string;
  f_priority : option string;
  f_kind : string;               (* "" when None *)
  f_muted : bool;                (* truthiness of .muted *)
  f_unscored : bool;             (* truthiness of .unscored *)
  f_triggered : bool;            (* bool(feedback) *)
  f_else : bool;                 (* truthiness of .else_message *)
  f_correct : bool;              (* truthiness of .correct *)
  f_score : option string;       (* str(.score) when not None *)
  f_negative : bool;             (* .valence == NEGATIVE_VALENCE *)
  f_has_message : bool;          (* .message is not None *)
  f_fields : list (string * fval)
}.

(* ---------------------------------------------------------------- tables (regenerated: gen/C01_Gen.v gives the
   instances; the model is parametric in them) *)
Section Tables.
  Variable category_priority : list string.     (* DEFAULT_CATEGORY_PRIORITY *)
  Variable aliases : list (string * string).     (* FeedbackCategory.ALIASES *)
  Variable offset_of : string -> Z.              (* priority_offset, in tenths *)

  Fixpoint index_of (x : string) (l : list string) (i : Z) : option Z :=
    match l with
    | [] => None
    | y :: l' => if String.eqb x y then Some i else index_of x l' (i + 1)
    end.

  (* by_priority, in tenths *)
  Definition key (f : fb) : Z :=
    let category := match f_category f with Some c => lower c | None => "uncategorized" end in
    let priority0 := match f_priority f with
                     | Some p => let p' := lower p in
                                 match assoc p' aliases with Some a => a | None => p' end
                     | None => "medium" end in
    let value0 := match index_of category category_priority 0 with
                  | Some i => i | None => Z.of_nat (List.length category_priority) end in
    match index_of priority0 category_priority 0 with
    | Some i => 10 * i + offset_of "medium"
    | None => 10 * value0 + offset_of priority0
    end.

  (* ------------------------------------------------------------ suppressions *)
  Definition fieldset := list (string * fval).
  Inductive skey := KAll | KLabel (l : string).
  Definition skey_eqb (a b : skey) : bool :=
    match a, b with KAll, KAll => true | KLabel x, KLabel y => String.eqb x y | _, _ => false end.

  Record supp := mkSupp {
    by_cat : list (string * list (skey * list fieldset));
    by_label : list (string * list fieldset)
  }.
  Definition no_supp := mkSupp [] [].

  (* one call  report.suppress(category, label, fields) ; label None = True *)
  Record supp_call := mkCall { c_category : option string; c_label : option string; c_fields : fieldset }.

  Fixpoint upd {K V} (eqb : K -> K -> bool) (k : K) (f : option V -> V) (l : list (K * V)) : list (K * V) :=
    match l with
    | [] => [(k, f None)]
    | (k', v) :: l' => if eqb k k' then (k', f (Some v)) :: l' else (k', v) :: upd eqb k f l'
    end.

  Definition apply_call (s : supp) (c : supp_call) : supp :=
    match c_category c with
    | None =>
        let lbl := match c_label c with Some l => KLabel l | None => KAll end in
        (* suppressed_labels is keyed by the raw label (True when omitted) *)
        match lbl with
        | KLabel l => mkSupp (by_cat s)
                        (upd String.eqb l (fun o => match o with Some fs => fs ++ [c_fields c] | None => [c_fields c] end)
                             (by_label s))
        | KAll => s   (* key True never equals a feedback label (labels are strings) *)
        end
    | Some cat0 =>
        let cat1 := lower cat0 in
        let cat := match assoc cat1 aliases with Some a => a | None => cat1 end in
        let lbl := match c_label c with Some l => KLabel (lower l) | None => KAll end in
        mkSupp (upd String.eqb cat
                    (fun o => upd skey_eqb lbl
                                (fun o2 => match o2 with Some fs => fs ++ [c_fields c] | None => [c_fields c] end)
                                (match o with Some m => m | None => [] end))
                    (by_cat s))
               (by_label s)
    end.

  Definition build_supp (calls : list supp_call) : supp := fold_left apply_call calls no_supp.

  Fixpoint lookup_fields (k : string) (l : fieldset) : fval :=
    match l with [] => FNone | (k', v) :: l' => if String.eqb k k' then v else lookup_fields k l' end.

  (* the for/else loops: some field set matches entirely *)
  Definition fields_match (f : fb) (fs : fieldset) : bool :=
    forallb (fun kv => fval_eqb (lookup_fields (fst kv) (f_fields f)) (snd kv)) fs.

  Fixpoint assoc_k {V} (k : skey) (l : list (skey * V)) : option V :=
    match l with [] => None | (k', v) :: l' => if skey_eqb k k' then Some v else assoc_k k l' end.

  Definition suppressed (s : supp) (f : fb) : bool :=
    let category := match f_category f with Some c => lower c | None => "uncategorized" end in
    (match assoc category (by_cat s) with
     | Some m =>
         match assoc_k KAll m with
         | Some _ => true
         | None => match assoc_k (KLabel (lower (f_label f))) m with
                   | Some lfs => existsb (fields_match f) lfs
                   | None => false
                   end
         end
     | None => false
     end)
    || match assoc (f_label f) (by_label s) with
       | Some lfs => existsb (fields_match f) lfs
       | None => false
       end.

  (* ------------------------------------------------------------ scores *)
  Record score := mkScore { s_invert : bool; s_op : option ascii; s_value : Q; s_percent : bool }.

  Definition is_digit (c : ascii) : bool := let n := nat_of_ascii c in (Nat.leb 48 n && Nat.leb n 57)%bool.
  Definition is_dot (c : ascii) : bool := Ascii.eqb c "."%char.
  Definition is_opchar (c : ascii) : bool :=
    (Ascii.eqb c "+" || Ascii.eqb c "-" || Ascii.eqb c "/" || Ascii.eqb c "*")%char.

  Fixpoint count_bangs (s : string) : nat * string :=
    match s with
    | String c s' => if Ascii.eqb c "!"%char then let '(n, r) := count_bangs s' in (S n, r) else (O, s)
    | EmptyString => (O, s)
    end.

  (* greedy [\d.]+ : returns (digits before dot, digits after dot, number of dots, rest) *)
  Fixpoint take_num (s : string) (ndots : nat) (ipart : Z) (fpart : Z) (fdigits : nat) (ndigits : nat)
    : (nat * Z * Z * nat * nat * string) :=
    match s with
    | String c s' =>
        if is_digit c then
          let d := Z.of_nat (nat_of_ascii c - 48) in
          if Nat.eqb ndots 0 then take_num s' ndots (10 * ipart + d) fpart fdigits (S ndigits)
          else take_num s' ndots ipart (10 * fpart + d) (S fdigits) (S ndigits)
        else if is_dot c then take_num s' (S ndots) ipart fpart fdigits ndigits
        else (ndots, ipart, fpart, fdigits, ndigits, s)
    | EmptyString => (ndots, ipart, fpart, fdigits, ndigits, s)
    end.

  Definition pow10 (n : nat) : positive := Pos.pow 10 (Pos.of_nat n).

  (* the optional exponent  (?:[eE][+-]?\d+)?  - how Python prints very small and very large floats *)
  Fixpoint take_digits (s : string) (acc : Z) (n : nat) : (Z * nat * string) :=
    match s with
    | String c s' => if is_digit c then take_digits s' (10 * acc + Z.of_nat (nat_of_ascii c - 48)) (S n) else (acc, n, s)
    | EmptyString => (acc, n, s)
    end.
  Definition take_exp (rest : string) : option (Z * string) :=
    match rest with
    | String e r1 =>
        if (Ascii.eqb e "e" || Ascii.eqb e "E")%char then
          let '(neg, r2) := match r1 with
                            | String sg r' => if Ascii.eqb sg "-"%char then (true, r') else if Ascii.eqb sg "+"%char then (false, r') else (false, r1)
                            | EmptyString => (false, r1)
                            end in
          let '(ex, nd, r3) := take_digits r2 0 0%nat in
          if Nat.eqb nd 0 then None else Some ((if neg then (- ex)%Z else ex), r3)
        else None
    | EmptyString => None
    end.
  Definition scale10 (v : Q) (ex : Z) : Q :=
    if (0 <=? ex)%Z then Qred (Qmult v (inject_Z (10 ^ ex))) else Qred (Qdiv v (inject_Z (10 ^ (- ex)))).

  (* Score.parse on  f"{inversion}{partial}" : everything after the leading "!"s *)
  Definition parse_body (r1 : string) : option (res (option ascii * Q * bool)) :=
    let '(op, r2) := match r1 with
                     | String c r' => if is_opchar c then (Some c, r') else (None, r1)
                     | EmptyString => (None, r1) end in
    match r2 with
    | String c _ =>
        if (is_digit c || is_dot c)%bool then
          let '(ndots, ip, fp, fd, nd, rest) := take_num r2 0%nat 0 0 0%nat 0%nat in
          if (Nat.ltb 1 ndots || Nat.eqb nd 0)%bool then Some (Err "ValueError")   (* float("1.2.3"), float(".") *)
          else
            let v0 := (if Nat.eqb fd 0 then inject_Z ip
                       else Qred (Qplus (inject_Z ip) (Qmake fp (pow10 fd)))) in
            let '(v, rest) := match take_exp rest with Some (ex, rest') => (scale10 v0 ex, rest') | None => (v0, rest) end in
            let pct := match rest with String p _ => Ascii.eqb p "%"%char | _ => false end in
            Some (Ok (op, (if pct then Qred (Qdiv v (inject_Z 100)) else v), pct))
        else None
    | EmptyString => None
    end.

  Definition parse_after (nb : nat) (r1 : string) : res score :=
    match parse_body r1 with
    | Some (Ok (op, v, pct)) => Ok (mkScore (Nat.odd nb) op v pct)
    | Some (Err c) => Err c
    | None => Err "ValueError"      (* the regex does not match *)
    end.

  Definition parse_score (s : string) : res score :=
    let '(nb, r1) := count_bangs s in parse_after nb r1.

  (* Score.add_to_current *)
  Definition add_to_current (sc : score) (cur : Q) : res Q :=
    if s_invert sc then Ok cur else
    match s_op sc with
    | None => Ok (Qred (Qplus cur (s_value sc)))
    | Some c =>
        if Ascii.eqb c "+"%char then Ok (Qred (Qplus cur (s_value sc)))
        else if Ascii.eqb c "-"%char then Ok (Qred (Qminus cur (s_value sc)))
        else if Ascii.eqb c "*"%char then Ok (Qred (Qmult cur (s_value sc)))
        else if Ascii.eqb c "/"%char then
          (if Qeq_bool (s_value sc) 0 then Err "ZeroDivisionError" else Ok (Qred (Qdiv cur (s_value sc))))
        else Ok cur
    end.

  (* round(x, 2): exact round-half-even at two decimals *)
  Definition round_half_even (q : Q) : Z :=
    let fl := Qfloor q in
    let frac := Qminus q (inject_Z fl) in
    match Qcompare frac (1 # 2) with
    | Lt => fl
    | Gt => fl + 1
    | Eq => if Z.even fl then fl else fl + 1
    end.
  Definition round2 (q : Q) : Q := Qred (Qmake (round_half_even (Qmult q (inject_Z 100))) 100).

  Fixpoint combine_scores (l : list string) (cur : Q) : res Q :=
    match l with
    | [] => Ok (round2 cur)
    | s :: l' =>
        match parse_score s with
        | Err c => Err c
        | Ok sc => match add_to_current sc cur with Err c => Err c | Ok cur' => combine_scores l' cur' end
        end
    end.

  (* ------------------------------------------------------------ merge / finalize *)
  Record final := mkFinal {
    fin_correct : bool;
    fin_used : option Z;            (* id of the feedback whose message/title/label/category is delivered *)
    fin_label : string;
    fin_category : string;
    fin_scores : list string;       (* in processing order *)
    fin_positives : list Z;
    fin_merged : list Z             (* feedback for which merge returned the object (full.resolve's used) *)
  }.

  Definition DEFAULT_LABEL := "set_correct_no_errors".
  Definition COMPLETE := "complete".
  Definition final0 := mkFinal true None DEFAULT_LABEL COMPLETE [] [] [].

  Definition invert_logic (f : fb) : bool := Bool.eqb (negb (f_negative f)) (negb (f_triggered f)).

  Definition merge (s : supp) (fin : res final) (f : fb) : res final :=
    match fin with
    | Err c => Err c
    | Ok fin =>
      if suppressed s f then Ok fin else
      (* score, if present *)
      let scored : res final :=
        if (negb (f_unscored f)) then
          match f_score f with
          | Some sc =>
              let str := String.append (if invert_logic f then "!" else "") sc in
              match parse_score str with          (* resolved_score = Score.parse(...) raises on junk *)
              | Err c => Err c
              | Ok _ => Ok (mkFinal (fin_correct fin) (fin_used fin) (fin_label fin) (fin_category fin)
                                    (fin_scores fin ++ [str]) (fin_positives fin) (fin_merged fin))
              end
          | None => Ok fin
          end
        else Ok fin in
      match scored with
      | Err c => Err c
      | Ok fin =>
        if (negb (f_triggered f) && f_else f)%bool then
          Ok (mkFinal (fin_correct fin) (fin_used fin) (fin_label fin) (fin_category fin) (fin_scores fin)
                      (fin_positives fin ++ [f_id f]) (fin_merged fin ++ [f_id f]))
        else if (negb (f_triggered f) || f_muted f)%bool then Ok fin
        else if String.eqb (f_kind f) "Compliment" then
          Ok (mkFinal (fin_correct fin) (fin_used fin) (fin_label fin) (fin_category fin) (fin_scores fin)
                      (fin_positives fin ++ [f_id f]) (fin_merged fin ++ [f_id f]))
        else
          let correct := (f_correct f && fin_correct fin)%bool in
          match fin_used fin, f_has_message f with
          | None, true =>
              Ok (mkFinal correct (Some (f_id f)) (f_label f)
                          (match f_category f with Some c => c | None => "" end)
                          (fin_scores fin) (fin_positives fin) (fin_merged fin ++ [f_id f]))
          | _, _ =>
              Ok (mkFinal correct (fin_used fin) (fin_label fin) (fin_category fin) (fin_scores fin)
                          (fin_positives fin) (fin_merged fin ++ [f_id f]))
          end
      end
    end.

  Record result := mkResult {
    r_used : option Z;
    r_correct : bool;
    r_score : Q;
    r_is_default : bool;            (* the "complete / no errors" result *)
    r_positives : list Z;
    r_merged : list Z;
    r_scores : list string
  }.

  Definition hides_correctness (s : supp) : bool :=
    match assoc "correct" (by_cat s) with
    | Some m => match m with [] => false | _ => true end
    | None => match assoc "success" (by_cat s) with
              | Some m => match m with [] => false | _ => true end
              | None => false end
    end.

  Definition finalize (s : supp) (fin : final) : res result :=
    if (negb (hides_correctness s) && String.eqb (fin_label fin) DEFAULT_LABEL
        && String.eqb (fin_category fin) COMPLETE)%bool
    then Ok (mkResult (fin_used fin) true (inject_Z 1) true (fin_positives fin) (fin_merged fin) (fin_scores fin))
    else match combine_scores (fin_scores fin) (inject_Z 0) with
         | Err c => Err c
         | Ok sc => Ok (mkResult (fin_used fin) (fin_correct fin) sc false (fin_positives fin) (fin_merged fin)
                                 (fin_scores fin))
         end.

  Definition resolve (active ignored : list fb) (calls : list supp_call) : res result :=
    let s := build_supp calls in
    match fold_left (merge s) (sort_by key (active ++ ignored)) (Ok final0) with
    | Err c => Err c
    | Ok fin => finalize s fin
    end.

  (* pedal/resolvers/sectional.py: the TRIGGERED feedback is grouped by its parent (section / group) and every group is
     resolved on its own, exactly as above; untriggered feedback takes no part.  [tagged]: (group, feedback) in creation order *)
  Definition group_of (tagged : list (nat * fb)) (g : nat) : list fb :=
    map snd (filter (fun p => Nat.eqb (fst p) g) tagged).
  Definition sectional_at (tagged : list (nat * fb)) (calls : list supp_call) (g : nat) : res result :=
    resolve (group_of tagged g) [] calls.
  Definition sect_groups (tagged : list (nat * fb)) : list nat := nodup Nat.eq_dec (map fst tagged).
End Tables.
