(* C11 (history): pedal/cait/cait_api.py reparse_if_needed as a state machine.
   The report keeps a cache from source text to parsed tree, a success flag and the "current tree"; find_matches
   searches the current tree if the flag is set and returns [] otherwise.  What a search sees must depend on the
   text it was asked about only, not on what the report parsed before. *)
From Coq Require Import List Bool.
Import ListNotations.

Section Cache.
  Variable code tree : Type.
  Variable code_eqb : code -> code -> bool.
  Variable parse : code -> option tree.        (* ast.parse wrapped in CaitNode; None = SyntaxError *)
  Variable empty : tree.                        (* the tree of the empty program, used after a failed parse *)

  Record state := mkSt {
    cache : list (code * tree);
    success : bool;
    current : option tree;
    main_code : code;                           (* report.submission.main_code *)
    source_ast : option tree                    (* report['source']['ast'] when report['source']['success'] *)
  }.

  Fixpoint lookup (c : code) (l : list (code * tree)) : option tree :=
    match l with
    | [] => None
    | (k, t) :: r => if code_eqb c k then Some t else lookup c r
    end.

  (* _parse_source + the final lines of reparse_if_needed: only code that parsed is cached *)
  Definition parse_and_store (c : code) (st : state) : state :=
    match parse c with
    | Some t => mkSt ((c, t) :: cache st) true (Some t) (main_code st) (source_ast st)
    | None => mkSt (cache st) false (Some empty) (main_code st) (source_ast st)
    end.

  Definition hit (t : tree) (st : state) : state :=
    mkSt (cache st) true (Some t) (main_code st) (source_ast st).

  Definition reparse (arg : option code) (st : state) : state :=
    match arg with
    | Some c =>
        match lookup c (cache st) with
        | Some t => hit t st
        | None => parse_and_store c st
        end
    | None =>
        let c := main_code st in
        match lookup c (cache st) with
        | Some t => hit t st
        | None =>
            match source_ast st with
            | Some t => mkSt ((c, t) :: cache st) true (Some t) (main_code st) (source_ast st)   (* steal the Source tool's parse *)
            | None => parse_and_store c st
            end
        end
    end.

  Definition code_of (arg : option code) (st : state) : code :=
    match arg with Some c => c | None => main_code st end.

  (* what a search after reparse sees: None = the search returns [] *)
  Definition seen (st : state) : option tree := if success st then current st else None.
End Cache.
