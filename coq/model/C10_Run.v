(* C10/C11: comparing the model's matches with the implementation's (canonical form: AstMap.mappings is a dict,
   the symbol tables are sets of (table, placeholder, identifier), exp_table is a dict - last binding wins). *)
From Coq Require Import List String Bool Arith ZArith.
Import ListNotations.
From Pedal Require Import model.C10_Cait.
Open Scope string_scope.
Open Scope list_scope.

Definition pair_eqb (a b : nat * nat) := Nat.eqb (fst a) (fst b) && Nat.eqb (snd a) (snd b).
Definition sym_eqb (a b : sym) : bool :=
  let '(t1, k1, v1) := a in let '(t2, k2, v2) := b in tbl_eqb t1 t2 && String.eqb k1 k2 && String.eqb v1 v2.
Definition subset {A} (eqb : A -> A -> bool) (l1 l2 : list A) := forallb (fun x => existsb (eqb x) l2) l1.

Fixpoint lookup_last (k : string) (l : list (string * nat)) (acc : option nat) : option nat :=
  match l with
  | [] => acc
  | (k', v) :: r => lookup_last k r (if String.eqb k k' then Some v else acc)
  end.
Definition opt_nat_eqb (a b : option nat) := match a, b with Some x, Some y => Nat.eqb x y | None, None => true | _, _ => false end.

(* model map vs the implementation's (dict-normalised) map *)
Definition map_eqb (m e : amap) : bool :=
  subset pair_eqb (pairs m) (pairs e) && subset pair_eqb (pairs e) (pairs m) &&
  subset sym_eqb (syms m) (syms e) && subset sym_eqb (syms e) (syms m) &&
  forallb (fun kv => opt_nat_eqb (lookup_last (fst kv) (exps m) None) (Some (snd kv))) (exps e) &&
  forallb (fun kv => existsb (fun kv' => String.eqb (fst kv) (fst kv')) (exps e)) (exps m).

Fixpoint maps_eqb (ms es : list amap) : bool :=
  match ms, es with
  | [], [] => true
  | m :: ms', e :: es' => map_eqb m e && maps_eqb ms' es'
  | _, _ => false
  end.

(* one student program, several patterns with the matches the implementation returned (in order) *)
Definition check_case (c : tree * list (tree * list amap)) : bool :=
  let '(student, runs) := c in
  forallb (fun r : tree * list amap => maps_eqb (find_matches (fst r) student) (snd r)) runs.

Definition count_matches (c : tree * list (tree * list amap)) : list nat :=
  map (fun r : tree * list amap => List.length (find_matches (fst r) (fst c))) (snd c).
