(* C19 model, comparisons: Tifa.visit_Compare over the REGENERATED dispatch lists, orderable sets and
   allows_membership shapes (gen/C19_Gen.v). *)
From Coq Require Import List String Bool.
Import ListNotations.
From Pedal Require Import model.C19_Types gen.C19_Gen.
Open Scope string_scope.

Fixpoint assoc {A} (k : string) (l : list (string * A)) : option A :=
  match l with [] => None | (k', v) :: r => if String.eqb k k' then Some v else assoc k r end.

(* is_subtype(key, StrType()) on the classes of [reps]: hand model, tied by the correspondence run *)
Definition sub_of_str (k : string) : bool := mem k ["StrType"; "LiteralStr"].

(* does visit_Compare report incompatible types for  <left class> op <right class> ?
   None: depends on the element types of the container (not modelled; CPython never raises TypeError there) *)
Definition tifa_cmp (op l r : string) : option bool :=
  if mem op gen_cmp_skip then Some false
  else if mem op gen_cmp_order then
    match assoc l gen_orderable with Some set => Some (negb (mem r set)) | None => None end
  else if mem op gen_cmp_member then
    match assoc r gen_membership with
    | Some MNever => Some true
    | Some MAlways => Some false
    | Some MSubStr => Some (negb (sub_of_str l))
    | _ => None
    end
  else Some true.   (* an operator in none of the lists falls through to the issue *)
