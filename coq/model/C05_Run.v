(* C05/C04: the skeleton's prediction for one execution whose student code (or compile) raises a given class. *)
From Coq Require Import List Bool Arith.
Import ListNotations.
From Pedal Require Import lib.ExnFlow model.C05_Effects gen.C05_Gen.

Definition oracle_raising (site : nat) (e : exn) : oracle :=
  mkOracle (fun s => if Nat.eqb s site then Some e else None) (fun _ => false).

(* (site, class, observed: propagated?, #runtime feedback, restored?) *)
Definition check_zoo (c : nat * exn * bool * nat * bool) : bool :=
  let '(site, e, propagated, nfb, restored) := c in
  let '(o, t) := exec eff (oracle_raising site e) None gen_execute in
  Bool.eqb (match o with Raised _ => true | _ => false end) propagated
  && Nat.eqb (count is_capture t) nfb
  && Bool.eqb (balanced t) restored.
