(* C13: classification of every piece of process-lifetime mutable state found by the T5 inventory.
   Constant     - a table that nothing mutates after import (checked dynamically by the correspondence run: its
                  fingerprint is unchanged after a long history of gradings)
   Registry     - filled at import time by tool registration, constant afterwards
   ResetByClear - mutated by gradings, reset by Report.clear()
   PerReport    - mutated by gradings, rebuilt by a tool's reset() for every report
   A NEW mutable global makes [inventory_classified] fail until it is classified here. *)
From Coq Require Import List String.
Import ListNotations.
Open Scope string_scope.

Inductive kind := Constant | Registry | ResetByClear | PerReport.

Definition classification : list (string * kind) := [
  ("pedal/assertions/static.py:ADVANCED_ITERATION_FUNCTIONS", Constant);
  ("pedal/cait/ast_map.py:SymTables", Constant);
  ("pedal/cait/cait_node.py:AST_ARRAYS_OF_FUNCTIONS", Constant);
  ("pedal/cait/cait_node.py:AST_SINGLE_FUNCTIONS", Constant);
  ("pedal/command_line/modes.py:AbstractPipeline.progsnap_events_map", Constant);
  ("pedal/command_line/modes.py:MODES.PIPELINES", Constant);
  ("pedal/core/commands.py:__all__", Constant);
  ("pedal/core/environment.py:__all__", Constant);
  ("pedal/core/errors.py:__all__", Constant);
  ("pedal/core/feedback.py:DEFAULT_CATEGORY_PRIORITY", Constant);
  ("pedal/core/feedback.py:Feedback._pools", ResetByClear);
  ("pedal/core/feedback.py:PEDAL_DEVELOPERS", Constant);
  ("pedal/core/feedback.py:__all__", Constant);
  ("pedal/core/feedback_category.py:FeedbackCategory.ALIASES", Constant);
  ("pedal/core/formatting.py:Formatter.available", Constant);
  ("pedal/core/location.py:__all__", Constant);
  ("pedal/core/report.py:Report.TOOLS", Registry);
  ("pedal/core/report.py:__all__", Constant);
  ("pedal/core/resolver.py:__all__", Constant);
  ("pedal/core/submission.py:Submission.PARSERS", Constant);
  ("pedal/core/submission.py:__all__", Constant);
  ("pedal/core/tool.py:__all__", Constant);
  ("pedal/environments/__init__.py:ALL_ENVIRONMENTS", Constant);
  ("pedal/environments/gradescope.py:global score_maximum", Constant);
  ("pedal/environments/vpl.py:global score_maximum", Constant);
  ("pedal/extensions/microbit.py:BRIGHTNESS_VALUE", Constant);
  ("pedal/extensions/plotting.py:GRAPH_TYPES", Constant);
  ("pedal/extensions/plotting.py:PLOT_LABEL", Constant);
  ("pedal/extensions/plotting.py:ensure_show.constant_fields", Constant);
  ("pedal/extensions/plotting.py:plt_rename_err.constant_fields", Constant);
  ("pedal/extensions/plotting.py:plt_wrong_import.constant_fields", Constant);
  ("pedal/questions/__init__.py:OPTIONALS", Constant);
  ("pedal/questions/__init__.py:REQUIRES", Constant);
  ("pedal/questions/__init__.py:__all__", Constant);
  ("pedal/questions/loader.py:DEFAULT_SETTINGS", Constant);
  ("pedal/questions/loader.py:EXAMPLE_DATA", Constant);
  ("pedal/questions/pool.py:Pool._CURRENT", Constant);
  ("pedal/resolvers/full.py:DEFAULT_CATEGORY_PRIORITY", Constant);
  ("pedal/sandbox/feedbacks.py:EXCEPTION_FF_MAP", Constant);
  ("pedal/sandbox/feedbacks.py:attribute_error.constant_fields", Constant);
  ("pedal/sandbox/feedbacks.py:import_error.constant_fields", Constant);
  ("pedal/sandbox/feedbacks.py:indentation_error.constant_fields", Constant);
  ("pedal/sandbox/feedbacks.py:index_error.constant_fields", Constant);
  ("pedal/sandbox/feedbacks.py:io_error.constant_fields", Constant);
  ("pedal/sandbox/feedbacks.py:key_error.constant_fields", Constant);
  ("pedal/sandbox/feedbacks.py:memory_error.constant_fields", Constant);
  ("pedal/sandbox/feedbacks.py:name_error.constant_fields", Constant);
  ("pedal/sandbox/feedbacks.py:runtime_error.constant_fields", Constant);
  ("pedal/sandbox/feedbacks.py:timeout_error.constant_fields", Constant);
  ("pedal/sandbox/feedbacks.py:type_error.constant_fields", Constant);
  ("pedal/sandbox/feedbacks.py:value_error.constant_fields", Constant);
  ("pedal/sandbox/feedbacks.py:zero_division_error.constant_fields", Constant);
  ("pedal/sandbox/library/designer.py:MockDesigner.FIELDS", Constant);
  ("pedal/sandbox/library/designer.py:MockDesigner.SUBMODULES", Constant);
  ("pedal/sandbox/library/designer.py:MockDesigner.UNKNOWN_FUNCTIONS", Constant);
  ("pedal/sandbox/library/drafter_library.py:COMPONENTS", Constant);
  ("pedal/sandbox/library/drafter_library.py:MockDrafter.UNKNOWN_FUNCTIONS", Constant);
  ("pedal/sandbox/library/drafter_library.py:STYLE_FUNCTIONS", Constant);
  ("pedal/sandbox/library/microbit.py:MockMicrobit.SUBMODULES", Constant);
  ("pedal/sandbox/library/microbit.py:MockMicrobit.UNKNOWN_FUNCTIONS", Constant);
  ("pedal/sandbox/library/microbit.py:MockMicrobitDisplay.SUBMODULES", Constant);
  ("pedal/sandbox/library/microbit.py:MockMicrobitDisplay.UNKNOWN_FUNCTIONS", Constant);
  ("pedal/sandbox/library/turtles.py:MockTurtle.FIELDS", Constant);
  ("pedal/sandbox/mocked.py:MockModule.SUBMODULES", Constant);
  ("pedal/sandbox/mocked.py:ORIGINAL_BUILTINS", Constant);
  ("pedal/sandbox/result.py:SandboxResult.ASSIGNABLE_ATTRS", Constant);
  ("pedal/sandbox/tracer.py:TRACER_STYLES", Constant);
  ("pedal/source/__init__.py:__all__", Constant);
  ("pedal/source/feedbacks.py:indentation_error.constant_fields", Constant);
  ("pedal/source/feedbacks.py:syntax_error.constant_fields", Constant);
  ("pedal/tifa/__init__.py:__all__", Constant);
  ("pedal/tifa/constants.py:__all__", Constant);
  ("pedal/tifa/feedbacks.py:FEEDBACK_BY_NAME", Constant);
  ("pedal/tifa/tifa_core.py:__all__", Constant);
  ("pedal/types/builtin.py:BUILT_EXCEPTION_NAMES", Constant);
  ("pedal/types/library/designer.py:_DESIGNER_FUNCTIONS", Constant);
  ("pedal/types/library/designer.py:_IDENTITY_FUNCTIONS", Constant);
  ("pedal/types/library/designer.py:_VOID_FUNCTIONS", Constant);
  ("pedal/types/library/drafter.py:_COMPONENT_FUNCTIONS", Constant);
  ("pedal/types/library/drafter.py:_IDENTITY_FUNCTIONS", Constant);
  ("pedal/types/library/drafter.py:_VOID_FUNCTIONS", Constant);
  ("pedal/types/library/microbit.py:_VOID_FUNCTIONS", Constant);
  ("pedal/types/library/pillow.py:_IMAGE_FUNCTIONS", Constant);
  ("pedal/types/library/pillow.py:_IMAGE_IMAGE_METHODS", Constant);
  ("pedal/types/library/pillow.py:_IMAGE_STATIC_METHODS", Constant);
  ("pedal/types/library/pillow.py:_IMAGE_VOID_METHODS", Constant);
  ("pedal/types/library/pillow.py:_VOID_FUNCTIONS", Constant);
  ("pedal/types/new_types.py:AnyType.fields", Constant);
  ("pedal/types/new_types.py:AnyType.parents", Constant);
  ("pedal/types/new_types.py:BUILTIN_MODULES", PerReport);
  ("pedal/types/new_types.py:BUILTIN_NAMES", Constant);
  ("pedal/types/new_types.py:BoolType.fields", Constant);
  ("pedal/types/new_types.py:BoolType.parents", Constant);
  ("pedal/types/new_types.py:BuiltinConstructorType.fields", Constant);
  ("pedal/types/new_types.py:BuiltinConstructorType.parents", Constant);
  ("pedal/types/new_types.py:ClassType.fields", Constant);
  ("pedal/types/new_types.py:ClassType.parents", Constant);
  ("pedal/types/new_types.py:DictType.fields", Constant);
  ("pedal/types/new_types.py:DictType.parents", Constant);
  ("pedal/types/new_types.py:ExceptionType.fields", Constant);
  ("pedal/types/new_types.py:ExceptionType.parents", Constant);
  ("pedal/types/new_types.py:FileType.fields", Constant);
  ("pedal/types/new_types.py:FileType.parents", Constant);
  ("pedal/types/new_types.py:FloatType.fields", Constant);
  ("pedal/types/new_types.py:FloatType.parents", Constant);
  ("pedal/types/new_types.py:FrozenSetType.fields", Constant);
  ("pedal/types/new_types.py:FrozenSetType.parents", Constant);
  ("pedal/types/new_types.py:FunctionType.fields", Constant);
  ("pedal/types/new_types.py:FunctionType.parents", Constant);
  ("pedal/types/new_types.py:GeneratorType.fields", Constant);
  ("pedal/types/new_types.py:GeneratorType.parents", Constant);
  ("pedal/types/new_types.py:ImpossibleType.fields", Constant);
  ("pedal/types/new_types.py:ImpossibleType.parents", Constant);
  ("pedal/types/new_types.py:InstanceType.fields", Constant);
  ("pedal/types/new_types.py:IntType.fields", Constant);
  ("pedal/types/new_types.py:IntType.parents", Constant);
  ("pedal/types/new_types.py:ListType.fields", Constant);
  ("pedal/types/new_types.py:ListType.parents", Constant);
  ("pedal/types/new_types.py:ListType.protected_fields", Constant);
  ("pedal/types/new_types.py:LiteralBool.fields", Constant);
  ("pedal/types/new_types.py:LiteralBool.parents", Constant);
  ("pedal/types/new_types.py:LiteralFloat.fields", Constant);
  ("pedal/types/new_types.py:LiteralFloat.parents", Constant);
  ("pedal/types/new_types.py:LiteralInt.fields", Constant);
  ("pedal/types/new_types.py:LiteralInt.parents", Constant);
  ("pedal/types/new_types.py:LiteralStr.fields", Constant);
  ("pedal/types/new_types.py:ModuleType.fields", Constant);
  ("pedal/types/new_types.py:ModuleType.parents", Constant);
  ("pedal/types/new_types.py:NoneType.fields", Constant);
  ("pedal/types/new_types.py:NoneType.parents", Constant);
  ("pedal/types/new_types.py:NumType.fields", Constant);
  ("pedal/types/new_types.py:NumType.parents", Constant);
  ("pedal/types/new_types.py:PEDAL_TYPE_NAMES", Constant);
  ("pedal/types/new_types.py:STANDARD_NAMES", Constant);
  ("pedal/types/new_types.py:SetType.fields", Constant);
  ("pedal/types/new_types.py:SetType.parents", Constant);
  ("pedal/types/new_types.py:StrType.fields", Constant);
  ("pedal/types/new_types.py:StrType.parents", Constant);
  ("pedal/types/new_types.py:TYPE_STRINGS", Constant);
  ("pedal/types/new_types.py:TupleType.fields", Constant);
  ("pedal/types/new_types.py:TupleType.parents", Constant);
  ("pedal/types/new_types.py:TypeUnion.fields", Constant);
  ("pedal/types/new_types.py:TypeUnion.parents", Constant);
  ("pedal/types/new_types.py:_MODULE_LOADERS", Constant);
  ("pedal/types/normalize.py:ELEMENT_TYPES", Constant);
  ("pedal/types/operations.py:VALID_BINOP_TYPES", Constant);
  ("pedal/types/operations.py:VALID_UNARYOP_TYPES", Constant);
  ("pedal/utilities/ast_tools.py:AST_NODE_NAMES", Constant);
  ("pedal/utilities/ast_tools.py:__all__", Constant);
  ("pedal/utilities/operators.py:BIN_OP_NAMES", Constant);
  ("pedal/utilities/operators.py:BOOL_OP_NAMES", Constant);
  ("pedal/utilities/operators.py:COMPARE_OP_NAMES", Constant);
  ("pedal/utilities/operators.py:OPERATION_DESCRIPTION", Constant);
  ("pedal/utilities/operators.py:UNARY_OP_NAMES", Constant);
  ("pedal/utilities/progsnap.py:SqlProgSnap2.PROFILES", Constant)
].

(* fields created by Report.__init__ that Report.clear deliberately leaves alone *)
Definition clear_exempt : list string := ["class_hooks"].
