(* C19 model: TIFA's binary-operator typing over the core value types, and CPython's own behaviour as a
   specification table (validated against the live interpreter by the correspondence run). *)
From Coq Require Import List String Bool.
Import ListNotations.
Open Scope string_scope.

(* what a cell of VALID_BINOP_TYPES returns *)
Inductive resfun := RNum | RFloat | RInt | RStr | RBool | RLeft | RRight | RTupleConcat | RContainer.

(* core run-time types of the property *)
Inductive core := CInt | CFloat | CStr | CList | CTuple.
Definition all_core := [CInt; CFloat; CStr; CList; CTuple].
Definition core_eqb (a b : core) : bool :=
  match a, b with CInt, CInt | CFloat, CFloat | CStr, CStr | CList, CList | CTuple, CTuple => true | _, _ => false end.

(* pedal types (as far as operator results go) *)
Inductive ptype := PNum | PInt | PFloat | PStr | PBool | PList | PTuple | PImpossible.

Definition ptype_of_core (c : core) : ptype :=
  match c with CInt => PInt | CFloat => PFloat | CStr => PStr | CList => PList | CTuple => PTuple end.
Definition class_name (c : core) : string :=
  match c with CInt => "IntType" | CFloat => "FloatType" | CStr => "StrType" | CList => "ListType" | CTuple => "TupleType" end.

(* a run-time value of core type r conforms to pedal type t (is_subtype(type_of(value), t)) *)
Definition conforms (r : core) (t : ptype) : bool :=
  match r, t with
  | CInt, (PInt | PNum) => true
  | CFloat, (PFloat | PNum) => true
  | CStr, PStr => true
  | CList, PList => true
  | CTuple, PTuple => true
  | _, _ => false
  end.

Definition binops := ["Add"; "Sub"; "Mult"; "Div"; "FloorDiv"; "Mod"; "Pow"; "LShift"; "RShift"; "BitOr"; "BitXor"; "BitAnd"].

Section Table.
  Variable table : list (string * string * string * resfun).

  Fixpoint lookup (op l r : string) (t : list (string * string * string * resfun)) : option resfun :=
    match t with
    | [] => None
    | (o, a, b, f) :: t' => if (String.eqb o op && String.eqb a l && String.eqb b r)%bool then Some f else lookup op l r t'
    end.

  (* apply_binary_operation on two core-typed operands *)
  Definition tifa_binop (op : string) (a b : core) : ptype :=
    match lookup op (class_name a) (class_name b) table with
    | None => PImpossible
    | Some f =>
        match f with
        | RNum => PNum | RFloat => PFloat | RInt => PInt | RStr => PStr | RBool => PBool
        | RLeft => ptype_of_core a | RRight => ptype_of_core b
        | RTupleConcat => PTuple
        | RContainer => ptype_of_core a       (* left.clone() or right.clone(): same container kind here *)
        end
    end.
End Table.

(* CPython: the possible core result types of  a <op> b ; [] = TypeError for every pair of values of those types *)
Definition num (c : core) : bool := match c with CInt | CFloat => true | _ => false end.
Definition cpy_binop (op : string) (a b : core) : list core :=
  let both_num := (num a && num b)%bool in
  let any_float := (core_eqb a CFloat || core_eqb b CFloat)%bool in
  if String.eqb op "Add" then
    if both_num then [if any_float then CFloat else CInt]
    else if core_eqb a b then match a with CStr | CList | CTuple => [a] | _ => [] end else []
  else if (String.eqb op "Sub")%bool then
    if both_num then [if any_float then CFloat else CInt] else []
  else if String.eqb op "Mult" then
    if both_num then [if any_float then CFloat else CInt]
    else match a, b with
         | CInt, (CStr | CList | CTuple) => [b]
         | (CStr | CList | CTuple), CInt => [a]
         | _, _ => [] end
  else if String.eqb op "Div" then if both_num then [CFloat] else []
  else if (String.eqb op "FloorDiv" || String.eqb op "Mod")%bool then
    if both_num then [if any_float then CFloat else CInt]
    else if (String.eqb op "Mod" && core_eqb a CStr)%bool then [CStr]   (* old-style formatting: may also raise *)
    else []
  else if String.eqb op "Pow" then
    if both_num then (if any_float then [CFloat] else [CInt; CFloat])   (* 2 ** -1 is a float *)
    else []
  else (* shifts and bitwise *)
    match a, b with CInt, CInt => [CInt] | _, _ => [] end.

(* pairs for which CPython raises TypeError whatever the values *)
Definition cpy_raises (op : string) (a b : core) : bool := match cpy_binop op a b with [] => true | _ => false end.

(* ------------------------------------------------------------------ comparisons *)
(* what Type.allows_membership of a class returns (shapes recognised by the translator) *)
Inductive mkind := MNever | MAlways | MSubStr | MElem | MElems | MKeys.

Definition cmpops := ["Lt"; "LtE"; "Gt"; "GtE"; "Eq"; "NotEq"; "Is"; "IsNot"; "In"; "NotIn"].
Definition mem (x : string) (l : list string) : bool := existsb (String.eqb x) l.

(* CPython: a comparison raises TypeError for EVERY pair of values of these operand types *)
Definition cpy_cmp_raises (op : string) (a b : core) : bool :=
  if mem op ["Eq"; "NotEq"; "Is"; "IsNot"] then false
  else if mem op ["Lt"; "LtE"; "Gt"; "GtE"] then negb ((num a && num b) || core_eqb a b)
  else if mem op ["In"; "NotIn"] then
    match b with CInt | CFloat => true | CStr => negb (core_eqb a CStr) | CList | CTuple => false end
  else false.

(* the pedal classes a variable holding a core value can be typed with (a literal keeps its Literal-prefixed class) *)
Definition reps (c : core) : list string :=
  match c with
  | CInt => ["IntType"; "LiteralInt"] | CFloat => ["FloatType"; "LiteralFloat"] | CStr => ["StrType"; "LiteralStr"]
  | CList => ["ListType"] | CTuple => ["TupleType"]
  end.
