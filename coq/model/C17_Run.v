(* C17: checker for the correspondence run (default marker pattern). *)
From Coq Require Import ZArith List Bool.
Import ListNotations.
From Pedal Require Import lib.PyStr model.C17_Sections.
Open Scope Z_scope.

Fixpoint str_eqb (a b : str) : bool :=
  match a, b with
  | [], [] => true
  | x :: a', y :: b' => Z.eqb x y && str_eqb a' b'
  | _, _ => false
  end.
Fixpoint strs_eqb (a b : list str) : bool :=
  match a, b with
  | [], [] => true
  | x :: a', y :: b' => str_eqb x y && strs_eqb a' b'
  | _, _ => false
  end.

Definition obs := (str * Z * Z * Z)%type.   (* main code, stack depth, line offset, #not_enough_sections *)

Definition obs_ok (s : sst) (o : obs) : bool :=
  let '(m, d, off, ne) := o in
  str_eqb (main s) m && Z.eqb (Z.of_nat (length (stack s))) d && Z.eqb (line_offset s) off
  && Z.eqb (Z.of_nat (not_enough s)) ne.

Fixpoint check_from (s : sst) (ops : list sop) (os : list obs) : bool :=
  match ops, os with
  | [], [] => true
  | o :: ops', x :: os' =>
      match sstep default_marker s o with
      | Some s' => obs_ok s' x && check_from s' ops' os'
      | None => false
      end
  | _, _ => false
  end.

(* (file, operations, observation after each, sections stored by separate_into_sections) *)
Definition check_sections (c : str * list sop * list obs * list str) : bool :=
  let '(t, ops, os, secs) := c in
  check_from (sinit t) ops os && strs_eqb (split_sections default_marker t) secs.
