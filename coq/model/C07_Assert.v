(* C07 model: the condition of an assertion as a formula over atomic relations, the wrapper that turns a condition
   outcome into pass/fail, and what "silent exactly when the relation holds" means. *)
From Coq Require Import List String Bool.
Import ListNotations.
Open Scope string_scope.

Inductive formula :=
| FErr                       (* errors(left, right): an operand is itself an error *)
| FAtom (rel : string)       (* an atomic Python relation on the (unwrapped) operands *)
| FNot (f : formula)
| FOr (f g : formula).

(* the outcome of evaluating an atom on concrete operands *)
Inductive ev := ETrue | EFalse | ERaise.

Section Sem.
  Variable atom : string -> ev.        (* ANY interpretation of the atoms: the relation may raise *)
  Variable operand_error : bool.       (* an operand is an error value *)

  (* Python evaluation with short-circuit `or`; raising propagates *)
  Fixpoint eval (f : formula) : ev :=
    match f with
    | FErr => if operand_error then ETrue else EFalse
    | FAtom r => atom r
    | FNot g => match eval g with ETrue => EFalse | EFalse => ETrue | ERaise => ERaise end
    | FOr a b => match eval a with ETrue => ETrue | EFalse => eval b | ERaise => ERaise end
    end.

  (* RuntimeAssertionFeedback: an error operand fails the assertion without evaluating the condition; a condition
     that raises fails it; otherwise the assertion fires iff the condition is true *)
  Definition fires (cond : formula) : bool :=
    if operand_error then true
    else match eval cond with ETrue => true | EFalse => false | ERaise => true end.
  Definition silent (cond : formula) : bool := negb (fires cond).
End Sem.

Fixpoint lookup {A} (n : string) (l : list (string * A)) : option A :=
  match l with [] => None | (m, x) :: l' => if String.eqb n m then Some x else lookup n l' end.

(* syntactic normal form: strip a leading  errors(..) or  and double negations *)
Fixpoint strip (f : formula) : formula :=
  match f with
  | FOr FErr g => strip g
  | FNot (FNot g) => strip g
  | _ => f
  end.

(* the condition of assertion [n] is (errors or) NOT atom when the assertion is positive, (errors or) atom when negated *)
Definition condition_matches (conds : list (string * formula)) (docs : list (string * (string * bool))) (n : string) : bool :=
  match lookup n conds, lookup n docs with
  | Some c, Some (a, pos) =>
      match strip c, pos with
      | FNot (FAtom r), true => String.eqb r a
      | FAtom r, false => String.eqb r a
      | _, _ => false
      end
  | _, _ => false
  end.
