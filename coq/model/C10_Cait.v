(* C10 / C11 model: CAIT's stretchy tree matcher (pedal/cait/stretchy_tree_matching.py, ast_map.py, cait_node.py).

   A tree is what CaitNode builds from a Python AST: per node its kind (the ast class name), the field of the
   parent it came from, the list of (field, value-shape) pairs that ast.iter_fields yields, and the children
   (every ast.AST value, lists flattened, in field order).  Node identity (the keys of AstMap.mappings) is the
   preorder index the translator assigns.

   Modelled: find_matches (root trimming), any_node_match, deep_find_match with its Name / BinOp (plus, times) / Expr
   cases, deep_find_match_generic + map_merge (ordered child extension with sibling indices), every
   shallow_match_* function, the symbol tables of AstMap and has_conflicts.  check_meta is the parameter [meta];
   use_previous is None (the find_matches(pattern, code) API).  Not modelled: match_root, diagnosis, the CaitNode
   convenience API, find_expr_sub_matches (check_meta=False at the root). *)
From Coq Require Import List String Bool Arith ZArith Ascii.
Import ListNotations.
Open Scope string_scope.
Open Scope list_scope.

(* ------------------------------------------------------------------ values in fields *)
Inductive prim :=
| PrInt (z : Z)
| PrBool (b : bool)
| PrStr (s : string)
| PrFloat (hex : string)
| PrNone
| PrOther (tag repr : string).   (* bytes, complex, Ellipsis: the type name and the repr of the value *)

(* the (fixed) comparison of shallow_match_main: same type and equal *)
Definition prim_eqb (a b : prim) : bool :=
  match a, b with
  | PrInt x, PrInt y => Z.eqb x y
  | PrBool x, PrBool y => Bool.eqb x y
  | PrStr x, PrStr y => String.eqb x y
  | PrFloat x, PrFloat y => String.eqb x y
  | PrNone, PrNone => true
  | PrOther t x, PrOther u y => String.eqb t u && String.eqb x y
  | _, _ => false
  end.

(* one element of a field value: an AST node (a child), a primitive, or something else (neither is_primitive nor an
   AST, never compared when on the pattern side; no Python literal yields one) *)
Inductive pv := PNode | PPrim (p : prim) | POpaque.

Inductive fval := FvNone | FvOne (v : pv) | FvList (vs : list pv).

Inductive tree := Node (id : nat) (kind : string) (field : string) (flds : list (string * fval)) (kids : list tree).

Definition t_id (t : tree) := match t with Node i _ _ _ _ => i end.
Definition t_kind (t : tree) := match t with Node _ k _ _ _ => k end.
Definition t_field (t : tree) := match t with Node _ _ f _ _ => f end.
Definition t_flds (t : tree) := match t with Node _ _ _ fl _ => fl end.
Definition t_kids (t : tree) := match t with Node _ _ _ _ ks => ks end.
Definition set_field (f : string) (t : tree) := match t with Node i k _ fl ks => Node i k f fl ks end.

Definition NONE_FIELD := "none".

(* ------------------------------------------------------------------ AstMap *)
Inductive tbl := TVar | TFunc | TClass.
Definition tbl_eqb (a b : tbl) : bool :=
  match a, b with TVar, TVar | TFunc, TFunc | TClass, TClass => true | _, _ => false end.

(* a symbol-table entry: table, placeholder, the student identifier bound to it *)
Definition sym := (tbl * string * string)%type.

Record amap := mkMap { pairs : list (nat * nat); syms : list sym; exps : list (string * nat) }.

Definition empty_map := mkMap [] [] [].
Definition pair_map (i s : tree) := mkMap [(t_id i, t_id s)] [] [].
(* new_merged_map / merge_map_with *)
Definition mmerge (a b : amap) := mkMap (pairs a ++ pairs b) (syms a ++ syms b) (exps a ++ exps b).

Definition sym_clash (a b : sym) : bool :=
  let '(t1, k1, v1) := a in let '(t2, k2, v2) := b in
  tbl_eqb t1 t2 && String.eqb k1 k2 && negb (String.eqb v1 v2).

(* has_conflicts: some placeholder of some table is bound to two different identifiers *)
Definition conflictb (m : amap) : bool :=
  existsb (fun a => existsb (fun b => sym_clash a b) (syms m)) (syms m).

(* ------------------------------------------------------------------ placeholders: _name_regex *)
Fixpoint last_char (s : string) : option ascii :=
  match s with
  | EmptyString => None
  | String c EmptyString => Some c
  | String _ r => last_char r
  end.
Definition us : ascii := "_"%char.
Definition is_us (c : ascii) := Ascii.eqb c us.

(* ^_[^_].*_$ *)
Definition is_var (s : string) : bool :=
  match s with
  | String c0 (String c1 r) =>
      is_us c0 && negb (is_us c1) && (match last_char r with Some c => is_us c | None => false end)
  | _ => false
  end.
(* ^__.*__$ *)
Fixpoint ends_us2 (s : string) : bool :=
  match s with
  | String a (String b EmptyString) => is_us a && is_us b
  | String _ r => ends_us2 r
  | EmptyString => false
  end.
Definition is_exp (s : string) : bool :=
  match s with
  | String c0 (String c1 r) => is_us c0 && is_us c1 && ends_us2 r
  | _ => false
  end.
Definition is_wild (s : string) : bool := String.eqb s "___".

Inductive nclass := CVar | CExp | CWild | CPlain.
(* the order of the if / elif chain *)
Definition classify (s : string) : nclass :=
  if is_var s then CVar else if is_exp s then CExp else if is_wild s then CWild else CPlain.

(* ------------------------------------------------------------------ metas_match *)
Definition metas (i s : tree) (meta : bool) : bool :=
  (meta && String.eqb (t_field i) (t_field s)) || negb meta || String.eqb (t_field i) NONE_FIELD.

(* ------------------------------------------------------------------ shallow_match_main *)
Definition as_list (v : fval) : list pv :=
  match v with FvNone => [PPrim PrNone] | FvOne x => [x] | FvList xs => xs end.

Definition is_prim (v : pv) : bool := match v with PPrim _ => true | _ => false end.

Fixpoint zip_ok (iv sv : list pv) : bool :=
  match iv, sv with
  | PPrim p :: iv', PPrim q :: sv' => prim_eqb p q && zip_ok iv' sv'
  | PPrim _ :: _, _ :: _ => false
  | _ :: iv', _ :: sv' => zip_ok iv' sv'
  | _, _ => true
  end.

Definition in_strs (x : string) (l : list string) : bool := existsb (String.eqb x) l.

Definition field_ok (ikind : string) (ignores : list string) (fi fs : string * fval) : bool :=
  let '(ni, vi) := fi in let '(ns, vs) := fs in
  match vi with
  | FvNone => if String.eqb ikind "Constant" && String.eqb ni "value"
              then (in_strs ni ignores) || (String.eqb ni ns && zip_ok (as_list vi) (as_list vs))
              else true
  | _ =>
      if in_strs ni ignores then true
      else String.eqb ni ns &&
           (let iv := as_list vi in let sv := as_list vs in
            (negb (match iv with [] => false | _ => forallb is_prim iv end) || Nat.eqb (List.length iv) (List.length sv))
            && zip_ok iv sv)
  end.

Fixpoint fields_ok (ikind : string) (ignores : list string) (fi fs : list (string * fval)) : bool :=
  match fi, fs with
  | a :: fi', b :: fs' => field_ok ikind ignores a b && fields_ok ikind ignores fi' fs'
  | _, _ => true
  end.

Definition shallow_main (i s : tree) (meta : bool) (ignores : list string) : option amap :=
  if Nat.eqb (List.length (t_flds i)) (List.length (t_flds s)) && String.eqb (t_kind i) (t_kind s) && metas i s meta
     && fields_ok (t_kind i) ignores (t_flds i) (t_flds s)
  then Some (pair_map i s) else None.

(* the value of a string field (id / attr / arg / name) *)
Fixpoint fld_str (n : string) (fl : list (string * fval)) : option string :=
  match fl with
  | [] => None
  | (k, FvOne (PPrim (PrStr v))) :: r => if String.eqb k n then Some v else fld_str n r
  | _ :: r => fld_str n r
  end.

(* ------------------------------------------------------------------ shallow_symbol_handler *)
Definition symbol_handler (i s : tree) (idv : string) (meta : bool) : option amap :=
  match fld_str idv (t_flds i) with
  | None => shallow_main i s meta ["ctx"]
  | Some name =>
      let mm := metas i s meta in
      match classify name with
      | CVar =>
          if mm then
            if String.eqb (t_kind s) "Name" || negb (String.eqb idv "id") then
              match fld_str idv (t_flds s) with
              | Some sid =>
                  let table := if String.eqb (t_field s) "func" && negb (String.eqb (t_field i) NONE_FIELD) then TFunc else TVar in
                  Some (mkMap [(t_id i, t_id s)] [(table, name, sid)] [])
              | None => None
              end
            else shallow_main i s meta ["ctx"]
          else shallow_main i s meta ["ctx"]
      | CExp =>
          if mm && String.eqb idv "id" then Some (mkMap [(t_id i, t_id s)] [] [(name, t_id s)])
          else shallow_main i s meta ["ctx"]
      | CWild =>
          if mm then Some (pair_map i s) else shallow_main i s meta ["ctx"]
      | CPlain => shallow_main i s meta ["ctx"]
      end
  end.

(* shallow_match_xDef *)
Definition xdef (i s : tree) (meta : bool) (ignores : list string) (table : tbl) : option amap :=
  match shallow_main i s meta ignores with
  | None => None
  | Some b =>
      match fld_str "name" (t_flds i), fld_str "name" (t_flds s) with
      | Some ni, Some ns =>
          match classify ni with
          | CVar => Some (mmerge b (mkMap [] [(table, ni, ns)] []))
          | CWild => Some b
          | _ => if String.eqb ni ns then Some b else None
          end
      | _, _ => None
      end
  end.

(* shallow_match: dispatch on the kind of the pattern node *)
Definition shallow (i s : tree) (meta : bool) : option amap :=
  let k := t_kind i in
  if String.eqb k "Module" then
    (if String.eqb (t_kind s) "Module" || String.eqb (t_field s) "body" then Some (pair_map i s) else None)
  else if String.eqb k "Pass" || String.eqb k "Expr" then
    (if metas i s meta then Some (pair_map i s) else None)
  else if String.eqb k "Name" then symbol_handler i s "id" meta
  else if String.eqb k "arg" then symbol_handler i s "arg" meta
  else if String.eqb k "Attribute" then
    (if String.eqb (t_kind s) "Attribute" then
       if String.eqb (t_field i) "func" && negb (String.eqb (t_field s) "func") then shallow_main i s meta []
       else symbol_handler i s "attr" meta
     else shallow_main i s meta [])
  else if String.eqb k "FunctionDef" then xdef i s meta ["name"; "args"] TFunc
  else if String.eqb k "ClassDef" then xdef i s meta ["name"] TClass
  else shallow_main i s meta [].

(* ------------------------------------------------------------------ deep_find_match *)
(* deep_find_match_Expr: an Expr statement whose value is __expr__ or ___ stands for a whole statement *)
Definition expr_hole (i s : tree) (meta : bool) : option (list amap) :=
  if String.eqb (t_kind i) "Expr" then
    if metas i s meta then
      match t_kids i with
      | v :: _ =>
          if String.eqb (t_kind v) "Name" then
            match fld_str "id" (t_flds v) with
            | Some name =>
                if is_exp name then Some [mkMap [(t_id i, t_id s)] [] [(name, t_id s)]]
                else if is_wild name then Some [pair_map i s]
                else None
            | None => None
            end
          else None
      | [] => None
      end
    else Some []
  else None.

(* deep_find_match_BinOp: + and * are matched with their operands in either order *)
Definition is_flex (i : tree) : bool :=
  String.eqb (t_kind i) "BinOp" &&
  match t_kids i with
  | [_; op; _] => String.eqb (t_kind op) "Add" || String.eqb (t_kind op) "Mult"
  | _ => false
  end.

(* binflex_helper *)
Definition flex_pairs (base : amap) (ls rs : list amap) : list amap :=
  flat_map (fun l => flat_map (fun r => let both := mmerge (mmerge base l) r in
                                        if conflictb both then [] else [both]) rs) ls.

(* candidates of one pattern child among the student children from index [young] on *)
Fixpoint cands_from (f : tree -> list amap) (sk : list tree) (idx young : nat) : list (nat * list amap) :=
  match sk with
  | [] => []
  | sc :: r =>
      let rest := cands_from f r (S idx) young in
      if Nat.leb young idx then
        match f sc with [] => rest | ms => (idx, ms) :: rest end
      else rest
  end.

(* map_merge: every base map (with the lowest index [lo] its next child may take) extended by every candidate at
   an index >= lo that merges without conflict *)
Definition merge_step (bases : list (amap * nat)) (cands : list (nat * list amap)) : list (amap * nat) :=
  flat_map (fun b : amap * nat =>
    flat_map (fun c : nat * list amap =>
      if Nat.leb (snd b) (fst c) then
        flat_map (fun m => let nm := mmerge (fst b) m in
                           if conflictb nm then [] else [(nm, S (fst c))]) (snd c)
      else []) cands) bases.

Definition ignored_kid (ikind : string) (c : tree) : bool :=
  String.eqb ikind "Name" && String.eqb (t_field c) "ctx".

Fixpoint deep (i s : tree) (meta : bool) {struct i} : list amap :=
  match expr_hole i s meta with
  | Some r => r
  | None =>
      match i with
      | Node iid ikind ifield iflds ikids =>
          if is_flex i then
            match shallow i s meta with
            | None => []
            | Some b =>
                match ikids, t_kids s with
                | [il; iop; ir], [sl; sop; sr] =>
                    match shallow iop sop true with
                    | None => []
                    | Some o =>
                        let base := mmerge b o in
                        flex_pairs base (deep il sl false) (deep ir sr false) ++
                        flex_pairs base (deep il sr false) (deep ir sl false)
                    end
                | _, _ => []
                end
            end
          else
            match shallow i s meta with
            | None => []
            | Some b =>
                (fix loop (ics : list tree) (bases : list (amap * nat)) (young : nat) {struct ics} : list amap :=
                   match ics with
                   | [] => map fst bases
                   | ic :: rest =>
                       if ignored_kid ikind ic then loop rest bases young
                       else
                         match cands_from (fun sc => deep ic sc meta) (t_kids s) 0 young with
                         | [] => []
                         | (j0, ms0) :: cs =>
                             match merge_step bases ((j0, ms0) :: cs) with
                             | [] => []
                             | nb => loop rest nb (S j0)
                             end
                         end
                   end) ikids [(b, 0)] 0
            end
      end
  end.

(* any_node_match: the pattern root against every node of the student tree, in preorder *)
Fixpoint any_match (f : tree -> list amap) (s : tree) {struct s} : list amap :=
  match s with
  | Node _ _ _ _ sk => f s ++ flat_map (any_match f) sk
  end.

(* root trimming of find_matches: skip Module / Expr wrappers with a single child; the root's field becomes "none" *)
Fixpoint trim (t : tree) : tree :=
  match t with
  | Node _ k _ _ [c] => if String.eqb k "Expr" || String.eqb k "Module" then trim c else t
  | _ => t
  end.
Definition trim_root (t : tree) : tree := set_field NONE_FIELD (trim t).

Definition find_matches (pattern student : tree) : list amap :=
  any_match (fun s => deep (trim_root pattern) s true) (trim_root student).
