(* C07 model: pedal/utilities/comparisons.py equality_test / _are_sequences_equal / _set_contains / _are_sets_equal -
   what assert_equal / assert_not_equal decide.
   Values: scalars (int, bool, float incl. NaN, str, bytes, None), lists, tuples, sets and frozensets of scalars, dicts with scalar
   keys.  A str (and likewise a bytes object) is represented by two identifiers given by the harness: [ex] identifies the exact text, [nm] identifies its
   normal form (_normalize_string: case, punctuation and blank space removed) - the normaliser itself is not modelled.
   Floats are exact rationals (the decimal literals of the harness). *)
From Coq Require Import ZArith QArith Qabs List Bool Arith.
Import ListNotations.

Inductive scalar := SInt (z : Z) | SBool (b : bool) | SFloat (q : Q) | SNaN | SStr (ex nm : nat) | SBytes (ex nm : nat) | SNone.

Inductive val :=
| Sc (s : scalar)
| VList (l : list val)
| VTuple (l : list val)
| VSet (l : list scalar)
| VFrozen (l : list scalar)
| VDict (l : list (scalar * val)).

(* ------------------------------------------------------------------ scalars *)
Definition is_floaty (s : scalar) : bool := match s with SFloat _ | SNaN => true | _ => false end.
(* isinstance(x, (float, int)): bool is a subclass of int *)
Definition is_real (s : scalar) : bool := match s with SInt _ | SBool _ | SFloat _ | SNaN => true | _ => false end.
Definition qof (s : scalar) : option Q :=
  match s with
  | SInt z => Some (inject_Z z)
  | SBool b => Some (if b then 1 else 0)
  | SFloat q => Some q
  | _ => None
  end.

(* Python's == on scalars *)
Definition speq (a e : scalar) : bool :=
  match a, e with
  | SStr xa _, SStr xe _ => Nat.eqb xa xe
  | SBytes xa _, SBytes xe _ => Nat.eqb xa xe      (* a bytes object never equals a str *)
  | SNone, SNone => true
  | _, _ => match qof a, qof e with Some x, Some y => Qeq_bool x y | _, _ => false end
  end.

(* equality_test(actual := a, expected := e) on scalars *)
Definition sc_eq (exact : bool) (delta : Q) (a e : scalar) : bool :=
  if (is_floaty e && is_real a) || (is_floaty a && is_real e) then
    (* abs(expected - actual) < delta ; any comparison with NaN is false *)
    match qof a, qof e with
    | Some x, Some y => negb (Qle_bool delta (Qabs (y - x)))
    | _, _ => false
    end
  else
    match a, e with
    | SStr xa na, SStr xe ne => if exact then Nat.eqb xa xe else Nat.eqb na ne
    | SBytes xa na, SBytes xe ne => if exact then Nat.eqb xa xe else Nat.eqb na ne
    | _, _ => speq a e      (* ints / bools by value, None; everything else differs *)
    end.

(* ------------------------------------------------------------------ sets of scalars *)
(* _set_contains(needle, haystack): equality_test(element, needle) for some element *)
Definition contains (R : scalar -> scalar -> bool) (needle : scalar) (hay : list scalar) : bool :=
  existsb (fun el => R el needle) hay.
(* _are_sets_equal(x, y), with the check in both directions *)
Definition sets_eq (R : scalar -> scalar -> bool) (x y : list scalar) : bool :=
  Nat.eqb (length x) (length y) && forallb (fun a => contains R a y) x && forallb (fun b => contains R b x) y.

Fixpoint lookup (k : scalar) (d : list (scalar * val)) : option val :=
  match d with
  | [] => None
  | (k', v) :: d' => if speq k' k then Some v else lookup k d'
  end.

(* ------------------------------------------------------------------ Python's == on values *)
Fixpoint py_eq (a e : val) {struct a} : bool :=
  match a, e with
  | Sc x, Sc y => speq x y
  | VList la, VList le | VTuple la, VTuple le =>
      (fix go (la le : list val) : bool :=
         match la, le with
         | [], [] => true
         | x :: la', y :: le' => py_eq x y && go la' le'
         | _, _ => false
         end) la le
  | (VSet x | VFrozen x), (VSet y | VFrozen y) => sets_eq speq x y
  | VDict da, VDict de =>
      Nat.eqb (length da) (length de) &&
      (fix go (da : list (scalar * val)) : bool :=
         match da with
         | [] => true
         | (k, v) :: da' => match lookup k de with Some v' => py_eq v v' | None => false end && go da'
         end) da
  | _, _ => false
  end.

(* ------------------------------------------------------------------ equality_test on values
   [eqt flip a e] is  equality_test(a, e)  when flip = false and  equality_test(e, a)  when flip = true  (the dict branch of the
   code compares expected[key] with actual[key] in swapped roles) *)
Definition sc_eq' (flip exact : bool) (delta : Q) (a e : scalar) : bool :=
  if flip then sc_eq exact delta e a else sc_eq exact delta a e.
Definition sets_eq' (flip : bool) (R : scalar -> scalar -> bool) (x y : list scalar) : bool :=
  if flip then sets_eq R y x else sets_eq R x y.

Fixpoint eqt (flip exact : bool) (delta : Q) (a e : val) {struct a} : bool :=
  match a, e with
  | Sc x, Sc y => sc_eq' flip exact delta x y
  | VList la, VList le | VTuple la, VTuple le =>
      (if flip then py_eq e a else py_eq a e) ||
      (fix go (la le : list val) : bool :=
         match la, le with
         | [], [] => true
         | x :: la', y :: le' => eqt flip exact delta x y && go la' le'
         | _, _ => false
         end) la le
  | VSet x, VSet y | VFrozen x, VFrozen y =>
      (if flip then py_eq e a else py_eq a e) || sets_eq' flip (sc_eq exact delta) x y
  | VSet x, VFrozen y | VFrozen x, VSet y => if flip then py_eq e a else py_eq a e
  | VDict da, VDict de =>
      (if flip then py_eq e a else py_eq a e) ||
      (* keys: _are_sets_equal(expected keys, actual keys); then for every key of EXPECTED:
         equality_test(expected[key], actual[key]) - roles swapped; a key of expected that actual only has a near-equal partner for fails the comparison *)
      if flip
      then (* a is the expected dict, e the actual one *)
        sets_eq (sc_eq exact delta) (map fst da) (map fst de) &&
        (fix go (da : list (scalar * val)) : bool :=
           match da with
           | [] => true
           | (k, v) :: da' => match lookup k de with Some v' => eqt false exact delta v v' | None => false end && go da'
           end) da
      else (* e is the expected dict: for every key of e, the partner is looked up in a *)
        sets_eq (sc_eq exact delta) (map fst de) (map fst da) &&
        forallb (fun kv' =>
                   (fix find (da : list (scalar * val)) : bool :=
                      match da with
                      | [] => false
                      | (k, v) :: da' => if speq k (fst kv') then eqt true exact delta v (snd kv') else find da'
                      end) da) de
  | _, _ => false
  end.

Definition equality_test (exact : bool) (delta : Q) (actual expected : val) : bool := eqt false exact delta actual expected.
