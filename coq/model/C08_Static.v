(* C08 model: static ensure_*/prevent_* checks over the student's syntax tree.

   A program is a rose tree of Python AST nodes; every child carries the name
   of the field it sits in (so `compare.ops`, `call.func` are expressible).
   Hand model of: CaitNode.find_all, find_operation, find_function_calls,
   has_import and the ensure/prevent conditions of pedal/assertions/static.py.
   The four operator tables and the two `_check_usage` bodies are NOT written
   here: they are regenerated from the source (gen/C08_Gen.v). *)
From Coq Require Import ZArith List String Bool.
Import ListNotations.
From Pedal Require Import lib.PyMini lib.Assoc.
Open Scope string_scope.

(* payload of a node: what the static checks read besides kind/children *)
Inductive lit :=
| LNone
| LBool (b : bool)
| LInt (z : Z)
| LFloat (repr : string)   (* floats are compared by their repr text *)
| LStr (s : list Z)        (* code points *)
| LOther.                  (* bytes, complex, Ellipsis *)

Inductive node :=
| Node (kind : string) (uid : Z) (line : Z) (name : option string) (c : lit) (kids : list (string * node)).
(* uid: position of the node in document order (identity, used by the correspondence run) *)
(* name: Name.id / Attribute.attr / alias.name / ImportFrom.module / FunctionDef.name *)

Definition kind_of (n : node) := let 'Node k _ _ _ _ _ := n in k.
Definition uid_of (n : node) := let 'Node _ u _ _ _ _ := n in u.
Definition line_of (n : node) := let 'Node _ _ l _ _ _ := n in l.
Definition name_of (n : node) := let 'Node _ _ _ x _ _ := n in x.
Definition lit_of (n : node) := let 'Node _ _ _ _ c _ := n in c.
Definition kids_of (n : node) := let 'Node _ _ _ _ _ ks := n in ks.

Definition field (f : string) (n : node) : list node :=
  map snd (filter (fun p => String.eqb (fst p) f) (kids_of n)).

(* document order = order of ast.NodeVisitor.generic_visit = ast.iter_child_nodes *)
Fixpoint preorder (n : node) : list node :=
  let 'Node _ _ _ _ _ ks := n in
  n :: flat_map (fun p => preorder (snd p)) ks.

(* CaitNode.find_all: visit_<kind> collects; 'Num'/'Str'/'Bool' are views of Constant *)
Definition is_kind (k : string) (n : node) : bool :=
  if String.eqb k "Num" then
    String.eqb (kind_of n) "Constant" &&
    match lit_of n with LInt _ | LFloat _ => true | _ => false end
  else if String.eqb k "Str" then
    String.eqb (kind_of n) "Constant" &&
    match lit_of n with LStr _ => true | _ => false end
  else if String.eqb k "Bool" then
    String.eqb (kind_of n) "Constant" &&
    match lit_of n with LBool _ => true | _ => false end
  else String.eqb (kind_of n) k.

Definition find_all (k : string) (t : node) : list node := filter (is_kind k) (preorder t).


Definition op_name (n : node) : string :=
  match field "op" n with o :: _ => kind_of o | [] => "" end.

Section WithTables.
  Variables cmp_tbl bool_tbl bin_tbl un_tbl : list (string * string).

  (* pedal/cait/find_node.py::find_operation *)
  Definition find_operation (sym : string) (t : node) : list node :=
    match assoc sym cmp_tbl with
    | Some cls =>
        flat_map (fun c => flat_map (fun o => if String.eqb (kind_of o) cls then [c] else [])
                                    (field "ops" c))
                 (find_all "Compare" t)
    | None =>
      match assoc sym bool_tbl with
      | Some cls => filter (fun b => String.eqb (op_name b) cls) (find_all "BoolOp" t)
      | None =>
        match assoc sym bin_tbl with
        | Some cls => filter (fun b => String.eqb (op_name b) cls) (find_all "BinOp" t)
        | None =>
          match assoc sym un_tbl with
          | Some cls => filter (fun b => String.eqb (op_name b) cls) (find_all "UnaryOp" t)
          | None => []
          end
        end
      end
    end.
End WithTables.

(* find_function_calls *)
Definition call_matches (name : string) (c : node) : bool :=
  match field "func" c with
  | f :: _ =>
      (String.eqb (kind_of f) "Attribute" || String.eqb (kind_of f) "Name") &&
      match name_of f with Some x => String.eqb x name | None => false end
  | [] => false
  end.

Definition find_function_calls (name : string) (t : node) : list node :=
  filter (call_matches name) (find_all "Call" t).

(* has_import *)
Definition has_import (name : string) (t : node) : bool :=
  existsb (fun i => existsb (fun a => match name_of a with Some x => String.eqb x name | None => false end)
                            (field "names" i))
          (find_all "Import" t)
  || existsb (fun i => match name_of i with Some x => String.eqb x name | None => false end)
             (find_all "ImportFrom" t).

(* ---- specification side: what a plain walk of Python's syntax tree finds ---- *)

(* CPython's own symbol -> AST class table (validated against the live `ast`
   module by the correspondence run on every check). *)
Definition cpy_compare : list (string * string) :=
  [("==","Eq"); ("<","Lt"); ("<=","LtE"); (">=","GtE"); (">","Gt"); ("!=","NotEq");
   ("is","Is"); ("is not","IsNot"); ("in","In"); ("not in","NotIn")].
Definition cpy_boolop : list (string * string) := [("and","And"); ("or","Or")].
Definition cpy_binop : list (string * string) :=
  [("+","Add"); ("-","Sub"); ("*","Mult"); ("/","Div"); ("//","FloorDiv"); ("%","Mod"); ("**","Pow");
   (">>","RShift"); ("<<","LShift"); ("|","BitOr"); ("^","BitXor"); ("&","BitAnd"); ("@","MatMult")].
Definition cpy_unaryop : list (string * string) := [("not","Not"); ("~","Invert")].

(* The walk-based count: operator nodes of class [cls] sitting in field [f] of a
   node of kind [owner], anywhere in the tree. *)
Definition walk_count_op (owner f cls : string) (t : node) : nat :=
  List.length (filter (fun o => String.eqb (kind_of o) cls)
                 (flat_map (field f) (filter (fun n => String.eqb (kind_of n) owner) (preorder t)))).

Definition spec_count (sym : string) (t : node) : nat :=
  match assoc sym cpy_compare with
  | Some cls => walk_count_op "Compare" "ops" cls t
  | None =>
    match assoc sym cpy_boolop with
    | Some cls => walk_count_op "BoolOp" "op" cls t
    | None =>
      match assoc sym cpy_binop with
      | Some cls => walk_count_op "BinOp" "op" cls t
      | None =>
        match assoc sym cpy_unaryop with
        | Some cls => walk_count_op "UnaryOp" "op" cls t
        | None => 0%nat
        end
      end
    end
  end.

(* every node built by Python's parser has exactly one `op` child in these kinds *)
Definition one_op (n : node) : bool :=
  if String.eqb (kind_of n) "BoolOp" || String.eqb (kind_of n) "BinOp" || String.eqb (kind_of n) "UnaryOp"
  then match field "op" n with [_] => true | _ => false end
  else true.
Definition wf_tree (t : node) : bool := forallb one_op (preorder t).
