(* C06: model of _make_temporary vs the implementation. *)
From Coq Require Import List String Bool Arith.
Import ListNotations.
From Pedal Require Import model.C06_Namespace gen.C06_Gen.
Open Scope string_scope.

Definition how_eqb (a b : how) : bool :=
  match a, b with ByName, ByName | BySource, BySource | ByTemporary, ByTemporary => true | _, _ => false end.

(* (is SandboxVariable, len(repr), repr is a literal, what the implementation did) *)
Definition check_marshal (c : bool * nat * bool * how) : bool :=
  let '(v, n, lit, h) := c in how_eqb (marshal (mkArg v n lit)) h.

(* (name, bound differently from the plain interpreter?) *)
Definition check_ns (c : string * bool) : bool :=
  let '(n, changed) := c in
  Bool.eqb (match sandbox_ns gen_overrides n with Builtin _ => false | _ => true end) changed.
