(* C15 model: the sandbox's output / input bookkeeping across a history of operations.
   pedal/sandbox/sandbox.py: _start_mocking/_stop_mocking, append_output, clear_output,
   set_input / queue_input / clear_input, _track_inputs;  pedal/sandbox/data.py SandboxContext. *)
From Coq Require Import ZArith List Bool.
Import ListNotations.
From Pedal Require Import lib.PyStr.
Open Scope Z_scope.

(* what student code does during one execution, as seen by the I/O layer *)
Inductive event :=
| Write (s : str)            (* anything written to sys.stdout: print in any form, sys.stdout.write *)
| Input (prompt : str).      (* a call of input(prompt) *)

Inductive op :=
| Exec (inputs : option (list str)) (evs : list event)   (* run/call/evaluate, optionally with inputs=... *)
| ClearOutput
| SetInput (xs : list str)      (* set_input(xs)  (clear=True) *)
| QueueInput (xs : list str)    (* queue_input(xs...) = set_input(xs, clear=False) *)
| ClearInput
| ClearContext.                  (* clear_context(): the history of executions is forgotten (ids restart at 0) *)

Record ctx := mkCtx { c_output : str; c_inputs : list str }.

Record st := mkSt {
  raw : str;               (* sandbox.raw_output *)
  out : list str;          (* sandbox.output (line view) *)
  inputs : list str;       (* sandbox.inputs (queue) *)
  ctxs : list ctx          (* sandbox._context, oldest first *)
}.

Definition init : st := mkSt [] [] [] [].

Definition ZERO : str := [48].   (* the default input "0" *)

(* one execution: text written, values input() returned, queue left *)
Fixpoint run_events (evs : list event) (q : list str) : str * list str * list str :=
  match evs with
  | [] => ([], [], q)
  | Write s :: evs' => let '(t, vs, q') := run_events evs' q in (s ++ t, vs, q')
  | Input p :: evs' =>
      (* the tracker echoes the prompt with print() and pops the queue, or returns '0' *)
      let '(v, q1) := match q with x :: q1 => (x, q1) | [] => (ZERO, []) end in
      let '(t, vs, q') := run_events evs' q1 in
      (p ++ NL :: t, v :: vs, q')
  end.

(* append_output(raw_output, context)   [with the guard on THIS execution's text] *)
Definition append_output (s : st) (text : str) (vs : list str) (q : list str) : st :=
  mkSt (raw s ++ text)
       (match text with [] => out s | _ => out s ++ lines_of text end)
       q
       (ctxs s ++ [mkCtx text vs]).

Definition step (s : st) (o : op) : st :=
  match o with
  | Exec ins evs =>
      let q0 := match ins with Some xs => xs | None => inputs s end in
      let '(text, vs, q') := run_events evs q0 in
      append_output s text vs q'
  | ClearOutput => mkSt [] [] (inputs s) (ctxs s)
  | SetInput xs => mkSt (raw s) (out s) xs (ctxs s)
  | QueueInput xs => mkSt (raw s) (out s) (inputs s ++ xs) (ctxs s)
  | ClearInput => mkSt (raw s) (out s) [] (ctxs s)
  | ClearContext => mkSt (raw s) (out s) (inputs s) []
  end.

Definition run (ops : list op) : st := fold_left step ops init.

(* ---------------- specification side (independent of the state machine) ---------------- *)

(* the text an execution writes: concatenation of its writes and echoed prompts, in order *)
Fixpoint text_of (evs : list event) : str :=
  match evs with
  | [] => []
  | Write s :: evs' => s ++ text_of evs'
  | Input p :: evs' => p ++ NL :: text_of evs'
  end.

Fixpoint n_inputs (evs : list event) : nat :=
  match evs with
  | [] => O
  | Write _ :: evs' => n_inputs evs'
  | Input _ :: evs' => S (n_inputs evs')
  end.

(* texts of the executions since the last clear_output, in order *)
Fixpoint texts_since_clear (ops : list op) (acc : list str) : list str :=
  match ops with
  | [] => acc
  | Exec _ evs :: ops' => texts_since_clear ops' (acc ++ [text_of evs])
  | ClearOutput :: ops' => texts_since_clear ops' []
  | _ :: ops' => texts_since_clear ops' acc
  end.

Definition view_of (texts : list str) : list str :=
  flat_map (fun t => match t with [] => [] | _ => lines_of t end) texts.

(* FIFO with default: first k of the queue then "0"s *)
Fixpoint take_default (k : nat) (q : list str) : list str :=
  match k with
  | O => []
  | S k' => match q with x :: q' => x :: take_default k' q' | [] => ZERO :: take_default k' [] end
  end.
