(* C06 model: (1) the namespace student code runs in, built from the overrides regenerated from
   Sandbox.reset_default_overrides; (2) how call() hands a Python value to student code. *)
From Coq Require Import List String Bool Arith.
Import ListNotations.
Open Scope string_scope.

(* ---- namespace ---- *)
Inductive binding := Builtin (name : string) | Blocked (name : string) | Mocked (name : string).

Definition mem (x : string) (l : list string) : bool := existsb (String.eqb x) l.

Section NS.
  Variable overrides : list (string * string).     (* (method, name) in call order *)

  Definition blocked_functions : list string :=
    map snd (filter (fun p => String.eqb (fst p) "block_function") overrides).
  Definition mocked_functions : list string :=
    map snd (filter (fun p => String.eqb (fst p) "mock_function") overrides) ++ ["input"].   (* input: _start_mocking *)
  Definition changed_modules : list string :=
    map snd (filter (fun p => String.eqb (fst p) "block_module" || String.eqb (fst p) "mock_module") overrides).

  (* what the name n is bound to in the student's builtins *)
  Definition sandbox_ns (n : string) : binding :=
    if mem n blocked_functions then Blocked n
    else if mem n mocked_functions then Mocked n
    else Builtin n.
  Definition plain_ns (n : string) : binding := Builtin n.
End NS.

(* the documented set of names that differ from a plain interpreter *)
Definition documented_changed : list string := ["compile"; "eval"; "exec"; "globals"; "exit"; "open"; "__import__"; "input"].
Definition documented_modules : list string := ["pedal"; "turtle"; "matplotlib.pyplot"; "designer"; "drafter"; "microbit"].

(* ---- argument marshalling (Sandbox._make_temporary) ---- *)
Inductive how := ByName | BySource | ByTemporary.

Record arg := mkArg {
  is_sandbox_variable : bool;     (* a SandboxVariable: passed by its name *)
  repr_len : nat;                 (* len(repr(value)) *)
  repr_is_literal : bool          (* ast.literal_eval(repr(value)) succeeds *)
}.

Definition MAXIMUM_TEMPORARY_LENGTH := 200.

Definition marshal (a : arg) : how :=
  if is_sandbox_variable a then ByName
  else if (Nat.leb (repr_len a) MAXIMUM_TEMPORARY_LENGTH && repr_is_literal a)%bool then BySource
  else ByTemporary.

(* the value the student's parameter is bound to equals the argument:
   by name / by temporary the object itself is bound; by source text the value is rebuilt by evaluating repr *)
Definition binds_equal (roundtrips : bool) (a : arg) : bool :=
  match marshal a with
  | ByName | ByTemporary => true
  | BySource => roundtrips
  end.
