(* C16 model: CPython's binary-operator dispatch at slot level, with the result proxy as one more type whose slots are
   given by the SHAPES of its dunder methods (regenerated from pedal/sandbox/result.py). *)
From Coq Require Import List String Bool Arith.
Import ListNotations.
Open Scope string_scope.

Inductive bop := Add | Sub | Mul | MatMul | TrueDiv | FloorDiv | Mod | DivMod | Pow | LShift | RShift | And | Xor | Or.
Inductive cop := Eq | Ne | Lt | Le | Gt | Ge.

(* what the body of a dunder of the proxy does *)
Inductive shape :=
| SBinL (o : bop) (cloned : bool)      (* clone?( self.value OP unwrap(other) ) *)
| SBinR (o : bop) (cloned : bool)      (* clone?( unwrap(other) OP self.value ) *)
| SCmp (o : cop)                       (* self.value OP other(.value) *)
| SUnary (o : string) (cloned : bool)
| SCall (f : string) (cloned : bool)   (* clone?( f(self.value, ...) ) *)
| SContains
| SIndex (cloned : bool)
| SMissing.

Definition bop_eqb (a b : bop) : bool :=
  match a, b with
  | Add, Add | Sub, Sub | Mul, Mul | MatMul, MatMul | TrueDiv, TrueDiv | FloorDiv, FloorDiv | Mod, Mod | DivMod, DivMod
  | Pow, Pow | LShift, LShift | RShift, RShift | And, And | Xor, Xor | Or, Or => true
  | _, _ => false
  end.

Definition all_bops := [Add; Sub; Mul; MatMul; TrueDiv; FloorDiv; Mod; DivMod; Pow; LShift; RShift; And; Xor; Or].
Definition fwd_name (o : bop) : string :=
  match o with Add => "__add__" | Sub => "__sub__" | Mul => "__mul__" | MatMul => "__matmul__" | TrueDiv => "__truediv__"
  | FloorDiv => "__floordiv__" | Mod => "__mod__" | DivMod => "__divmod__" | Pow => "__pow__" | LShift => "__lshift__"
  | RShift => "__rshift__" | And => "__and__" | Xor => "__xor__" | Or => "__or__" end.
Definition rev_name (o : bop) : string :=
  match o with Add => "__radd__" | Sub => "__rsub__" | Mul => "__rmul__" | MatMul => "__rmatmul__" | TrueDiv => "__rtruediv__"
  | FloorDiv => "__rfloordiv__" | Mod => "__rmod__" | DivMod => "__rdivmod__" | Pow => "__rpow__" | LShift => "__rlshift__"
  | RShift => "__rrshift__" | And => "__rand__" | Xor => "__rxor__" | Or => "__ror__" end.

Fixpoint find_shape (n : string) (l : list (string * shape)) : shape :=
  match l with [] => SMissing | (m, s) :: l' => if String.eqb n m then s else find_shape n l' end.

(* the finite requirement on the regenerated table: every operator has its forward and its reflected method, each
   applying the plain operator to the real values in the right order and wrapping the result *)
Definition shapes_ok (tbl : list (string * shape)) : bool :=
  forallb (fun o =>
    match find_shape (fwd_name o) tbl, find_shape (rev_name o) tbl with
    | SBinL o1 true, SBinR o2 true => bop_eqb o1 o && bop_eqb o2 o
    | _, _ => false
    end) all_bops.

Section Dispatch.
  Variable val : Type.                      (* real (non-proxy) values *)
  Variable ty : val -> nat.                 (* the type of a real value *)

  Inductive xval := Real (v : val) | Proxy (v : val).
  Definition unwrap (x : xval) : val := match x with Real v | Proxy v => v end.

  Inductive res := RVal (v : xval) | RNotImpl | RRaise.

  (* number slots of the REAL types; they may be handed a proxy as the other operand *)
  Variable nb : nat -> bop -> option (xval -> xval -> res).
  (* sequence fallbacks of real types (sq_concat for +, sq_repeat for * ) : on real values only *)
  Variable sq : nat -> bop -> option (val -> val -> res).

  Variable tbl : list (string * shape).     (* the proxy's dunders *)

  (* binary_op1 + the sequence fallbacks, on two REAL values *)
  Definition binop_real (o : bop) (a b : val) : res :=
    let sa := nb (ty a) o in
    let sb := if Nat.eqb (ty a) (ty b) then None else nb (ty b) o in
    let r1 := match sa with Some f => f (Real a) (Real b) | None => RNotImpl end in
    match r1 with
    | RNotImpl =>
        let r2 := match sb with Some f => f (Real a) (Real b) | None => RNotImpl end in
        match r2 with
        | RNotImpl =>
            match sq (ty a) o with
            | Some f => match f a b with RNotImpl => RRaise | r => r end
            | None =>
                (* sq_repeat is also tried on the RIGHT operand (3 * [0]); sq_concat only on the left one *)
                match (if bop_eqb o Mul then sq (ty b) o else None) with
                | Some f => match f a b with RNotImpl => RRaise | r => r end
                | None => RRaise                    (* TypeError: unsupported operand type(s) *)
                end
            end
        | r => r
        end
    | r => r
    end.

  Definition wrap (r : res) : res :=
    match r with RVal x => RVal (Proxy (unwrap x)) | RNotImpl => RRaise | RRaise => RRaise end.

  (* the slot CPython synthesises for the proxy class from its __op__ / __rop__ methods *)
  Definition proxy_slot (o : bop) (a b : xval) : res :=
    match a with
    | Proxy v =>                                  (* the proxy is the left operand: type(a).__op__(a, b) *)
        match find_shape (fwd_name o) tbl with
        | SBinL o' c => if bop_eqb o' o then (if c then wrap else (fun r => r)) (binop_real o v (unwrap b)) else RRaise
        | SBinR o' c => if bop_eqb o' o then (if c then wrap else (fun r => r)) (binop_real o (unwrap b) v) else RRaise
        | _ => RNotImpl
        end
    | Real x =>                                   (* only the right operand is a proxy: type(b).__rop__(b, a) *)
        match b with
        | Proxy w =>
            match find_shape (rev_name o) tbl with
            | SBinR o' c => if bop_eqb o' o then (if c then wrap else (fun r => r)) (binop_real o x w) else RRaise
            | SBinL o' c => if bop_eqb o' o then (if c then wrap else (fun r => r)) (binop_real o w x) else RRaise
            | _ => RNotImpl
            end
        | Real _ => RNotImpl
        end
    end.

  Definition slot_of (x : xval) (o : bop) : option (xval -> xval -> res) :=
    match x with Proxy _ => Some (proxy_slot o) | Real v => nb (ty v) o end.
  Definition is_proxy (x : xval) : bool := match x with Proxy _ => true | Real _ => false end.

  (* binary_op1 on possibly proxied operands (the proxy class is unrelated to every real type, so no subclass rule) *)
  Definition binop (o : bop) (a b : xval) : res :=
    let sa := slot_of a o in
    let sb := if (is_proxy a && is_proxy b)%bool then None else slot_of b o in
    let r1 := match sa with Some f => f a b | None => RNotImpl end in
    match r1 with
    | RNotImpl =>
        match (match sb with Some f => f a b | None => RNotImpl end) with
        | RNotImpl => RRaise       (* the sequence fallbacks of a real type reject a proxy operand: TypeError *)
        | r => r
        end
    | r => r
    end.
End Dispatch.

Arguments Real {val} v.
Arguments Proxy {val} v.
Arguments RVal {val} v.
Arguments RNotImpl {val}.
Arguments RRaise {val}.
