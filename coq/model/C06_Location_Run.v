(* checker for the correspondence run of the location model *)
From Coq Require Import List Bool Arith.
Import ListNotations.
From Pedal Require Import model.C06_Location.

Definition lookup_off (offs : list (nat * nat)) (file : nat) : nat :=
  match find (fun p => Nat.eqb (fst p) file) offs with Some p => snd p | None => 0 end.

(* (student file ids, offsets, syntax override, frames outermost first, observed line) *)
Definition check_location (c : list nat * list (nat * nat) * option frame * list frame * nat) : bool :=
  let '(studs, offs, syn, frames, observed) := c in
  match location (fun f => existsb (Nat.eqb f) studs) (lookup_off offs) syn frames with
  | Some l => Nat.eqb l observed
  | None => false
  end.
