(* C19 model, value typing: pedal/types/normalize.py get_pedal_type_from_value, pedal/types/new_types.py is_subtype /
   widen_type / widest_type for the types that values of ints, floats, bools, strs, None, lists, tuples, dicts and sets get,
   and the normal form of a value's own Python type (normalize_type(type(v)).as_type()).
   is_subtype is modelled without its `seen` set: on the queries of the property (a type against itself, a type against the
   normal form of the value's Python type) the set never decides anything - see DESIGN.md for where it does. *)
From Coq Require Import List Bool Arith.
Import ListNotations.

Inductive pval :=
| PInt | PFloat | PBool | PStr | PNone          (* the payload of a scalar plays no part in its type *)
| PList (l : list pval)
| PSet (l : list pval)                          (* elements in iteration order *)
| PTuple (l : list pval)
| PDict (l : list (pval * pval)).

Inductive ty :=
| TAny | TNum | TInt | TFloat | TBool | TStr | TNone
| TLitInt | TLitFloat | TLitBool | TLitStr
| TList (t : ty) | TSet (t : ty)                (* an empty container has element type Any *)
| TTuple (l : list ty)
| TDict (l : list (ty * ty)).

Definition is_literal (t : ty) : bool := match t with TLitInt | TLitFloat | TLitBool | TLitStr => true | _ => false end.

(* left.is_subtype(right) *)
Fixpoint sub (s o : ty) {struct s} : bool :=
  match o with
  | TAny => true
  | _ =>
      match s with
      | TAny => true
      | TNum => match o with TNum => true | _ => false end
      | TInt => match o with TLitInt | TInt | TNum => true | _ => false end
      | TFloat => match o with TLitFloat | TFloat | TNum => true | _ => false end
      | TBool => match o with TLitBool | TBool => true | _ => false end
      | TStr => match o with TLitStr | TStr => true | _ => false end
      | TNone => match o with TNone => true | _ => false end
      | TLitInt => match o with TLitInt | TInt | TNum => true | _ => false end
      | TLitFloat => match o with TLitFloat | TFloat | TNum => true | _ => false end
      | TLitBool => match o with TLitBool | TBool => true | _ => false end
      | TLitStr => match o with TLitStr | TStr => true | _ => false end
      | TList a => match o with TList b => sub a b | _ => false end
      | TSet a => match o with TSet b => sub a b | _ => false end
      | TTuple la =>
          match o with
          | TTuple lb =>
              (* all(e.is_subtype(e2) for e, e2 in zip(...)): the shorter tuple decides the length *)
              (fix go (la lb : list ty) : bool :=
                 match la, lb with
                 | x :: la', y :: lb' => sub x y && go la' lb'
                 | _, _ => true
                 end) la lb
          | _ => false
          end
      | TDict da =>
          match o with
          | TDict db =>
              (fix go (da : list (ty * ty)) : bool :=
                 match da with
                 | [] => true
                 | (k, v) :: da' => existsb (fun kv' => sub k (fst kv') && sub v (snd kv')) db && go da'
                 end) da
          | _ => false
          end
      end
  end.

(* widen_type / widest_type *)
Definition widen (l r : ty) : option ty :=
  if sub r l && negb (sub l r) then Some l else if sub l r then Some r else None.
Fixpoint widest_from (first : ty) (rest : list ty) : option ty :=
  match rest with
  | [] => Some first
  | t :: rest' => match widen first t with Some w => widest_from w rest' | None => None end
  end.
Definition widest (l : list ty) : option ty := match l with [] => None | t :: r => widest_from t r end.

(* get_pedal_type_from_value *)
Fixpoint type_of (v : pval) : ty :=
  match v with
  | PInt => TLitInt | PFloat => TLitFloat | PBool => TLitBool | PStr => TLitStr | PNone => TNone
  | PTuple l => TTuple (map type_of l)
  | PList l =>
      match l with
      | [] => TList TAny
      | x :: _ => TList (match widest (map type_of l) with Some w => w | None => type_of x end)
      end
  | PSet l =>
      match l with
      | [] => TSet TAny
      | x :: _ => TSet (match widest (map type_of l) with Some w => w | None => type_of x end)
      end
  | PDict d =>
      match d with
      | [] => TDict []
      | _ =>
          let items := map (fun kv => (type_of (fst kv), type_of (snd kv))) d in
          if forallb (fun kt => is_literal (fst kt)) items then TDict items
          else match widest (map fst items), widest (map snd items) with
               | Some k, Some v => TDict [(k, v)]
               | _, _ => TDict items
               end
      end
  end.

(* normalize_type(type(v)).as_type() *)
Definition norm_of (v : pval) : ty :=
  match v with
  | PInt => TInt | PFloat => TFloat | PBool => TBool | PStr => TStr | PNone => TNone
  | PList _ => TList TAny
  | PSet _ => TSet TAny
  | PTuple _ => TTuple []
  | PDict _ => TDict [(TAny, TAny)]
  end.
