(* Effects tracked in the sandbox skeletons (C04, C05, C14) and their interpretation.
   Micro-model of unittest.mock.patch start/stop (validated against the live module by the correspondence run):
   start saves the current global and installs the replacement; stop restores what start saved; with LIFO
   start/stop the globals are the original ones exactly when no started patch set is left. *)
From Coq Require Import List Bool Arith Lia.
Import ListNotations.
From Pedal Require Import lib.ExnFlow.

Inductive eff :=
| EStartPatches      (* _start_patches: push a tuple of patches and start them (sys.modules, sys.stdout, time.sleep) *)
| EStopPatches       (* _stop_patches: pop a tuple and stop them; a no-op when the stack is empty *)
| EPushStdout        (* _current_stdout.append(StringIO()) *)
| EPopStdout         (* _current_stdout.pop() *)
| EAppendOutput
| ECapture           (* _capture_exception: sandbox.exception := e, one runtime feedback attached *)
| EStudentFinished   (* exec(student code) completed without raising *)
| ESetTrace          (* tracer __enter__: sys.settrace(tracer) *)
| ERestoreTrace      (* tracer __exit__: sys.settrace(old) *)
| ESetTerminated     (* InterruptableThread.terminate: self.terminated = True *)
| EAsyncRaise.       (* InterruptableThread.terminate: the SystemExit is injected into the student thread *)

Record pstate := mkP { patches : nat; stdouts : nat; traces : nat }.
Definition p0 := mkP 0 0 0.

(* strict interpretation: popping an empty stack is an error ([None]) - a skeleton that is balanced under the
   strict reading never relies on the "stop when empty is a no-op" leniency, and is therefore balanced from ANY
   starting depth (nested executions, histories) *)
Definition eff_step (s : pstate) (e : eff) : option pstate :=
  match e with
  | EStartPatches => Some (mkP (S (patches s)) (stdouts s) (traces s))
  | EStopPatches => match patches s with S n => Some (mkP n (stdouts s) (traces s)) | O => None end
  | EPushStdout => Some (mkP (patches s) (S (stdouts s)) (traces s))
  | EPopStdout => match stdouts s with S n => Some (mkP (patches s) n (traces s)) | O => None end
  | ESetTrace => Some (mkP (patches s) (stdouts s) (S (traces s)))
  | ERestoreTrace => match traces s with S n => Some (mkP (patches s) (stdouts s) n) | O => None end
  | _ => Some s
  end.

Fixpoint run_eff (s : pstate) (t : list eff) : option pstate :=
  match t with
  | [] => Some s
  | e :: t' => match eff_step s e with Some s' => run_eff s' t' | None => None end
  end.

Definition pstate_eqb (a b : pstate) : bool :=
  Nat.eqb (patches a) (patches b) && Nat.eqb (stdouts a) (stdouts b) && Nat.eqb (traces a) (traces b).

(* everything the execution patched is restored, stacks empty *)
Definition balanced (t : list eff) : bool :=
  match run_eff p0 t with Some s => pstate_eqb s p0 | None => false end.

Definition count (e : eff -> bool) (t : list eff) : nat := length (filter e t).
Definition is_capture (e : eff) : bool := match e with ECapture => true | _ => false end.
Definition is_finished (e : eff) : bool := match e with EStudentFinished => true | _ => false end.

(* C05, on one path: balanced whatever the outcome *)
Definition c05_ok (p : outcome * list eff) : bool := balanced (snd p).

(* C04, on one path: the call returns (does not propagate) unless the class is outside Exception/SystemExit
   (those propagate by design; C05 covers their cleanup); exactly one capture when student code did not finish,
   none when it did *)
Definition c04_ok (p : outcome * list eff) : bool :=
  let '(o, t) := p in
  match o with
  | Raised EBase => true
  | Raised _ => false
  | _ => if Nat.eqb (count is_finished t) 1 then Nat.eqb (count is_capture t) 0
         else Nat.eqb (count is_capture t) 1
  end.

(* shifting lemma: a trace that is balanced from depth 0 leaves ANY state unchanged *)
Definition padd (a b : pstate) := mkP (patches a + patches b) (stdouts a + stdouts b) (traces a + traces b).
