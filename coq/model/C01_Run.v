(* Instantiation of the resolver model with the tables/functions regenerated from
   the repository source, and the checkers used by the correspondence run. *)
From Coq Require Import ZArith QArith List String Ascii Bool.
Import ListNotations.
From Pedal Require Import lib.PyMini lib.Assoc lib.StableSort model.C01_Resolver gen.C01_Gen.
Open Scope string_scope.
Open Scope list_scope.
Open Scope Z_scope.

(* priority_offset: the regenerated PyMini body, run by the interpreter (tenths) *)
Definition gen_offset (p : string) : Z :=
  match exec_block [("priority", VS p)] gen_priority_offset_body with
  | Ret (VZ z) => z
  | _ => 0
  end.

Definition the_key := key gen_category_priority gen_aliases gen_offset.
Definition the_resolve := resolve gen_category_priority gen_aliases gen_offset.
Definition the_supp := build_supp gen_aliases.

(* ---- correspondence checkers ---- *)
Fixpoint zs_eqb (a b : list Z) : bool :=
  match a, b with
  | [], [] => true
  | x :: a', y :: b' => Z.eqb x y && zs_eqb a' b'
  | _, _ => false
  end.
Definition oz_eqb (a b : option Z) : bool :=
  match a, b with Some x, Some y => Z.eqb x y | None, None => true | _, _ => false end.
Fixpoint strs_eqb (a b : list string) : bool :=
  match a, b with
  | [], [] => true
  | x :: a', y :: b' => String.eqb x y && strs_eqb a' b'
  | _, _ => false
  end.

(* expected outcome measured on the implementation *)
Inductive expected :=
| ExpOk (used : option Z) (correct : bool) (score_num score_den : Z) (is_default : bool)
        (positives merged : list Z) (scores : list string)
| ExpRaise (cls : string).

Definition check_resolve (c : list fb * list fb * list supp_call * expected) : bool :=
  let '(act, ign, calls, e) := c in
  match the_resolve act ign calls, e with
  | Ok r, ExpOk used correct sn sd isdef pos merged scores =>
      oz_eqb (r_used r) used && Bool.eqb (r_correct r) correct
      && Qeq_bool (r_score r) (Qmake sn (Z.to_pos sd)) && Bool.eqb (r_is_default r) isdef
      && zs_eqb (r_positives r) pos && zs_eqb (r_merged r) merged && strs_eqb (r_scores r) scores
  | Err c, ExpRaise c' => String.eqb c c'
  | _, _ => false
  end.

(* by_priority on its own: (category, priority, key in tenths) *)
Definition mk_key_fb (cat pri : option string) : fb :=
  mkFb 0 cat "x" pri "" false false true false false None false true [].
Definition check_key (c : option string * option string * Z) : bool :=
  let '(cat, pri, k) := c in Z.eqb (the_key (mk_key_fb cat pri)) k.

(* Score.parse + add_to_current on its own: (string, current num/den, expected num/den or raise) *)
Definition check_score (c : string * Z * Z * option (Z * Z)) : bool :=
  let '(s, cn, cd, e) := c in
  match parse_score s with
  | Err _ => match e with None => true | Some _ => false end
  | Ok sc => match add_to_current sc (Qmake cn (Z.to_pos cd)), e with
             | Ok q, Some (en, ed) => Qeq_bool q (Qmake en (Z.to_pos ed))
             | Err _, None => true
             | _, _ => false
             end
  end.

(* sectional.resolve: ((group, feedback) list of the triggered feedback, suppress calls, observed (group, outcome) list) *)
Definition the_sectional_at := sectional_at gen_category_priority gen_aliases gen_offset.
Definition check_group (tagged : list (nat * fb)) (calls : list supp_call) (ge : nat * expected) : bool :=
  let '(g, e) := ge in
  match the_sectional_at tagged calls g, e with
  | Ok r, ExpOk used correct sn sd isdef pos _ scores =>
      oz_eqb (r_used r) used && Bool.eqb (r_correct r) correct
      && Qeq_bool (r_score r) (Qmake sn (Z.to_pos sd)) && Bool.eqb (r_is_default r) isdef
      && zs_eqb (r_positives r) pos && strs_eqb (r_scores r) scores
  | Err c, ExpRaise c' => String.eqb c c'
  | _, _ => false
  end.
Definition check_sectional (c : list (nat * fb) * list supp_call * list (nat * expected)) : bool :=
  let '(tagged, calls, obs) := c in
  forallb (check_group tagged calls) obs
  && Nat.eqb (List.length obs) (List.length (sect_groups tagged))
  && forallb (fun g => existsb (fun ge => Nat.eqb (fst ge) g) obs) (sect_groups tagged).
