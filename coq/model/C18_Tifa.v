(* C18 model: (a) effects of the skeleton of Tifa.process_code, (b) the per-code result cache of tifa_analysis. *)
From Coq Require Import List Bool Arith.
Import ListNotations.
From Pedal Require Import lib.ExnFlow.

Inductive teff :=
| TParsed        (* ast.parse returned *)
| TProcessed     (* process_ast returned *)
| TFail          (* analysis.fail(error) *)
| TSystemError.  (* system_error feedback attached *)

Definition teff_eqb (a b : teff) : bool :=
  match a, b with
  | TParsed, TParsed | TProcessed, TProcessed | TFail, TFail | TSystemError, TSystemError => true
  | _, _ => false
  end.
Definition tcnt (e : teff) (t : list teff) : nat := length (filter (teff_eqb e) t).

(* process_code on one path: returns the analysis (never propagates); completed iff both stages returned;
   a failure is marked exactly once and accompanied by exactly one system_error feedback *)
Definition process_ok (p : outcome * list teff) : bool :=
  let '(o, t) := p in
  match o with
  | Raised _ => false
  | _ => if Nat.eqb (tcnt TProcessed t) 1
         then Nat.eqb (tcnt TFail t) 0 && Nat.eqb (tcnt TSystemError t) 0
         else Nat.eqb (tcnt TFail t) 1 && Nat.eqb (tcnt TSystemError t) 1
  end.

(* ---------------- the cache ---------------- *)
(* codes are numbered; an analysis result is identified by a serial number; [fb] counts feedback attached *)
Record tstate := mkT { cache : list (nat * nat); next_id : nat; fb : nat }.
Definition t0 := mkT [] 0 0.

Fixpoint find_code (c : nat) (l : list (nat * nat)) : option nat :=
  match l with [] => None | (c', r) :: l' => if Nat.eqb c c' then Some r else find_code c l' end.

(* tifa_analysis(code): [adds c] = number of feedback objects a fresh analysis of code c attaches *)
Definition analyse (adds : nat -> nat) (s : tstate) (c : nat) : tstate * nat :=
  match find_code c (cache s) with
  | Some r => (s, r)
  | None => (mkT ((c, next_id s) :: cache s) (S (next_id s)) (fb s + adds c), next_id s)
  end.

Fixpoint analyse_all (adds : nat -> nat) (s : tstate) (cs : list nat) : tstate * list nat :=
  match cs with
  | [] => (s, [])
  | c :: cs' => let '(s1, r) := analyse adds s c in
                let '(s2, rs) := analyse_all adds s1 cs' in (s2, r :: rs)
  end.
