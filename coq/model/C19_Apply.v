(* C19 model: apply_binary_operation with its AnyType short-cuts and the promotion of Literal* operand types, over the
   REGENERATED operator table and promotion table. *)
From Coq Require Import List String Bool.
Import ListNotations.
From Pedal Require Import model.C19_Types gen.C19_Gen model.C19_Compare.
Open Scope string_scope.

(* the type of an operand as TIFA holds it: AnyType, or a class by name (plain or Literal-prefixed) *)
Inductive otype := OAny | OClass (name : string).

Definition promote (n : string) : string := match assoc n gen_promote with Some p => p | None => n end.

Inductive ores := RSame (o : otype) | RType (t : ptype).      (* an operand handed back unchanged, or a table result *)

Definition core_of_class (n : string) : option core :=
  if String.eqb n "IntType" then Some CInt else if String.eqb n "FloatType" then Some CFloat
  else if String.eqb n "StrType" then Some CStr else if String.eqb n "ListType" then Some CList
  else if String.eqb n "TupleType" then Some CTuple else None.

Definition apply_binop (op : string) (l r : otype) : ores :=
  match l, r with
  | OAny, _ => RSame r
  | _, OAny => RSame l
  | OClass a, OClass b =>
      match core_of_class (promote a), core_of_class (promote b) with
      | Some ca, Some cb => RType (tifa_binop gen_binop_table op ca cb)
      | _, _ => RType (match lookup op (promote a) (promote b) gen_binop_table with
                        | Some _ => PNum | None => PImpossible end)    (* outside the five core classes: not refined here *)
      end
  end.
