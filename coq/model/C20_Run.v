(* C20: checkers for the correspondence run. *)
From Coq Require Import ZArith List String Bool Arith.
Import ListNotations.
From Pedal Require Import model.C20_Feedback gen.C20_Gen.
Open Scope string_scope.
Open Scope list_scope.

Definition status_eqb (a b : status) : bool :=
  match a, b with Active, Active | Inactive, Inactive | Error, Error | Delayed, Delayed => true | _, _ => false end.
Definition render_eqb (a b : render) : bool :=
  match a, b with RExplicit, RExplicit | RTemplateOk, RTemplateOk | RTemplateRaises, RTemplateRaises
                | RNeither, RNeither => true | _, _ => false end.
Definition orender_eqb (a b : option render) : bool :=
  match a, b with Some x, Some y => render_eqb x y | None, None => true | _, _ => false end.

(* observed: status, bool, #active, #ignored, raised, message source *)
Definition created_eqb (a b : created) : bool :=
  status_eqb (cr_status a) (cr_status b) && Bool.eqb (cr_met a) (cr_met b)
  && Nat.eqb (cr_in_active a) (cr_in_active b) && Nat.eqb (cr_in_ignored a) (cr_in_ignored b)
  && Bool.eqb (cr_raises a) (cr_raises b) && orender_eqb (cr_message a) (cr_message b).

Definition check_create (c : spec * created * option created) : bool :=
  let '(s, after_init, after_handle) := c in
  created_eqb (create s) after_init
  && match after_handle with
     | Some x => created_eqb (handle_delayed s) x
     | None => true
     end.

Definition ostr_eqb (a b : option string) : bool :=
  match a, b with Some x, Some y => String.eqb x y | None, None => true | _, _ => false end.

(* (format spec, formatter used, residual spec) with the regenerated Formatter.available *)
Definition check_dispatch (c : string * option string * string) : bool :=
  let '(sp, used, residual) := c in
  let '(u, r) := dispatch gen_available sp in
  ostr_eqb u used && String.eqb r residual.

(* override histories over the class tree  0 <- 1 <- 2 <- 3 , 1 <- 4 *)
Definition parent (c : nat) : nat := match c with 1 => 0 | 2 => 1 | 3 => 2 | 4 => 1 | _ => 0 end%nat.

Definition oV_eqb (a b : option Z) : bool :=
  match a, b with Some x, Some y => Z.eqb x y | None, None => true | _, _ => false end.

(* a snapshot: per class, per field: (own entry, getattr) *)
Definition snapshot := list (list (option Z * option Z)).

Definition snap_ok (s : cstate) (sn : snapshot) : bool :=
  forallb (fun ci =>
    forallb (fun fi =>
      match nth_error sn ci with
      | Some row => match nth_error row fi with
                    | Some (o, g) => oV_eqb (own s ci fi) o && oV_eqb (lookup parent s 5 ci fi) g
                    | None => false end
      | None => false end) (seq 0 4)) (seq 0 5).

Definition init_of (sn : snapshot) : cstate :=
  mkC (fun c f => match nth_error sn c with
                  | Some row => match nth_error row f with Some (o, _) => o | None => None end
                  | None => None end)
      (fun _ _ => None) (fun _ _ => false).

Fixpoint check_steps (s : cstate) (ops : list cop) (sns : list snapshot) : bool :=
  match ops, sns with
  | [], [] => true
  | o :: ops', sn :: sns' => let s' := cstep s o in snap_ok s' sn && check_steps s' ops' sns'
  | _, _ => false
  end.

Definition check_overrides (c : snapshot * list cop * list snapshot) : bool :=
  let '(s0, ops, sns) := c in
  snap_ok (init_of s0) s0 && check_steps (init_of s0) ops sns.
