(* C14: the model's prediction for the coarse schedules that the hooks can force on the real code. *)
From Coq Require Import List Bool Arith.
Import ListNotations.
From Pedal Require Import lib.ExnFlow model.C05_Effects gen.C05_Gen.

Record shared := mkS { s_patches : nat; s_stdouts : nat; s_captures : nat; s_outputs : nat }.
Definition shared_step (s : shared) (e : eff) : option shared :=
  match e with
  | EStartPatches => Some (mkS (S (s_patches s)) (s_stdouts s) (s_captures s) (s_outputs s))
  | EStopPatches => Some (mkS (pred (s_patches s)) (s_stdouts s) (s_captures s) (s_outputs s))
  | EPushStdout => Some (mkS (s_patches s) (S (s_stdouts s)) (s_captures s) (s_outputs s))
  | EPopStdout => match s_stdouts s with
                  | S n => Some (mkS (s_patches s) n (s_captures s) (s_outputs s))
                  | O => None
                  end
  | ECapture => Some (mkS (s_patches s) (s_stdouts s) (S (s_captures s)) (s_outputs s))
  | EAppendOutput => Some (mkS (s_patches s) (s_stdouts s) (s_captures s) (S (s_outputs s)))
  | _ => Some s
  end.
Fixpoint shared_run (s : shared) (t : list eff) : option shared :=
  match t with
  | [] => Some s
  | e :: t' => match shared_step s e with Some s' => shared_run s' t' | None => None end
  end.

(* concrete oracles: the student code is interrupted by SystemExit at [exec_site]; timeout() raises TimeoutError at
   [timeout_site]; the next execution runs to the end *)
Definition o_raise (site : nat) (e : exn) : oracle :=
  mkOracle (fun s => if Nat.eqb s site then Some e else None) (fun _ => false).
Definition o_quiet : oracle := mkOracle (fun _ => None) (fun _ => false).

Definition drop3 (t : list eff) := match t with _ :: _ :: _ :: r => r | _ => [] end.

(* schedule 0: student handler entirely before the grader's; 1: entirely after, before the next run;
   2: in the middle of the next run; 3: never *)
Definition schedule_trace (sched exec_site timeout_site : nat) : list eff :=
  let s := drop3 (snd (exec eff (o_raise exec_site ESystemExit) None gen_execute_terminated)) in
  let g := snd (exec eff (o_raise timeout_site ETimeout) None gen_execute_with_timeout) in
  let n := snd (exec eff o_quiet None gen_execute) in
  match sched with
  | 0 => s ++ g ++ n
  | 1 => g ++ s ++ n
  | 2 => g ++ firstn 3 n ++ s ++ skipn 3 n
  | _ => g ++ n
  end.

(* (schedule, exec site, timeout site, observed: #runtime feedback for the timed-out execution, clean at the end,
    next run recorded its output) *)
Definition check_schedule (c : nat * nat * nat * nat * bool * bool) : bool :=
  let '(sched, es, ts, nfb, clean, next_ok) := c in
  match shared_run (mkS 1 1 0 0) (schedule_trace sched es ts) with
  | Some s => Nat.eqb (s_captures s) nfb
              && Bool.eqb (Nat.eqb (s_patches s) 0 && Nat.eqb (s_stdouts s) 0) clean
              && Bool.eqb (Nat.eqb (s_outputs s) 2) next_ok
  | None => negb clean
  end.
