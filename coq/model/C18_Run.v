(* C18: cache model vs implementation. *)
From Coq Require Import List Bool Arith.
Import ListNotations.
From Pedal Require Import lib.ExnFlow model.C18_Tifa.

Fixpoint nats_eqb (a b : list nat) : bool :=
  match a, b with
  | [], [] => true
  | x :: a', y :: b' => Nat.eqb x y && nats_eqb a' b'
  | _, _ => false
  end.
Fixpoint lookup_adds (l : list (nat * nat)) (c : nat) : nat :=
  match l with [] => 0 | (c', a) :: l' => if Nat.eqb c c' then a else lookup_adds l' c end.

Fixpoint run_calls (adds : nat -> nat) (s : tstate) (cs : list nat) : list nat * list nat :=
  match cs with
  | [] => ([], [])
  | c :: cs' => let '(s1, r) := analyse adds s c in
                let '(rs, fs) := run_calls adds s1 cs' in (r :: rs, fb s1 :: fs)
  end.

(* (adds table, calls, observed result serial numbers, observed feedback counts relative to the first call) *)
Definition check_cache (c : list (nat * nat) * list nat * list nat * list nat) : bool :=
  let '(adds, calls, rids, fbs) := c in
  let '(rs, fs) := run_calls (lookup_adds adds) t0 calls in
  nats_eqb rs rids && nats_eqb fs fbs.
