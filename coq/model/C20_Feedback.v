(* C20 model: creating a feedback object, deriving its message, and overriding class attributes.
   pedal/core/feedback.py (Feedback.__init__/_handle_condition/_get_message/_get_else_message/override/
   _restore_overrides), pedal/core/report.py (add_feedback/add_ignored_feedback/clear_overridden_feedback),
   pedal/core/formatting.py (FeedbackFieldWrapper.__format__, chomp_spec). *)
From Coq Require Import ZArith List String Bool Arith.
Import ListNotations.
Open Scope string_scope.
Open Scope list_scope.

(* ------------------------------------------------------------------ (a) creation *)
Inductive cond_outcome := CTruthy | CFalsy | CRaises.
Inductive render := RExplicit | RTemplateOk | RTemplateRaises | RNeither.
Inductive status := Active | Inactive | Error | Delayed.

Record spec := mkSpec {
  sp_delay : bool;             (* delay_condition=True *)
  sp_cond : cond_outcome;      (* what condition() does *)
  sp_just_raises : bool;       (* _get_justification raises (bad template) *)
  sp_msg : render;             (* how the message is obtained *)
  sp_else : render;            (* how the else_message is obtained *)
  sp_has_report : bool         (* report is not None *)
}.

Record created := mkCreated {
  cr_status : status;
  cr_met : bool;               (* bool(feedback) *)
  cr_in_active : nat;          (* how many times in report.feedback *)
  cr_in_ignored : nat;         (* how many times in report.ignored_feedback *)
  cr_raises : bool;            (* the constructor propagates an exception *)
  cr_message : option render   (* where the delivered message comes from (None: unset) *)
}.

Definition render_raises (r : render) : bool := match r with RTemplateRaises => true | _ => false end.

(* Feedback.__init__ followed by _handle_condition unless delayed *)
Definition create (s : spec) : created :=
  if sp_delay s then mkCreated Delayed false 0 0 false None else
  let failed :=
    match sp_cond s with
    | CRaises => true
    | CTruthy => sp_just_raises s || render_raises (sp_msg s)
    | CFalsy => sp_just_raises s || render_raises (sp_else s)
    end in
  let met := match sp_cond s with CTruthy => negb failed | _ => false end in
  let st := if failed then Error else if met then Active else Inactive in
  mkCreated st met
            (if sp_has_report s then (if met then 1 else 0) else 0)
            (if sp_has_report s then (if met then 0 else 1) else 0)
            failed
            (if failed then None else if met then Some (sp_msg s) else Some (sp_else s)).

(* handling a delayed feedback later: same as creating it undelayed *)
Definition handle_delayed (s : spec) : created :=
  create (mkSpec false (sp_cond s) (sp_just_raises s) (sp_msg s) (sp_else s) (sp_has_report s)).

(* ------------------------------------------------------------------ (b) field formatting *)
Definition ends_with (s suffix : string) : bool :=
  let ls := String.length s in
  let lf := String.length suffix in
  if Nat.ltb ls lf then false else String.eqb (substring (ls - lf) lf s) suffix.

(* chomp_spec *)
Definition chomp_spec (format_spec word : string) : string :=
  if ends_with format_spec word then
    let fs := substring 0 (String.length format_spec - String.length word) format_spec in
    let n := String.length fs in
    if (negb (Nat.eqb n 0)) && String.eqb (substring (n - 1) 1 fs) ":" then substring 0 (n - 1) fs else fs
  else format_spec.

(* FeedbackFieldWrapper.__format__: the FIRST available formatter whose name ends the spec *)
Fixpoint dispatch (available : list string) (format_spec : string) : option string * string :=
  match available with
  | [] => (None, format_spec)
  | name :: rest =>
      if ends_with format_spec name then (Some name, chomp_spec format_spec name)
      else dispatch rest format_spec
  end.

(* ------------------------------------------------------------------ (c) class attribute overrides *)
(* classes and fields are numbered; [own c f] is the entry of field f in c.__dict__ (None = not in the dict,
   i.e. inherited); backups are kept per class in the class's OWN dict *)
Definition V := Z.
Record cstate := mkC {
  own : nat -> nat -> option V;
  bk : nat -> nat -> option (option V);       (* backup of the own entry (Some None = was inherited) *)
  ov : nat -> nat -> bool                       (* ov r c: class c is in the overridden_feedbacks of report r *)
}.

Inductive cop :=
| Override (r c : nat) (fields : list (nat * V))   (* cls.override(report=r, fields...) *)
| Clear (r : nat).                                 (* r.clear() / contextualize_report(.., report=r) *)

Definition upd2 {A} (g : nat -> nat -> A) (c f : nat) (v : A) : nat -> nat -> A :=
  fun c' f' => if (Nat.eqb c c' && Nat.eqb f f')%bool then v else g c' f'.

Definition override1 (c : nat) (s : cstate) (fv : nat * V) : cstate :=
  let '(f, v) := fv in
  mkC (upd2 (own s) c f (Some v))
      (match bk s c f with Some _ => bk s | None => upd2 (bk s) c f (Some (own s c f)) end)
      (ov s).

Definition cstep (s : cstate) (o : cop) : cstate :=
  match o with
  | Override r c fields =>
      let s' := fold_left (override1 c) fields s in
      mkC (own s') (bk s') (upd2 (ov s') r c true)
  | Clear r =>
      mkC (fun c f => if ov s r c then match bk s c f with Some x => x | None => own s c f end else own s c f)
          (fun c f => if ov s r c then None else bk s c f)
          (fun r' c => if Nat.eqb r r' then false else ov s r' c)
  end.

Definition crun (s : cstate) (ops : list cop) : cstate := fold_left cstep ops s.

(* attribute lookup along the inheritance chain (parent c < c; class 0 is Feedback) *)
Fixpoint lookup (parent : nat -> nat) (s : cstate) (fuel : nat) (c f : nat) : option V :=
  match own s c f with
  | Some v => Some v
  | None => match fuel with
            | O => None
            | S fuel' => if Nat.eqb c 0 then None else lookup parent s fuel' (parent c) f
            end
  end.
