(* C19, value typing: checkers for the correspondence run. *)
From Coq Require Import List Bool Arith.
Import ListNotations.
From Pedal Require Import model.C19_Values.

Fixpoint ty_eqb (a b : ty) {struct a} : bool :=
  match a, b with
  | TAny, TAny | TNum, TNum | TInt, TInt | TFloat, TFloat | TBool, TBool | TStr, TStr | TNone, TNone
  | TLitInt, TLitInt | TLitFloat, TLitFloat | TLitBool, TLitBool | TLitStr, TLitStr => true
  | TList x, TList y | TSet x, TSet y => ty_eqb x y
  | TTuple la, TTuple lb =>
      (fix go (la lb : list ty) : bool :=
         match la, lb with [], [] => true | x :: la', y :: lb' => ty_eqb x y && go la' lb' | _, _ => false end) la lb
  | TDict da, TDict db =>
      (fix go (da db : list (ty * ty)) : bool :=
         match da, db with
         | [], [] => true
         | (k, v) :: da', (k', v') :: db' => ty_eqb k k' && ty_eqb v v' && go da' db'
         | _, _ => false
         end) da db
  | _, _ => false
  end.

(* (value, the type pedal computed for it, the normal form pedal computed for its Python type) *)
Definition check_value_type (c : pval * ty * ty) : bool :=
  let '(v, t, n) := c in ty_eqb (type_of v) t && ty_eqb (norm_of v) n.

(* (value a, value b, real is_subtype(type of a, type of b)) *)
Definition check_subtype_pair (c : pval * pval * bool) : bool :=
  let '(a, b, ob) := c in Bool.eqb (sub (type_of a) (type_of b)) ob.
