(* C12: the skeleton's prediction for one parser outcome. *)
From Coq Require Import List Bool Arith.
Import ListNotations.
From Pedal Require Import lib.ExnFlow model.C12_Effects gen.C12_Gen.

(* (parse site, blank-test site, parser exception class or None, text is blank,
    observed #syntax_error, #indentation_error, blank_source present, success flag) *)
Definition check_verify (c : nat * nat * option exn * bool * nat * nat * bool * bool) : bool :=
  let '(ps, bs, cls, blank, nsyn, nind, has_blank, success) := c in
  let o := mkOracle (fun s => if Nat.eqb s ps then cls else None) (fun s => if Nat.eqb s bs then blank else false) in
  let '(oc, t) := exec veff o None gen_verify in
  match oc with
  | Raised _ => false
  | _ => Nat.eqb (cnt VFbSyntax t) nsyn && Nat.eqb (cnt VFbIndent t) nind && Bool.eqb (has VFbBlank t) has_blank
         && match last_success t None with Some b => Bool.eqb b success | None => false end
  end.
