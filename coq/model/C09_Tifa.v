(* C09 model: TIFA's initialization / unused-variable analysis on the branch subset, and the path semantics
   it is compared with.

   pedal/tifa/tifa_core.py: store_variable, load_variable, combine_states (incl. the `right is None` arm),
   merge_paths, match_rso, _finish_scope;  pedal/tifa/tifa_visitor.py: visit_If, visit_Assign, visit_Name.
   Single (module) scope; per-path name maps with parent lookup are represented as full environments (a name that
   a branch does not touch is looked up in the enclosing path = keeps its value). *)
From Coq Require Import List Bool Arith.
Import ListNotations.

Definition var := nat.
Definition line := nat.

(* programs: assignments, expression statements (print(...)), nested if/elif/else; [rs] = variables read, in order *)
Inductive stmt :=
| Assign (l : line) (x : var) (rs : list var)     (* x = f(rs) *)
| Expr (l : line) (rs : list var)                 (* print(rs) *)
| If (l : line) (rs : list var) (th el : block)   (* if cond(rs): th else: el   (elif = nested If in el) *)
with block :=
| BNil
| BCons (s : stmt) (b : block).

Scheme stmt_ind2 := Induction for stmt Sort Prop
  with block_ind2 := Induction for block Sort Prop.
Combined Scheme stmt_block_ind from stmt_ind2, block_ind2.

(* ------------------------------------------------------------------ TIFA *)
Inductive tri := Yes | No | Maybe.
Definition tri_eqb (a b : tri) : bool :=
  match a, b with Yes, Yes | No, No | Maybe, Maybe => true | _, _ => false end.

(* match_rso *)
Definition match_rso (a b : tri) : tri := if tri_eqb a b then a else Maybe.

Record astate := mkA { a_set : tri; a_read : tri }.
Definition aenv := var -> option astate.

Inductive issue_kind := InitProblem | PossibleInitProblem.
Definition issue := (line * var * issue_kind)%type.

Definition aupd (a : aenv) (x : var) (v : astate) : aenv := fun y => if Nat.eqb x y then Some v else a y.

(* load_variable *)
Definition t_load (l : line) (a : aenv) (x : var) : aenv * list issue :=
  match a x with
  | None => (aupd a x (mkA No Yes), [(l, x, InitProblem)])
  | Some s =>
      (aupd a x (mkA (a_set s) Yes),
       match a_set s with
       | No => [(l, x, InitProblem)]
       | Maybe => [(l, x, PossibleInitProblem)]
       | Yes => []
       end)
  end.

Fixpoint t_loads (l : line) (a : aenv) (rs : list var) : aenv * list issue :=
  match rs with
  | [] => (a, [])
  | x :: rs' => let '(a1, i1) := t_load l a x in
                let '(a2, i2) := t_loads l a1 rs' in (a2, i1 ++ i2)
  end.

(* store_variable: a new or an existing variable ends up set=yes, read=no *)
Definition t_store (a : aenv) (x : var) : aenv := aupd a x (mkA Yes No).

(* combine_states with right = None *)
Definition combine_none (s : astate) : astate :=
  mkA (match a_set s with No => No | _ => Maybe end) (match a_read s with No => No | _ => Maybe end).

(* merge_paths *)
Definition t_merge (ai ae : aenv) : aenv :=
  fun x => match ai x, ae x with
           | None, None => None
           | Some l, None => Some (combine_none l)
           | None, Some r => Some (combine_none r)
           | Some l, Some r => Some (mkA (match_rso (a_set l) (a_set r)) (match_rso (a_read l) (a_read r)))
           end.

Fixpoint t_stmt (s : stmt) (a : aenv) {struct s} : aenv * list issue :=
  match s with
  | Assign l x rs => let '(a1, i1) := t_loads l a rs in (t_store a1 x, i1)
  | Expr l rs => t_loads l a rs
  | If l rs th el =>
      let '(a1, i1) := t_loads l a rs in
      let '(ai, ii) := t_block th a1 in
      let '(ae, ie) := t_block el a1 in
      (t_merge ai ae, i1 ++ ii ++ ie)
  end
with t_block (b : block) (a : aenv) {struct b} : aenv * list issue :=
  match b with
  | BNil => (a, [])
  | BCons s b' => let '(a1, i1) := t_stmt s a in
                  let '(a2, i2) := t_block b' a1 in (a2, i1 ++ i2)
  end.

Definition aempty : aenv := fun _ => None.

(* _finish_scope: a variable is reported unused iff it exists and its read flag is 'no' *)
Definition t_unused (a : aenv) (x : var) : bool :=
  match a x with Some s => tri_eqb (a_read s) No | None => false end.

(* ------------------------------------------------------------------ path semantics (the specification) *)
(* one execution path: per variable, whether it has been assigned and whether it was read since its last
   assignment (or at all, if never assigned); None = never touched *)
Record cstate := mkCs { c_assigned : bool; c_read : bool }.
Definition cenv := var -> option cstate.
Definition cupd (c : cenv) (x : var) (v : cstate) : cenv := fun y => if Nat.eqb x y then Some v else c y.
Definition cempty : cenv := fun _ => None.

Definition c_is_assigned (c : cenv) (x : var) : bool := match c x with Some s => c_assigned s | None => false end.
Definition c_is_read (c : cenv) (x : var) : bool := match c x with Some s => c_read s | None => false end.

Definition c_load (c : cenv) (x : var) : cenv := cupd c x (mkCs (c_is_assigned c x) true).
Definition c_store (c : cenv) (x : var) : cenv := cupd c x (mkCs true false).

(* all-true / all-false / mixed over a list of booleans (non-empty) *)
Definition tri_of (bs : list bool) : tri :=
  if forallb (fun b => b) bs then Yes else if forallb negb bs then No else Maybe.

(* classification of a read of x at a point reached by exactly the paths in S *)
Definition classify (l : line) (S : list cenv) (x : var) : list issue :=
  match tri_of (map (fun c => c_is_assigned c x) S) with
  | Yes => []
  | No => [(l, x, InitProblem)]
  | Maybe => [(l, x, PossibleInitProblem)]
  end.

Fixpoint s_loads (l : line) (S : list cenv) (rs : list var) : list cenv * list issue :=
  match rs with
  | [] => (S, [])
  | x :: rs' => let i1 := classify l S x in
                let '(S2, i2) := s_loads l (map (fun c => c_load c x) S) rs' in (S2, i1 ++ i2)
  end.

(* collecting semantics: every branch outcome of every If *)
Fixpoint s_stmt (s : stmt) (S : list cenv) {struct s} : list cenv * list issue :=
  match s with
  | Assign l x rs => let '(S1, i1) := s_loads l S rs in (map (fun c => c_store c x) S1, i1)
  | Expr l rs => s_loads l S rs
  | If l rs th el =>
      let '(S1, i1) := s_loads l S rs in
      let '(Si, ii) := s_block th S1 in
      let '(Se, ie) := s_block el S1 in
      (Si ++ Se, i1 ++ ii ++ ie)
  end
with s_block (b : block) (S : list cenv) {struct b} : list cenv * list issue :=
  match b with
  | BNil => (S, [])
  | BCons s b' => let '(S1, i1) := s_stmt s S in
                  let '(S2, i2) := s_block b' S1 in (S2, i1 ++ i2)
  end.

(* unused per the paths: touched on some path, and on NO path read after its last assignment *)
Definition touched (c : cenv) (x : var) : bool := match c x with Some _ => true | None => false end.
Definition any_touched (S : list cenv) (x : var) : bool := existsb (fun c => touched c x) S.

Definition s_unused (S : list cenv) (x : var) : bool :=
  any_touched S x && forallb (fun c => negb (c_is_read c x)) S.
(* definitely used: read after its last assignment on EVERY path *)
Definition s_used_everywhere (S : list cenv) (x : var) : bool := forallb (fun c => c_is_read c x) S.

(* the abstraction of a set of paths *)
Definition alpha (S : list cenv) : aenv :=
  fun x => if any_touched S x
           then Some (mkA (tri_of (map (fun c => c_is_assigned c x) S)) (tri_of (map (fun c => c_is_read c x) S)))
           else None.

(* ------------------------------------------------------------------ loops (proof/C09_While.v)
   visit_While analyses   while c: B   as   c; ( B; c | nothing ):  in this syntax  If l rs (B ++ [Expr l rs]) [].
   A real execution runs the body any number of times: unroll. *)
Fixpoint bapp (a b : block) : block :=
  match a with BNil => b | BCons s r => BCons s (bapp r b) end.
Definition bsingle (s : stmt) : block := BCons s BNil.

(* the loop run at most k more times / analysed once *)
Fixpoint unroll (l : line) (rs : list var) (body : block) (k : nat) : stmt :=
  match k with
  | 0 => Expr l rs
  | S k' => If l rs (bapp body (bsingle (unroll l rs body k'))) BNil
  end.
Definition once (l : line) (rs : list var) (body1 : block) : stmt :=
  If l rs (bapp body1 (bsingle (Expr l rs))) BNil.


(* ------------------------------------------------------------------ for loops (proof/C09_For.v)
   visit_For analyses   for x in f(rs): B   as the straight-line block   x = f(rs); B   (the body is visited once, in the same
   path).  A real execution evaluates the iterable once and runs  x = <next item>; B  k times, k >= 0. *)
Definition for_analysed (l : line) (x : var) (rs : list var) (body : block) : block := BCons (Assign l x rs) body.
Fixpoint iterations (l : line) (x : var) (body : block) (k : nat) : block :=
  match k with 0 => BNil | S k' => bapp (BCons (Assign l x []) body) (iterations l x body k') end.
Definition for_run (l : line) (x : var) (rs : list var) (body : block) (k : nat) : block :=
  BCons (Expr l rs) (iterations l x body k).
