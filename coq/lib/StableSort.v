(* Stable insertion sort by an integer key, and the lemma the resolver proofs need:
   the first element satisfying P in the sorted list is the EARLIEST element of
   MINIMAL key among those satisfying P in the original list. *)
From Coq Require Import ZArith List Bool Lia Permutation Sorted.
Import ListNotations.
Open Scope Z_scope.

Section Sort.
  Context {A : Type}.
  Variable k : A -> Z.

  Fixpoint insert_by (x : A) (l : list A) : list A :=
    match l with
    | [] => [x]
    | y :: l' => if k x <=? k y then x :: l else y :: insert_by x l'
    end.
  Fixpoint sort_by (l : list A) : list A :=
    match l with
    | [] => []
    | x :: l' => insert_by x (sort_by l')
    end.

  Definition sorted (l : list A) : Prop := StronglySorted (fun a b => k a <= k b) l.

  Lemma insert_perm x l : Permutation (x :: l) (insert_by x l).
  Proof.
    induction l as [|y l IH]; cbn; [reflexivity|].
    destruct (k x <=? k y); [reflexivity|].
    rewrite perm_swap. now constructor.
  Qed.

  Lemma sort_perm l : Permutation l (sort_by l).
  Proof.
    induction l as [|x l IH]; cbn; [constructor|].
    rewrite <- insert_perm. now constructor.
  Qed.

  Lemma insert_sorted x l : sorted l -> sorted (insert_by x l).
  Proof.
    induction l as [|y l IH]; cbn; intros H.
    - constructor; constructor.
    - destruct (Z.leb_spec (k x) (k y)).
      + constructor; [assumption|]. inversion H as [|? ? Hs Hall]; subst.
        constructor; [assumption|]. rewrite Forall_forall in *. intros z Hz. specialize (Hall z Hz). lia.
      + inversion H as [|? ? Hs Hall]; subst. constructor; [now apply IH|].
        rewrite Forall_forall in *. intros z Hz.
        apply (Permutation_in _ (Permutation_sym (insert_perm x l))) in Hz.
        destruct Hz as [->|Hz]; [lia|now apply Hall].
  Qed.

  Lemma sort_sorted l : sorted (sort_by l).
  Proof. induction l; cbn; [constructor|now apply insert_sorted]. Qed.

  Variable P : A -> bool.

  (* earliest element of minimal key among those satisfying P (original order) *)
  Fixpoint best (l : list A) : option A :=
    match l with
    | [] => None
    | x :: l' =>
        if P x then match best l' with
                    | Some y => if k x <=? k y then Some x else Some y
                    | None => Some x
                    end
        else best l'
    end.

  Lemma find_sorted_min l y : sorted l -> find P l = Some y -> forall z, In z l -> P z = true -> k y <= k z.
  Proof.
    induction l as [|a l IH]; cbn; intros Hs Hf z Hz Pz; [contradiction|].
    inversion Hs as [|? ? Hs' Hall]; subst. rewrite Forall_forall in Hall.
    destruct (P a) eqn:Pa.
    - injection Hf as <-. destruct Hz as [->|Hz]; [lia|now apply Hall].
    - destruct Hz as [->|Hz]; [congruence|]. eapply IH; eauto.
  Qed.

  Lemma find_insert x l :
    sorted l ->
    find P (insert_by x l) =
      if P x then match find P l with
                  | Some y => if k x <=? k y then Some x else Some y
                  | None => Some x
                  end
      else find P l.
  Proof.
    induction l as [|y l IH]; intros Hs.
    - cbn. destruct (P x); reflexivity.
    - cbn [insert_by]. destruct (Z.leb_spec (k x) (k y)) as [Hle|Hgt].
      + cbn [find]. destruct (P x) eqn:Px; [|reflexivity].
        destruct (P y) eqn:Py.
        * destruct (Z.leb_spec (k x) (k y)); [reflexivity|lia].
        * destruct (find P l) as [y'|] eqn:Hf; [|reflexivity].
          assert (k y <= k y').
          { inversion Hs as [|? ? Hs' Hall]; subst. rewrite Forall_forall in Hall.
            apply Hall. eapply find_some; eauto. }
          destruct (Z.leb_spec (k x) (k y')); [reflexivity|lia].
      + cbn [find]. destruct (P y) eqn:Py.
        * destruct (P x); [|reflexivity].
          destruct (Z.leb_spec (k x) (k y)); [lia|reflexivity].
        * inversion Hs; subst. now apply IH.
  Qed.

  Lemma find_sort l : find P (sort_by l) = best l.
  Proof.
    induction l as [|x l IH]; cbn; [reflexivity|].
    rewrite find_insert by apply sort_sorted. rewrite IH. reflexivity.
  Qed.

  Lemma best_none l : best l = None -> forall y, In y l -> P y = false.
  Proof.
    induction l as [|x l IH]; cbn; intros H y Hy; [contradiction|].
    destruct (P x) eqn:Px.
    - destruct (best l) as [b|]; [destruct (k x <=? k b)|]; discriminate.
    - destruct Hy as [->|Hy]; [assumption|now apply IH].
  Qed.

  Lemma best_some l b : best l = Some b ->
    In b l /\ P b = true /\ (forall y, In y l -> P y = true -> k b <= k y).
  Proof.
    revert b. induction l as [|x l IH]; cbn; intros b H; [discriminate|].
    destruct (P x) eqn:Px.
    - destruct (best l) as [b'|] eqn:Hb.
      + destruct (IH b' eq_refl) as (Hin & Pb & Hmin).
        destruct (Z.leb_spec (k x) (k b')); injection H as <-.
        * split; [now left|]. split; [assumption|]. intros y [->|Hy] Py; [lia|]. specialize (Hmin y Hy Py). lia.
        * split; [now right|]. split; [assumption|]. intros y [->|Hy] Py; [lia|now apply Hmin].
      + injection H as <-. split; [now left|]. split; [assumption|].
        intros y [->|Hy] Py; [lia|]. rewrite (best_none l Hb y Hy) in Py. discriminate.
    - destruct (IH b H) as (Hin & Pb & Hmin). split; [now right|]. split; [assumption|].
      intros y [->|Hy] Py; [congruence|now apply Hmin].
  Qed.

  (* ties go to the element created first: no element of the same key satisfying P precedes b *)
  Lemma best_earliest l b : best l = Some b ->
    exists l1 l2, l = l1 ++ b :: l2 /\ (forall y, In y l1 -> P y = true -> k b < k y).
  Proof.
    revert b. induction l as [|x l IH]; cbn; intros b H; [discriminate|].
    destruct (P x) eqn:Px.
    - destruct (best l) as [b'|] eqn:Hb.
      + destruct (Z.leb_spec (k x) (k b')); injection H as <-.
        * exists [], l. split; [reflexivity|]. intros y [].
        * destruct (IH b' eq_refl) as (l1 & l2 & -> & Hbefore).
          exists (x :: l1), l2. split; [reflexivity|].
          intros y [->|Hy] Py; [lia|now apply Hbefore].
      + injection H as <-. exists [], l. split; [reflexivity|]. intros y [].
    - destruct (IH b H) as (l1 & l2 & -> & Hbefore).
      exists (x :: l1), l2. split; [reflexivity|].
      intros y [->|Hy] Py; [congruence|now apply Hbefore].
  Qed.
End Sort.
