(* Python strings as lists of code points; the whitespace-sensitive operations pedal uses. *)
From Coq Require Import ZArith List Bool Lia.
Import ListNotations.
Open Scope Z_scope.

Definition str := list Z.

(* str.isspace() for one code point (CPython 3.12 / Unicode White_Space + \x1c-\x1f) *)
Definition is_space (c : Z) : bool :=
  ((9 <=? c) && (c <=? 13)) || ((28 <=? c) && (c <=? 32)) || (c =? 133) || (c =? 160) || (c =? 5760)
  || ((8192 <=? c) && (c <=? 8202)) || (c =? 8232) || (c =? 8233) || (c =? 8239) || (c =? 8287) || (c =? 12288).

Definition NL : Z := 10.

(* s.rstrip() *)
Fixpoint rstrip (s : str) : str :=
  match s with
  | [] => []
  | c :: s' => match rstrip s' with
               | [] => if is_space c then [] else [c]
               | r => c :: r
               end
  end.

(* s.split("\n") : always at least one piece *)
Fixpoint split_nl (s : str) : list str :=
  match s with
  | [] => [[]]
  | c :: s' => if c =? NL then [] :: split_nl s'
               else match split_nl s' with
                    | [] => [[c]]          (* unreachable *)
                    | p :: ps => (c :: p) :: ps
                    end
  end.

(* the line view of one execution's text:  [l.rstrip() for l in text.rstrip().split("\n")] *)
Definition lines_of (text : str) : list str := map rstrip (split_nl (rstrip text)).

Lemma split_nl_nonempty s : split_nl s <> [].
Proof. induction s as [|c s IH]; cbn; [discriminate|]. destruct (c =? NL); [discriminate|]. destruct (split_nl s); [contradiction|discriminate]. Qed.

Lemma rstrip_idem s : rstrip (rstrip s) = rstrip s.
Proof.
  induction s as [|c s IH]; cbn; [reflexivity|].
  destruct (rstrip s) as [|d r] eqn:E.
  - destruct (is_space c) eqn:Ec; cbn; [reflexivity|]. now rewrite Ec.
  - cbn. cbn in IH. rewrite IH. reflexivity.
Qed.

(* joining the pieces of split_nl with "\n" gives the string back *)
Fixpoint join_nl (ps : list str) : str :=
  match ps with
  | [] => []
  | [p] => p
  | p :: ps' => p ++ NL :: join_nl ps'
  end.

Lemma join_split s : join_nl (split_nl s) = s.
Proof.
  induction s as [|c s IH]; cbn; [reflexivity|].
  destruct (c =? NL) eqn:E.
  - apply Z.eqb_eq in E. subst c. destruct (split_nl s) eqn:Es; [now destruct (split_nl_nonempty s)|].
    cbn. cbn in IH. now rewrite IH.
  - destruct (split_nl s) as [|p ps] eqn:Es; [now destruct (split_nl_nonempty s)|].
    destruct ps; cbn in *; now rewrite IH.
Qed.
