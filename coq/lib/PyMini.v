(* PyMini: a deep embedding of the tiny loop-free Python fragment that the
   T2/T3 translators emit (small pure pedal functions: threshold checks,
   priority keys, score arithmetic, condition expressions).

   Values are dynamically typed; operations that CPython rejects return
   [Err] instead of being totalised.  The interpreter is structural (no
   fuel): the fragment has no loops. *)
From Coq Require Import ZArith List String Bool.
Import ListNotations.
Open Scope string_scope.
Open Scope Z_scope.

Inductive val :=
| VZ (z : Z)
| VB (b : bool)
| VS (s : string)
| VNone
| VT (items : list val).          (* tuple / list literal used with `in` *)

Inductive res (A : Type) :=
| Ok (a : A)
| Err (cls : string).
Arguments Ok {A} a.
Arguments Err {A} cls.

Inductive cmpop := CEq | CNe | CLt | CLe | CGt | CGe | CIs | CIsNot | CIn | CNotIn.
Inductive binop := BAdd | BSub | BMul.

Inductive expr :=
| EZ (z : Z)
| ES (s : string)
| EB (b : bool)
| ENone
| EVar (x : string)
| ETuple (es : list expr)
| ECmp (op : cmpop) (a b : expr)
| EBin (op : binop) (a b : expr)
| ENot (a : expr)
| EAnd (a b : expr)
| EOr (a b : expr)
| EIfExp (c a b : expr).

Inductive stmt :=
| SAssign (x : string) (e : expr)
| SIf (c : expr) (th el : list stmt)
| SReturn (e : expr)
| SRaise (cls : string)
| SSkip.

Definition env := list (string * val).

Fixpoint lookup (x : string) (r : env) : option val :=
  match r with
  | [] => None
  | (y, v) :: r' => if String.eqb x y then Some v else lookup x r'
  end.

Definition truthy (v : val) : bool :=
  match v with
  | VZ z => negb (z =? 0)
  | VB b => b
  | VS s => negb (String.eqb s "")
  | VNone => false
  | VT l => match l with [] => false | _ => true end
  end.

(* numeric view: Python's bool is an int *)
Definition as_num (v : val) : option Z :=
  match v with VZ z => Some z | VB true => Some 1 | VB false => Some 0 | _ => None end.

Fixpoint val_eqb (a b : val) {struct a} : bool :=
  match as_num a, as_num b with
  | Some x, Some y => x =? y
  | _, _ =>
    match a, b with
    | VS s, VS t => String.eqb s t
    | VNone, VNone => true
    | VT l, VT m =>
        (fix go (l : list val) (m : list val) : bool :=
           match l, m with
           | [], [] => true
           | x :: l', y :: m' => val_eqb x y && go l' m'
           | _, _ => false
           end) l m
    | _, _ => false
    end
  end.

Definition val_is (a b : val) : bool :=
  match a, b with
  | VNone, VNone => true
  | VB x, VB y => Bool.eqb x y
  | VZ x, VZ y => x =? y          (* small ints / interned constants only; translators refuse `is` elsewhere *)
  | VS s, VS t => String.eqb s t
  | _, _ => false
  end.

Definition cmp_order (op : cmpop) (a b : val) : res bool :=
  match as_num a, as_num b with
  | Some x, Some y =>
      Ok (match op with CLt => x <? y | CLe => x <=? y | CGt => x >? y | _ => x >=? y end)
  | _, _ =>
    match a, b with
    | VS s, VS t =>
        let c := String.compare s t in
        Ok (match op, c with
            | CLt, Lt => true | CLe, Lt => true | CLe, Eq => true
            | CGt, Gt => true | CGe, Gt => true | CGe, Eq => true
            | _, _ => false end)
    | _, _ => Err "TypeError"
    end
  end.

Definition eval_cmp (op : cmpop) (a b : val) : res val :=
  match op with
  | CEq => Ok (VB (val_eqb a b))
  | CNe => Ok (VB (negb (val_eqb a b)))
  | CIs => Ok (VB (val_is a b))
  | CIsNot => Ok (VB (negb (val_is a b)))
  | CIn => match b with VT l => Ok (VB (existsb (val_eqb a) l)) | _ => Err "TypeError" end
  | CNotIn => match b with VT l => Ok (VB (negb (existsb (val_eqb a) l))) | _ => Err "TypeError" end
  | _ => match cmp_order op a b with Ok r => Ok (VB r) | Err c => Err c end
  end.

Definition eval_bin (op : binop) (a b : val) : res val :=
  match as_num a, as_num b with
  | Some x, Some y => Ok (VZ (match op with BAdd => x + y | BSub => x - y | BMul => x * y end))
  | _, _ =>
    match op, a, b with
    | BAdd, VS s, VS t => Ok (VS (String.append s t))
    | _, _, _ => Err "TypeError"
    end
  end.

Fixpoint eval (r : env) (e : expr) {struct e} : res val :=
  match e with
  | EZ z => Ok (VZ z)
  | ES s => Ok (VS s)
  | EB b => Ok (VB b)
  | ENone => Ok VNone
  | EVar x => match lookup x r with Some v => Ok v | None => Err "NameError" end
  | ETuple es =>
      (fix go (es : list expr) : res val :=
         match es with
         | [] => Ok (VT [])
         | e :: es' =>
             match eval r e with
             | Err c => Err c
             | Ok v => match go es' with Ok (VT l) => Ok (VT (v :: l)) | Ok _ => Err "internal" | Err c => Err c end
             end
         end) es
  | ECmp op a b =>
      match eval r a with
      | Err c => Err c
      | Ok va => match eval r b with Err c => Err c | Ok vb => eval_cmp op va vb end
      end
  | EBin op a b =>
      match eval r a with
      | Err c => Err c
      | Ok va => match eval r b with Err c => Err c | Ok vb => eval_bin op va vb end
      end
  | ENot a => match eval r a with Err c => Err c | Ok v => Ok (VB (negb (truthy v))) end
  | EAnd a b => match eval r a with
                | Err c => Err c
                | Ok v => if truthy v then eval r b else Ok v
                end
  | EOr a b => match eval r a with
               | Err c => Err c
               | Ok v => if truthy v then Ok v else eval r b
               end
  | EIfExp c a b => match eval r c with
                    | Err k => Err k
                    | Ok v => if truthy v then eval r a else eval r b
                    end
  end.

(* Outcome of a block: fell through with an environment, returned, or raised. *)
Inductive outcome :=
| Fall (r : env)
| Ret (v : val)
| Raise (cls : string).

Fixpoint exec (r : env) (s : stmt) {struct s} : outcome :=
  match s with
  | SAssign x e => match eval r e with Ok v => Fall ((x, v) :: r) | Err c => Raise c end
  | SReturn e => match eval r e with Ok v => Ret v | Err c => Raise c end
  | SRaise c => Raise c
  | SSkip => Fall r
  | SIf c th el =>
      match eval r c with
      | Err k => Raise k
      | Ok v =>
          (fix block (r : env) (ss : list stmt) : outcome :=
             match ss with
             | [] => Fall r
             | s :: ss' => match exec r s with Fall r' => block r' ss' | o => o end
             end) r (if truthy v then th else el)
      end
  end.

Fixpoint exec_block (r : env) (ss : list stmt) : outcome :=
  match ss with
  | [] => Fall r
  | s :: ss' => match exec r s with Fall r' => exec_block r' ss' | o => o end
  end.

(* A Python function falling off its end returns None. *)
Definition call (params : list string) (body : list stmt) (args : list val) : res val :=
  match exec_block (combine params args) body with
  | Fall _ => Ok VNone
  | Ret v => Ok v
  | Raise c => Err c
  end.
