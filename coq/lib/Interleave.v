(* All interleavings of two step lists, and completeness: every schedule is in the list. *)
From Coq Require Import List.
Import ListNotations.

Section Interleave.
  Context {A : Type}.

  (* m is an interleaving of a and b (order inside a and inside b preserved) *)
  Inductive interleaving : list A -> list A -> list A -> Prop :=
  | il_nil : interleaving [] [] []
  | il_left x a b m : interleaving a b m -> interleaving (x :: a) b (x :: m)
  | il_right y a b m : interleaving a b m -> interleaving a (y :: b) (y :: m).

  Fixpoint merges (a : list A) : list A -> list (list A) :=
    fix inner (b : list A) : list (list A) :=
      match a, b with
      | [], _ => [b]
      | _, [] => [a]
      | x :: a', y :: b' => map (cons x) (merges a' b) ++ map (cons y) (inner b')
      end.

  Lemma merges_nil_r a : merges a [] = [a].
  Proof. destruct a; reflexivity. Qed.
  Lemma merges_nil_l b : merges [] b = [b].
  Proof. destruct b; reflexivity. Qed.

  Lemma interleaving_nil_l b m : interleaving [] b m -> m = b.
  Proof.
    remember [] as a eqn:Ea. induction 1; subst; try discriminate; [reflexivity|].
    f_equal. now apply IHinterleaving.
  Qed.
  Lemma interleaving_nil_r a m : interleaving a [] m -> m = a.
  Proof.
    remember [] as b eqn:Eb. induction 1; subst; try discriminate; [reflexivity|].
    f_equal. now apply IHinterleaving.
  Qed.

  (* completeness: EVERY interleaving is enumerated *)
  Theorem merges_complete a b m : interleaving a b m -> In m (merges a b).
  Proof.
    induction 1 as [|x a b m H IH|y a b m H IH].
    - now left.
    - destruct b as [|y b'].
      + rewrite merges_nil_r. apply interleaving_nil_r in H. subst. now left.
      + change (merges (x :: a) (y :: b')) with (map (cons x) (merges a (y :: b')) ++ map (cons y) (merges (x :: a) b')).
        apply in_or_app. left. now apply in_map.
    - destruct a as [|x a'].
      + rewrite merges_nil_l. apply interleaving_nil_l in H. subst. now left.
      + change (merges (x :: a') (y :: b)) with (map (cons x) (merges a' (y :: b)) ++ map (cons y) (merges (x :: a') b)).
        apply in_or_app. right. now apply in_map.
  Qed.
End Interleave.
