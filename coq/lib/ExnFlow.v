(* ExnFlow: control-flow / exception skeletons of Python functions (the T4 translator's target).

   A skeleton keeps: sequencing, opaque conditionals, try/except/else/finally, raise, return, and
   primitive call sites.  A primitive site may complete normally or raise any class in its contract
   set; which one happens is decided by an ORACLE.  [paths] enumerates every behaviour and
   [paths_complete] shows that whatever the oracle answers, the execution is one of the enumerated
   paths - so a finite check over [paths] is a statement about ALL oracles. *)
From Coq Require Import List Bool Arith.
Import ListNotations.

(* exception classes, abstracted to the handler-relevant lattice *)
Inductive exn :=
| EBase          (* BaseException subclasses that are neither Exception nor SystemExit:
                    KeyboardInterrupt, GeneratorExit, user classes deriving BaseException *)
| ESystemExit
| EException     (* any Exception subclass not named below *)
| ETimeout       (* TimeoutError *)
| ESyntax        (* SyntaxError (not IndentationError) *)
| EIndent        (* IndentationError and subclasses *)
| ERecursion.    (* RecursionError / MemoryError: Exception subclasses raised by deep inputs *)

(* handler patterns as they appear in `except C:` *)
Inductive pat := PBaseException | PException | PSystemExit | PTimeout | PSyntax | PIndent | PRecursion.

Definition matches (e : exn) (p : pat) : bool :=
  match p, e with
  | PBaseException, _ => true
  | PException, (EException | ETimeout | ESyntax | EIndent | ERecursion) => true
  | PSystemExit, ESystemExit => true
  | PTimeout, ETimeout => true
  | PSyntax, (ESyntax | EIndent) => true
  | PIndent, EIndent => true
  | PRecursion, ERecursion => true
  | _, _ => false
  end.

Section Flow.
  Variable eff : Type.     (* tracked effects (patch start/stop, feedback added, ...) *)

  Inductive stmt :=
  | Skip
  | Eff (e : eff)                           (* tracked effect that cannot raise *)
  | Prim (site : nat) (may : list exn)      (* call site; completes or raises a class of [may] *)
  | Seq (a b : stmt)
  | If (site : nat) (a b : stmt)            (* opaque condition *)
  | Try (body : stmt) (hs : handlers) (orelse final : stmt)
  | Raise (e : exn)
  | Reraise                                 (* bare `raise` inside a handler *)
  | Return
  | Scope (body : stmt)                     (* an inlined callee: its `return` ends only the callee *)
  with handlers :=
  | HNil
  | HCons (p : pat) (guard : option nat) (body : stmt) (rest : handlers).
  (* guard = Some site: the handler names a class the abstraction cannot decide (e.g. `except KeyError`);
     it catches a matching exception iff the oracle says so at [site] *)

  Scheme stmt_ind2 := Induction for stmt Sort Prop
    with handlers_ind2 := Induction for handlers Sort Prop.
  Combined Scheme stmt_handlers_ind from stmt_ind2, handlers_ind2.

  Inductive outcome := Normal | Returned | Raised (e : exn).

  Record oracle := mkOracle { raises_at : nat -> option exn; cond_at : nat -> bool }.

  Definition exn_eqb (a b : exn) : bool :=
    match a, b with
    | EBase, EBase | ESystemExit, ESystemExit | EException, EException | ETimeout, ETimeout
    | ESyntax, ESyntax | EIndent, EIndent | ERecursion, ERecursion => true
    | _, _ => false
    end.

  Lemma exn_eqb_eq a b : exn_eqb a b = true -> a = b.
  Proof. destruct a, b; cbn; congruence. Qed.

  (* [cur] = the exception being handled (for bare raise) *)
  Fixpoint exec (o : oracle) (cur : option exn) (s : stmt) {struct s} : outcome * list eff :=
    match s with
    | Skip => (Normal, [])
    | Eff e => (Normal, [e])
    | Prim site may =>
        match raises_at o site with
        | Some e => if existsb (exn_eqb e) may then (Raised e, []) else (Normal, [])
        | None => (Normal, [])
        end
    | Seq a b =>
        match exec o cur a with
        | (Normal, ta) => let '(ob, tb) := exec o cur b in (ob, ta ++ tb)
        | r => r
        end
    | If site a b => if cond_at o site then exec o cur a else exec o cur b
    | Try body hs orelse final =>
        let '(ob, tb) := exec o cur body in
        let '(o1, t1) :=
          match ob with
          | Normal => let '(oe, te) := exec o cur orelse in (oe, tb ++ te)
          | Raised e => let '(oh, th) := exec_handlers o e hs in (oh, tb ++ th)
          | Returned => (Returned, tb)
          end in
        let '(of, tf) := exec o cur final in
        match of with
        | Normal => (o1, t1 ++ tf)
        | _ => (of, t1 ++ tf)
        end
    | Raise e => (Raised e, [])
    | Reraise => (match cur with Some e => Raised e | None => Raised EException end, [])
    | Return => (Returned, [])
    | Scope body => match exec o cur body with (Returned, t) => (Normal, t) | r => r end
    end
  with exec_handlers (o : oracle) (e : exn) (hs : handlers) {struct hs} : outcome * list eff :=
    match hs with
    | HNil => (Raised e, [])
    | HCons p g body rest =>
        if (matches e p && match g with Some site => cond_at o site | None => true end)%bool
        then exec o (Some e) body else exec_handlers o e rest
    end.

  (* ---------------- all behaviours ---------------- *)
  Definition seq_paths (pa : list (outcome * list eff)) (pb : list (outcome * list eff)) :=
    flat_map (fun '(oa, ta) =>
                match oa with
                | Normal => map (fun '(ob, tb) => (ob, ta ++ tb)) pb
                | _ => [(oa, ta)]
                end) pa.

  Definition fin_paths (p1 : list (outcome * list eff)) (pf : list (outcome * list eff)) :=
    flat_map (fun '(o1, t1) =>
                map (fun '(of, tf) => (match of with Normal => o1 | _ => of end, t1 ++ tf)) pf) p1.

  Definition all_exn : list exn := [EBase; ESystemExit; EException; ETimeout; ESyntax; EIndent; ERecursion].

  Fixpoint paths (cur : option exn) (s : stmt) {struct s} : list (outcome * list eff) :=
    match s with
    | Skip => [(Normal, [])]
    | Eff e => [(Normal, [e])]
    | Prim _ may => (Normal, []) :: map (fun e => (Raised e, [])) may
    | Seq a b => seq_paths (paths cur a) (paths cur b)
    | If _ a b => paths cur a ++ paths cur b
    | Try body hs orelse final =>
        let pb := paths cur body in
        let p1 :=
          flat_map (fun '(ob, tb) =>
                      match ob with
                      | Normal => map (fun '(oe, te) => (oe, tb ++ te)) (paths cur orelse)
                      | Raised e => map (fun '(oh, th) => (oh, tb ++ th)) (paths_handlers e hs)
                      | Returned => [(Returned, tb)]
                      end) pb in
        fin_paths p1 (paths cur final)
    | Raise e => [(Raised e, [])]
    | Reraise => [(match cur with Some e => Raised e | None => Raised EException end, [])]
    | Return => [(Returned, [])]
    | Scope body => map (fun '(ob, t) => (match ob with Returned => Normal | _ => ob end, t)) (paths cur body)
    end
  with paths_handlers (e : exn) (hs : handlers) {struct hs} : list (outcome * list eff) :=
    match hs with
    | HNil => [(Raised e, [])]
    | HCons p g body rest =>
        if matches e p then
          match g with
          | None => paths (Some e) body
          | Some _ => paths (Some e) body ++ paths_handlers e rest
          end
        else paths_handlers e rest
    end.

  Lemma in_seq_paths pa pb oa ta :
    In (oa, ta) pa ->
    match oa with
    | Normal => forall ob tb, In (ob, tb) pb -> In (ob, ta ++ tb) (seq_paths pa pb)
    | _ => In (oa, ta) (seq_paths pa pb)
    end.
  Proof.
    intros H. unfold seq_paths. destruct oa.
    - intros ob tb Hb. apply in_flat_map. exists (Normal, ta). split; [exact H|].
      apply in_map_iff. exists (ob, tb). auto.
    - apply in_flat_map. exists (Returned, ta). split; [exact H|]. now left.
    - apply in_flat_map. exists (Raised e, ta). split; [exact H|]. now left.
  Qed.

  Lemma in_fin_paths p1 pf o1 t1 of tf :
    In (o1, t1) p1 -> In (of, tf) pf ->
    In (match of with Normal => o1 | _ => of end, t1 ++ tf) (fin_paths p1 pf).
  Proof.
    intros H1 Hf. unfold fin_paths. apply in_flat_map. exists (o1, t1). split; [exact H1|].
    apply in_map_iff. exists (of, tf). auto.
  Qed.

  (* METATHEOREM: whatever the oracle answers, the execution is one of the enumerated paths *)
  Lemma paths_complete_both o :
    (forall s cur, In (exec o cur s) (paths cur s)) /\
    (forall hs e, In (exec_handlers o e hs) (paths_handlers e hs)).
  Proof.
    apply stmt_handlers_ind.
    - intros cur. now left.
    - intros e cur. now left.
    - intros site may cur. cbn [exec paths].
      destruct (raises_at o site) as [e|]; [|now left].
      destruct (existsb (exn_eqb e) may) eqn:E; [|now left].
      right. apply in_map_iff. apply existsb_exists in E. destruct E as (x & Hx & Heq).
      apply exn_eqb_eq in Heq. subst x. exists e. auto.
    - intros a IHa b IHb cur. cbn [exec paths].
      specialize (IHa cur). specialize (IHb cur).
      destruct (exec o cur a) as [oa ta]. pose proof (in_seq_paths _ (paths cur b) _ _ IHa) as H.
      destruct oa; [|exact H|exact H].
      destruct (exec o cur b) as [ob tb]. now apply H.
    - intros site a IHa b IHb cur. cbn [exec paths]. apply in_or_app.
      destruct (cond_at o site); [left; apply IHa|right; apply IHb].
    - intros body IHb hs IHh orelse IHe final IHf cur. cbn [exec paths].
      specialize (IHb cur). specialize (IHe cur). specialize (IHf cur).
      destruct (exec o cur body) as [ob tb].
      set (p1 := flat_map _ (paths cur body)).
      assert (H1 : In (match ob with
                       | Normal => let '(oe, te) := exec o cur orelse in (oe, tb ++ te)
                       | Raised e => let '(oh, th) := exec_handlers o e hs in (oh, tb ++ th)
                       | Returned => (Returned, tb)
                       end) p1).
      { unfold p1. apply in_flat_map. exists (ob, tb). split; [exact IHb|].
        destruct ob as [| |e].
        - destruct (exec o cur orelse) as [oe te]. apply in_map_iff. exists (oe, te). auto.
        - now left.
        - specialize (IHh e). destruct (exec_handlers o e hs) as [oh th].
          apply in_map_iff. exists (oh, th). auto. }
      destruct (match ob with Normal => _ | Returned => _ | Raised e => _ end) as [o1 t1].
      destruct (exec o cur final) as [of tf].
      pose proof (in_fin_paths _ _ _ _ _ _ H1 IHf) as H. destruct of; exact H.
    - intros e cur. now left.
    - intros cur. now left.
    - intros cur. now left.
    - intros body IHb cur. cbn [exec paths]. specialize (IHb cur).
      destruct (exec o cur body) as [ob t]. apply in_map_iff. exists (ob, t). split; [|exact IHb].
      destruct ob; reflexivity.
    - intros e. now left.
    - intros p g body IHb rest IHr e. cbn [exec_handlers paths_handlers].
      destruct (matches e p); cbn [andb]; [|apply IHr].
      destruct g as [site|]; [|apply IHb].
      apply in_or_app. destruct (cond_at o site); [left; apply IHb|right; apply IHr].
  Qed.

  Theorem paths_complete o s cur : In (exec o cur s) (paths cur s).
  Proof. apply (proj1 (paths_complete_both o)). Qed.

  (* lifting a finite check to every oracle *)
  Theorem forall_paths (P : outcome * list eff -> bool) s :
    forallb P (paths None s) = true -> forall o, P (exec o None s) = true.
  Proof. intros H o. rewrite forallb_forall in H. apply H, paths_complete. Qed.
End Flow.

Arguments Skip {eff}.
Arguments Eff {eff} e.
Arguments Prim {eff} site may.
Arguments Seq {eff} a b.
Arguments If {eff} site a b.
Arguments Try {eff} body hs orelse final.
Arguments Raise {eff} e.
Arguments Reraise {eff}.
Arguments Return {eff}.
Arguments HNil {eff}.
Arguments HCons {eff} p guard body rest.
Arguments Scope {eff} body.
