(* Association lists keyed by strings, and the finite check that decides
   pointwise equality of two tables for EVERY key. *)
From Coq Require Import List String Bool.
Import ListNotations.
Open Scope string_scope.

Fixpoint assoc {A} (k : string) (l : list (string * A)) : option A :=
  match l with
  | [] => None
  | (a, b) :: l' => if String.eqb k a then Some b else assoc k l'
  end.

Lemma assoc_notin {A} k (l : list (string * A)) : ~ In k (map fst l) -> assoc k l = None.
Proof.
  induction l as [|[a b] l IH]; cbn; intros H; [reflexivity|].
  destruct (String.eqb_spec k a) as [->|Hne]; [exfalso; apply H; now left|].
  apply IH; intros Hin; apply H; now right.
Qed.

Definition opt_str_eqb (a b : option string) : bool :=
  match a, b with
  | Some x, Some y => String.eqb x y
  | None, None => true
  | _, _ => false
  end.

Lemma opt_str_eqb_eq a b : opt_str_eqb a b = true -> a = b.
Proof.
  destruct a, b; cbn; try discriminate; try reflexivity.
  intros H; apply String.eqb_eq in H; now subst.
Qed.

(* decide  forall k, assoc k l1 = assoc k l2  by looking at the keys present *)
Definition tables_agree_b (l1 l2 : list (string * string)) : bool :=
  forallb (fun k => opt_str_eqb (assoc k l1) (assoc k l2)) (map fst l1 ++ map fst l2).

Lemma tables_agree_sound l1 l2 :
  tables_agree_b l1 l2 = true -> forall k, assoc k l1 = assoc k l2.
Proof.
  unfold tables_agree_b; intros H k.
  rewrite forallb_forall in H.
  destruct (in_dec string_dec k (map fst l1 ++ map fst l2)) as [Hin|Hnot].
  - apply opt_str_eqb_eq, H, Hin.
  - rewrite !assoc_notin; [reflexivity| |]; intros Hin; apply Hnot, in_or_app; auto.
Qed.
