#!/usr/bin/env python3
"""Re-runs the quick check of its own property against every kept seeded change (in a scratch worktree of /repo's HEAD with the
patch applied, via VERIF_REPO) and reports the ones that are no longer caught.
usage: recheck_seeds.py [CNN ...]   -> one line per seed on stdout, summary at the end; exit 1 if a seed is missed."""
import glob
import json
import os
import re
import subprocess
import sys
import tempfile

props = sys.argv[1:] or None
missed = []
for d in sorted(glob.glob('/verif/seeded/*/')):
    sid = os.path.basename(d.rstrip('/'))
    prop = sid.split('-')[0]
    if props and prop not in props:
        continue
    wt = tempfile.mkdtemp(prefix='recheck_', dir='/var/tmp')
    os.rmdir(wt)
    try:
        subprocess.run('git -C /repo worktree add -q --detach %s HEAD' % wt, shell=True, check=True, capture_output=True)
        a = subprocess.run('git -C %s apply %spatch.diff' % (wt, d), shell=True, capture_output=True, text=True)
        if a.returncode != 0:
            print(sid, 'NOAPPLY', flush=True)
            missed.append(sid)
            continue
        p = subprocess.run('cd /verif && ./check %s --tier quick' % prop, shell=True, capture_output=True, text=True,
                           env=dict(os.environ, VERIF_REPO=wt, VERIF_SEED='1'), timeout=3000)
        lines = [l for l in p.stdout.splitlines() if l.startswith('VIOLATION')]
        with_input = [l for l in lines if not l.rstrip().endswith('no-failing-input-found')]
        ok = p.returncode == 1 and bool(lines)
        print(sid, 'caught' if ok else 'MISSED', 'violations=%d with_input=%d' % (len(lines), len(with_input)), flush=True)
        if not ok:
            missed.append(sid)
    finally:
        subprocess.run('git -C /repo worktree remove --force %s' % wt, shell=True, capture_output=True)
subprocess.run('git -C /repo worktree prune', shell=True)
print('missed:', missed)
sys.exit(1 if missed else 0)
