#!/venv/bin/python
"""Run the repository's pinned suite (guard OFF) and compare with /root/.vp/BASELINE.json's stable_pass list."""
import json, os, subprocess, sys, tempfile
import xml.etree.ElementTree as ET
repo = os.environ.get('VERIF_REPO', '/repo')
base = json.load(open('/root/.vp/BASELINE.json'))
xml = tempfile.mktemp(suffix='.xml', dir='/var/tmp')
env = dict(os.environ); env.pop('PEDAL_EDU_PEDAL_VERIF', None)
subprocess.run(['/venv/bin/python', '-m', 'pytest', '-q', '-p', 'no:cacheprovider', '--timeout=900',
                '--continue-on-collection-errors', '--junitxml=' + xml], cwd=repo, env=env,
               stdout=subprocess.DEVNULL, stderr=subprocess.DEVNULL)
passed = set()
for tc in ET.parse(xml).getroot().iter('testcase'):
    if not any(ch.tag in ('failure', 'error', 'skipped') for ch in tc):
        passed.add('%s::%s' % (tc.get('classname'), tc.get('name')))
os.unlink(xml)
want = set(base['stable_pass'])
missing = sorted(want - passed)
print('stable_pass=%d passing_now=%d missing=%d' % (len(want), len(passed & want), len(missing)))
for m in missing[:20]:
    print('  NOT PASSING:', m)
sys.exit(1 if missing else 0)
