#!/venv/bin/python
"""adopt_mutation.py <src dir> <seed id> <property>...
Confirms a seeded change in a scratch worktree (demo passes pristine, fails mutated; pinned suite still passes),
runs the given quick checks against it (applied to /repo, reverted straight afterwards) and files it under /verif/seeded/<id>/."""
import json, os, shutil, subprocess, sys, tempfile

CONFIRM_ONLY = '--confirm-only' in sys.argv    # phase A only: confirm and save the record under /var/tmp/confirm/<id>.json
USE_CONFIRM = '--use-confirm' in sys.argv      # phase B only: take the saved confirmation, run the checks
sys.argv = [a for a in sys.argv if a not in ('--confirm-only', '--use-confirm')]
SCRATCH = '--scratch' in sys.argv      # run the checks against a scratch worktree (VERIF_REPO) instead of applying the patch to /repo
sys.argv = [a for a in sys.argv if a != '--scratch']
src, sid, props = sys.argv[1], sys.argv[2], sys.argv[3:]
run = lambda c, **k: subprocess.run(c, shell=True, capture_output=True, text=True, **k)
meta = json.load(open(os.path.join(src, 'meta.json')))
rec = {}
os.makedirs('/var/tmp/confirm', exist_ok=True)
if USE_CONFIRM:
    rec = json.load(open('/var/tmp/confirm/%s.json' % sid))
    wt = None
else:
    wt = tempfile.mkdtemp(prefix='confirm_', dir='/var/tmp')
    os.rmdir(wt)
    assert run('git -C /repo worktree add -q --detach %s HEAD' % wt).returncode == 0
try:
  if not USE_CONFIRM:
      env = dict(os.environ, REPO_UNDER_TEST=wt, PYTHONPATH=wt, PYTHONHASHSEED='0')
      p = run('/venv/bin/python %s/demo.py' % src, env=env, cwd=wt, timeout=600)
      rec['demo_pristine'] = {'rc': p.returncode, 'tail': (p.stdout + p.stderr)[-200:]}
      a = run('git apply %s/patch.diff' % src, cwd=wt)
      rec['applies'] = a.returncode == 0
      p = run('/venv/bin/python %s/demo.py' % src, env=env, cwd=wt, timeout=600)
      rec['demo_mutated'] = {'rc': p.returncode, 'tail': (p.stdout + p.stderr)[-300:]}
      p = run('/verif/tools/baseline_check.py', env=dict(os.environ, VERIF_REPO=wt), timeout=1200)
      rec['suite_mutated'] = p.stdout.strip().splitlines()[-1] if p.stdout.strip() else p.stderr[-200:]
      rec['suite_ok'] = p.returncode == 0
finally:
    if wt:
        run('git -C /repo worktree remove --force %s' % wt)
ok_demo = rec['demo_pristine']['rc'] == 0 and 'FAIL' not in rec['demo_pristine']['tail'] and \
    (rec['demo_mutated']['rc'] != 0 or 'FAIL' in rec['demo_mutated']['tail'])
rec['confirmed'] = bool(ok_demo and rec.get('suite_ok') and rec.get('applies'))
if CONFIRM_ONLY:
    json.dump(rec, open('/var/tmp/confirm/%s.json' % sid, 'w'))
    print(sid, 'confirmed=%s' % rec['confirmed'])
    sys.exit(0)
# detection by the checks
det = {}
if SCRATCH:
    wt2 = tempfile.mkdtemp(prefix='scratch_', dir='/var/tmp')
    os.rmdir(wt2)
    assert run('git -C /repo worktree add -q --detach %s HEAD' % wt2).returncode == 0
    assert run('git apply %s/patch.diff' % src, cwd=wt2).returncode == 0
    os.environ['VERIF_REPO'] = wt2
else:
    assert run('git -C /repo status --short').stdout.strip() == '', '/repo not clean'
    run('git -C /repo apply %s/patch.diff' % src)
saved = {pid: open('/verif/evidence/%s.json' % pid).read() for pid in props if os.path.exists('/verif/evidence/%s.json' % pid)}
try:
    for pid in props:
        p = run('cd /verif && ./check %s --tier quick' % pid, timeout=3000)
        lines = [l for l in p.stdout.splitlines() if l.startswith('VIOLATION')]
        det[pid] = {'exit': p.returncode, 'violation_lines': len(lines),
                    'with_failing_input': sum(1 for l in lines if 'no-failing-input-found' not in l)}
finally:
    if SCRATCH:
        run('git -C /repo worktree remove --force %s' % wt2)
    else:
        run('git -C /repo checkout -- .')
    for pid, txt in saved.items():   # evidence must describe the unchanged tree
        open('/verif/evidence/%s.json' % pid, 'w').write(txt)
rec['detected_by'] = det
rec['checks_ran_against'] = 'scratch worktree via VERIF_REPO' if SCRATCH else '/repo with the patch applied'
dst = os.path.join('/verif/seeded', sid)
os.makedirs(dst, exist_ok=True)
for f in ('patch.diff', 'demo.py'):
    shutil.copy(os.path.join(src, f), dst)
meta.update({'id': sid, 'what_i_ran': rec})
json.dump(meta, open(os.path.join(dst, 'meta.json'), 'w'), indent=1)
print(sid, 'confirmed=%s' % rec['confirmed'], json.dumps(det))
