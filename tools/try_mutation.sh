#!/bin/bash
# usage: try_mutation.sh <dir with patch.diff> <property id>...   -- applies to /repo, runs quick checks, reverts
d=$1; shift
cd /repo || exit 2
if ! git apply --check "$d/patch.diff" 2>/dev/null; then echo "PATCH DOES NOT APPLY: $d"; exit 3; fi
git apply "$d/patch.diff"
for p in "$@"; do
  (cd /verif && ./check $p --tier quick 2>&1 | grep -E "^VIOLATION|^KNOWN|^\[$p\]" | head -6)
done
git -C /repo checkout -- .
git -C /repo status --short | head -3
