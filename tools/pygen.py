"""Grammar-based random generator of syntactically valid Python programs
(source text).  Every random choice comes from the rng passed in, so a seed
replays exactly.  Used by several correspondence harnesses; knobs select the
construct families."""
import ast

NAMES = ['a', 'b', 'c', 'x', 'y', 'total', 'items', 'n']
FUNCS = ['print', 'len', 'sum', 'max', 'foo', 'bar', 'input', 'int', 'range', 'sorted']
ATTRS = ['append', 'upper', 'sum', 'foo', 'strip', 'keys', 'print']
MODS = ['math', 'random', 'os', 'json', 'os.path', 'turtle']
CMP = ['==', '!=', '<', '<=', '>', '>=', 'is', 'is not', 'in', 'not in']
BIN = ['+', '-', '*', '/', '//', '%', '**', '>>', '<<', '|', '^', '&', '@']
BOOL = ['and', 'or']
UN = ['not ', '~', '-', '+']
INTS = [0, 1, 2, 5, 10, 42, 100]
FLOATS = ['0.5', '1.0', '2.5', '3.14', '10.0']
STRS = ['', 'a', 'hello', 'Hello', 'x y', '5', 'True']


class Gen:
    def __init__(self, rng, max_depth=3, full=True):
        self.r = rng
        self.max_depth = max_depth
        self.full = full  # include the exotic statement kinds

    # ------------------------------------------------------------ expressions
    def literal(self):
        r = self.r
        k = r.randrange(10)
        if k < 3:
            return str(r.choice(INTS))
        if k < 4:
            return r.choice(FLOATS)
        if k < 6:
            return repr(r.choice(STRS))
        if k < 7:
            return r.choice(['True', 'False'])
        if k < 8:
            # now and then one of the rarer constants: bytes, complex, Ellipsis
            return r.choice(['None', 'None', 'None', 'None', "b'ab'", "b'zz'", '2j', '1j', '...'])
        if k < 9:
            return '[' + ', '.join(self.literal() for _ in range(r.randrange(3))) + ']'
        return '{' + ', '.join('%s: %s' % (repr(r.choice(STRS)), self.literal()) for _ in range(r.randrange(3))) + '}'

    def expr(self, d=0):
        r = self.r
        if d >= self.max_depth:
            return r.choice([r.choice(NAMES), self.literal()])
        k = r.randrange(100)
        if k < 14:
            return r.choice(NAMES)
        if k < 26:
            return self.literal()
        if k < 44:
            return '(%s %s %s)' % (self.expr(d + 1), r.choice(BIN), self.expr(d + 1))
        if k < 58:
            n = 1 if r.random() < 0.7 else r.randrange(2, 4)
            s = self.expr(d + 1)
            for _ in range(n):
                s += ' %s %s' % (r.choice(CMP), self.expr(d + 1))
            return '(' + s + ')'
        if k < 66:
            op = r.choice(BOOL)
            return '(' + (' %s ' % op).join(self.expr(d + 1) for _ in range(r.randrange(2, 4))) + ')'
        if k < 72:
            return '(%s%s)' % (r.choice(UN), self.expr(d + 1))
        if k < 82:
            args = [self.expr(d + 1) for _ in range(r.randrange(3))]
            if r.random() < 0.2:
                args.append('%s=%s' % (r.choice(['end', 'sep', 'key']), self.expr(d + 1)))
            return '%s(%s)' % (r.choice(FUNCS), ', '.join(args))
        if k < 88:
            return '%s.%s(%s)' % (self.expr(d + 1) if r.random() < 0.3 else r.choice(NAMES), r.choice(ATTRS),
                                  ', '.join(self.expr(d + 1) for _ in range(r.randrange(2))))
        if k < 91:
            return '%s[%s]' % (r.choice(NAMES), self.expr(d + 1))
        if k < 93:
            return '(%s if %s else %s)' % (self.expr(d + 1), self.expr(d + 1), self.expr(d + 1))
        if k < 95:
            return '[%s for %s in %s]' % (self.expr(d + 1), r.choice(NAMES), self.expr(d + 1))
        if k < 96:
            first = r.choice(NAMES)
            params = first
            if r.random() < 0.5:
                # a parameter with a default: the default sits beside the parameters under the `arguments` node
                params += ', %s=%s' % (r.choice([n for n in NAMES if n != first]), r.choice([r.choice(NAMES), self.literal()]))
            return '(lambda %s: %s)' % (params, self.expr(d + 1))
        if k < 97:
            return '(%s, %s)' % (self.expr(d + 1), self.expr(d + 1))
        if k < 98:
            return '%s.%s' % (r.choice(NAMES), r.choice(ATTRS))
        if k < 99:
            return 'f"v={%s}"' % r.choice(NAMES)
        return '%s[%s:%s]' % (r.choice(NAMES), self.expr(d + 1), self.expr(d + 1))

    # ------------------------------------------------------------ statements
    def block(self, d, ind):
        n = self.r.randrange(1, 4)
        return ''.join(self.stmt(d, ind) for _ in range(n))

    def stmt(self, d, ind=''):
        r = self.r
        k = r.randrange(100)
        deep = d >= self.max_depth
        if k < 25 or (deep and k < 70):
            return '%s%s = %s\n' % (ind, r.choice(NAMES), self.expr())
        if k < 35 or deep:
            return '%s%s\n' % (ind, self.expr())
        if k < 40:
            return '%s%s %s= %s\n' % (ind, r.choice(NAMES), r.choice(['+', '-', '*', '//', '>>', '<<', '|']), self.expr())
        if k < 52:
            s = '%sif %s:\n%s' % (ind, self.expr(), self.block(d + 1, ind + '    '))
            while r.random() < 0.3:
                s += '%selif %s:\n%s' % (ind, self.expr(), self.block(d + 1, ind + '    '))
            if r.random() < 0.5:
                s += '%selse:\n%s' % (ind, self.block(d + 1, ind + '    '))
            return s
        if k < 58:
            s = '%swhile %s:\n%s' % (ind, self.expr(), self.block(d + 1, ind + '    '))
            if r.random() < 0.15:
                s += '%selse:\n%s' % (ind, self.block(d + 1, ind + '    '))
            return s
        if k < 66:
            s = '%sfor %s in %s:\n%s' % (ind, r.choice(NAMES), self.expr(), self.block(d + 1, ind + '    '))
            if r.random() < 0.15:
                s += '%selse:\n%s' % (ind, self.block(d + 1, ind + '    '))
            return s
        if k < 74:
            params = ', '.join(r.sample(NAMES, r.randrange(3)))
            body = self.block(d + 1, ind + '    ')
            if r.random() < 0.6:
                body += '%s    return %s\n' % (ind, self.expr())
            doc = ('%s    "doc"\n' % ind) if r.random() < 0.2 else ''
            return '%sdef %s(%s):\n%s%s' % (ind, r.choice(['foo', 'bar', 'helper', 'main']), params, doc, body)
        if k < 79:
            if r.random() < 0.5:
                names = r.sample(MODS, r.randrange(1, 3))
                return '%simport %s\n' % (ind, ', '.join(n + (' as m' if r.random() < 0.2 else '') for n in names))
            return '%sfrom %s import %s\n' % (ind, r.choice(MODS), r.choice(['*', 'sqrt', 'a, b', 'path as p']))
        if not self.full or k < 82:
            return '%sreturn %s\n' % (ind, self.expr()) if False else '%spass\n' % ind
        if k < 86:
            s = '%stry:\n%s' % (ind, self.block(d + 1, ind + '    '))
            s += '%sexcept %s:\n%s' % (ind, r.choice(['ValueError', 'Exception as e', '(KeyError, IndexError)', '']).strip() or 'Exception',
                                       self.block(d + 1, ind + '    '))
            if r.random() < 0.3:
                s += '%selse:\n%s' % (ind, self.block(d + 1, ind + '    '))
            if r.random() < 0.3:
                s += '%sfinally:\n%s' % (ind, self.block(d + 1, ind + '    '))
            return s
        if k < 89:
            return '%swith %s as %s:\n%s' % (ind, self.expr(), r.choice(NAMES), self.block(d + 1, ind + '    '))
        if k < 92:
            return '%sclass %s:\n%s    def m(self, %s):\n%s' % (ind, r.choice(['A', 'Dog']), ind, r.choice(NAMES),
                                                                self.block(d + 2, ind + '        '))
        if k < 94:
            return '%sassert %s, %s\n' % (ind, self.expr(), self.expr())
        if k < 96:
            return '%sdel %s\n' % (ind, r.choice(NAMES))
        if k < 97:
            return '%sglobal %s\n' % (ind, ', '.join(r.sample(NAMES, r.randrange(1, 3))))
        if k < 98:
            return '%s%s: int = %s\n' % (ind, r.choice(NAMES), self.expr())
        if k < 99:
            return '%sraise %s(%s)\n' % (ind, r.choice(['ValueError', 'Exception']), self.expr())
        return '%s%s, %s = %s\n' % (ind, r.choice(NAMES), r.choice(NAMES), self.expr())

    def program(self, nstmts=None):
        for _ in range(50):
            n = nstmts if nstmts is not None else self.r.randrange(1, 7)
            src = ''.join(self.stmt(0) for _ in range(n))
            try:
                ast.parse(src)
            except (SyntaxError, ValueError, RecursionError):
                continue
            return src
        return 'pass\n'
