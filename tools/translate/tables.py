"""T1: fail-closed extraction of literal tables (dict / list / tuple displays)
from pedal's source into Coq list literals."""
import ast

from vlib import Refusal
from translate.pymini import coq_string, load_module


def _key(e):
    if isinstance(e, ast.Constant) and isinstance(e.value, str):
        return e.value
    if isinstance(e, ast.Attribute) and isinstance(e.value, ast.Name):
        return e.attr  # ast.Add -> "Add"
    if isinstance(e, ast.Name):
        return e.id
    raise Refusal('table key %s' % ast.unparse(e))


def find_assign(tree_or_body, name):
    body = tree_or_body.body if hasattr(tree_or_body, 'body') else tree_or_body
    found = []
    for n in body:
        if isinstance(n, ast.Assign) and len(n.targets) == 1 and isinstance(n.targets[0], ast.Name) \
                and n.targets[0].id == name:
            found.append(n.value)
        if isinstance(n, ast.AnnAssign) and isinstance(n.target, ast.Name) and n.target.id == name and n.value:
            found.append(n.value)
    if len(found) != 1:
        raise Refusal('expected exactly one top-level assignment to %s, found %d' % (name, len(found)))
    return found[0]


def str_dict(relpath, name, cls=None):
    """dict display  {key: "string", ...}  ->  [(key, value)] ."""
    tree, _ = load_module(relpath)
    scope = tree
    if cls:
        cands = [n for n in tree.body if isinstance(n, ast.ClassDef) and n.name == cls]
        if len(cands) != 1:
            raise Refusal('class %s' % cls)
        scope = cands[0]
    v = find_assign(scope, name)
    if not isinstance(v, ast.Dict):
        raise Refusal('%s is not a dict display' % name)
    out = []
    for k, val in zip(v.keys, v.values):
        if k is None:
            raise Refusal('%s: dict unpacking' % name)
        out.append((_key(k), _key(val)))
    keys = [k for k, _ in out]
    if len(set(keys)) != len(keys):
        raise Refusal('%s: duplicate keys' % name)
    return out


def str_list(relpath, name, cls=None):
    tree, _ = load_module(relpath)
    scope = tree
    if cls:
        cands = [n for n in tree.body if isinstance(n, ast.ClassDef) and n.name == cls]
        if len(cands) != 1:
            raise Refusal('class %s' % cls)
        scope = cands[0]
    v = find_assign(scope, name)
    if not isinstance(v, (ast.List, ast.Tuple)):
        raise Refusal('%s is not a list display' % name)
    return [_key(e) for e in v.elts]


def coq_assoc(name, pairs):
    body = ';\n  '.join('(%s, %s)' % (coq_string(k), coq_string(v)) for k, v in pairs)
    return 'Definition %s : list (string * string) := [\n  %s\n].\n' % (name, body)


def coq_strlist(name, items):
    return 'Definition %s : list string := [%s].\n' % (name, '; '.join(coq_string(i) for i in items))
