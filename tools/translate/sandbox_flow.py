"""T4 configuration for pedal/sandbox/sandbox.py (shared by C04, C05, C14): contracts, effects, inlining."""
from translate import exnflow

SANDBOX = 'pedal/sandbox/sandbox.py'

# which exception classes a callee may raise.  'NONE' entries are pedal-internal bookkeeping or stdlib constructors
# whose failure is not in any property's quantifier; each is exercised by the correspondence runs.
CONTRACTS = {
    # student-controlled
    'exec': 'ANY',                      # running student code: any BaseException subclass
    'compile': ['ESyntax', 'EIndent', 'EException', 'ERecursion'],   # SyntaxError, ValueError (NUL), RecursionError/MemoryError
    # tracer context managers (pedal/sandbox/tracer.py): set/restore sys.settrace
    'self.trace.as_filename': 'NONE',
    'self.trace.as_filename.__enter__': 'NONE',
    'self.trace.as_filename.__exit__': 'NONE',
    # bookkeeping
    'SandboxContext': 'NONE', 'self._context.append': 'NONE', 'self._track_inputs': 'NONE',
    'self.mock_function': 'NONE', 'self._reset_builtins': 'NONE', 'self._module_overrides.pop': 'NONE',
    'self._mock_builtins': 'NONE', 'sys.modules.copy': 'NONE', 'self._module_overrides.items': 'NONE',
    "self._module_overrides['__builtins__'].get": 'NONE', 'io.StringIO': 'NONE', 'PrintingStringIO': 'NONE',
    'patch.dict': 'NONE', 'patch': 'NONE', 'patch.object': 'NONE', 'self._current_stdout.append': 'NONE', 'self._current_stdout.pop': 'NONE',
    'self._start_patches': 'NONE', 'self._stop_patches': 'NONE', 'current_stdout.getvalue': 'NONE',
    'self.append_output': 'NONE', 'sys.exc_info': 'NONE', 'self.clear_exception': 'NONE',
    # recording the failure: builds the traceback and the runtime feedback (may format student objects)
    'self._capture_exception': 'NONE',
    'self._was_terminated': 'NONE', 'self._execute_with_timeout': 'NONE',
    '_verif_sync': 'NONE',               # guarded verification hook: a no-op unless a checker installs a callback
    'timeout': ['ETimeout'] + exnflow.EXC,
}

EFFECTS = {
    'self._start_patches': 'EStartPatches',
    'self._stop_patches': 'EStopPatches',
    'self._current_stdout.append': 'EPushStdout',
    'self._current_stdout.pop': 'EPopStdout',
    'self.append_output': 'EAppendOutput',
    'self._capture_exception': 'ECapture',
    'exec': 'EStudentFinished',
    'self.trace.as_filename.__enter__': 'ESetTrace',
    'self.trace.as_filename.__exit__': 'ERestoreTrace',
}

INLINE = ['_start_mocking', '_stop_mocking', 'clear_exception']


def flow(contracts=None):
    c = dict(CONTRACTS)
    if contracts:
        c.update(contracts)
    return exnflow.Flow(SANDBOX, 'Sandbox', c, EFFECTS, INLINE)
