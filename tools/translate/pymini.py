"""T2/T3: fail-closed translator from small loop-free Python functions and
expressions to the PyMini deep embedding (coq/lib/PyMini.v).

Anything not recognised raises Refusal naming the construct; nothing is guessed.
"""
import ast
import os

from vlib import Refusal, REPO

CMP = {ast.Eq: 'CEq', ast.NotEq: 'CNe', ast.Lt: 'CLt', ast.LtE: 'CLe', ast.Gt: 'CGt', ast.GtE: 'CGe',
       ast.Is: 'CIs', ast.IsNot: 'CIsNot', ast.In: 'CIn', ast.NotIn: 'CNotIn'}
BIN = {ast.Add: 'BAdd', ast.Sub: 'BSub', ast.Mult: 'BMul'}


def coq_string(s):
    for ch in s:
        if not (32 <= ord(ch) < 127):
            raise Refusal('non-ASCII string constant %r' % s)
    return '"%s"' % s.replace('"', '""')


def coq_z(n):
    return '(%d)' % n


def load_module(relpath):
    path = os.path.join(REPO, relpath)
    with open(path, encoding='utf8') as f:
        src = f.read()
    return ast.parse(src, filename=path), src


def find_def(tree, qualname):
    """qualname: 'func' or 'Class.method' (first match at that nesting)."""
    parts = qualname.split('.')
    body = tree.body
    node = None
    for i, p in enumerate(parts):
        found = [n for n in body if isinstance(n, (ast.FunctionDef, ast.ClassDef)) and n.name == p]
        if len(found) != 1:
            raise Refusal('expected exactly one definition of %s, found %d' % ('.'.join(parts[:i + 1]), len(found)))
        node = found[0]
        body = node.body
    return node


class Tr:
    def __init__(self, atoms=None, field_reads=True, drop_targets=('self.fields',), consts=None, float_scale=None):
        self.atoms = atoms or {}
        self.field_reads = field_reads
        self.drop_targets = drop_targets
        self.consts = consts or {}
        self.used_atoms = set()
        self.float_scale = float_scale

    # ---- expressions
    def expr(self, e):
        src = ast.unparse(e)
        if src in self.atoms:
            self.used_atoms.add(src)
            return 'EVar %s' % coq_string(self.atoms[src])
        if isinstance(e, ast.Constant):
            v = e.value
            if v is None:
                return 'ENone'
            if isinstance(v, bool):
                return 'EB %s' % ('true' if v else 'false')
            if isinstance(v, int):
                return 'EZ %s' % coq_z(v)
            if isinstance(v, str):
                return 'ES %s' % coq_string(v)
            if isinstance(v, float) and self.float_scale:
                scaled = v * self.float_scale
                if abs(scaled - round(scaled)) < 1e-9:
                    return 'EZ %s' % coq_z(int(round(scaled)))
            raise Refusal('constant %r' % (v,))
        if isinstance(e, ast.Name):
            if e.id in self.consts:
                return self.consts[e.id]
            return 'EVar %s' % coq_string(e.id)
        if isinstance(e, ast.UnaryOp) and isinstance(e.op, ast.USub) and isinstance(e.operand, ast.Constant) \
                and isinstance(e.operand.value, int):
            return 'EZ %s' % coq_z(-e.operand.value)
        if isinstance(e, ast.UnaryOp) and isinstance(e.op, ast.Not):
            return 'ENot (%s)' % self.expr(e.operand)
        if isinstance(e, (ast.Tuple, ast.List)):
            return 'ETuple [%s]' % '; '.join(self.expr(x) for x in e.elts)
        if isinstance(e, ast.Compare):
            # a < b < c  ==>  a < b and b < c  (operands are side-effect free in this fragment)
            parts = []
            left = e.left
            for op, right in zip(e.ops, e.comparators):
                if type(op) not in CMP:
                    raise Refusal('comparison operator %s' % type(op).__name__)
                parts.append('ECmp %s (%s) (%s)' % (CMP[type(op)], self.expr(left), self.expr(right)))
                left = right
            out = parts[-1]
            for p in reversed(parts[:-1]):
                out = 'EAnd (%s) (%s)' % (p, out)
            return out
        if isinstance(e, ast.BinOp):
            if type(e.op) not in BIN:
                raise Refusal('binary operator %s' % type(e.op).__name__)
            return 'EBin %s (%s) (%s)' % (BIN[type(e.op)], self.expr(e.left), self.expr(e.right))
        if isinstance(e, ast.BoolOp):
            k = 'EAnd' if isinstance(e.op, ast.And) else 'EOr'
            vals = [self.expr(v) for v in e.values]
            out = vals[-1]
            for v in reversed(vals[:-1]):
                out = '%s (%s) (%s)' % (k, v, out)
            return out
        if isinstance(e, ast.IfExp):
            return 'EIfExp (%s) (%s) (%s)' % (self.expr(e.test), self.expr(e.body), self.expr(e.orelse))
        if self.field_reads and isinstance(e, ast.Subscript) and ast.unparse(e.value) == 'self.fields' \
                and isinstance(e.slice, ast.Constant) and isinstance(e.slice.value, str):
            return 'EVar %s' % coq_string('fields_' + e.slice.value)
        raise Refusal('expression %s (%s)' % (src, type(e).__name__))

    # ---- statements
    def dropped_target(self, t):
        if isinstance(t, ast.Subscript):
            return ast.unparse(t.value) in self.drop_targets
        return False

    def stmts(self, body):
        out = []
        for s in body:
            out.extend(self.stmt(s))
        return out

    def stmt(self, s):
        if isinstance(s, ast.Expr) and isinstance(s.value, ast.Constant) and isinstance(s.value.value, str):
            return []  # docstring
        if isinstance(s, ast.Pass):
            return ['SSkip']
        if isinstance(s, ast.Assign):
            names = [t for t in s.targets if isinstance(t, ast.Name)]
            others = [t for t in s.targets if not isinstance(t, ast.Name)]
            for t in others:
                if not self.dropped_target(t):
                    raise Refusal('assignment target %s' % ast.unparse(t))
            if not names:
                # a pure logging write: the value must still be evaluable without effect; f-strings are
                # accepted as effect-free
                if isinstance(s.value, ast.JoinedStr):
                    return []
                self.expr(s.value)
                return []
            e = self.expr(s.value)
            return ['SAssign %s (%s)' % (coq_string(n.id), e) for n in names]
        if isinstance(s, ast.AugAssign) and isinstance(s.target, ast.Name) and type(s.op) in BIN:
            return ['SAssign %s (EBin %s (EVar %s) (%s))' % (coq_string(s.target.id), BIN[type(s.op)],
                                                            coq_string(s.target.id), self.expr(s.value))]
        if isinstance(s, ast.If):
            return ['SIf (%s) [%s] [%s]' % (self.expr(s.test), '; '.join(self.stmts(s.body)),
                                           '; '.join(self.stmts(s.orelse)))]
        if isinstance(s, ast.Return):
            return ['SReturn (%s)' % (self.expr(s.value) if s.value is not None else 'ENone')]
        if isinstance(s, ast.Raise) and s.exc is not None:
            exc = s.exc.func if isinstance(s.exc, ast.Call) else s.exc
            if isinstance(exc, ast.Name):
                return ['SRaise %s' % coq_string(exc.id)]
        raise Refusal('statement %s' % ast.unparse(s).splitlines()[0])


def function(relpath, qualname, coqname, atoms=None, skip_params=('self',), consts=None, float_scale=None):
    """Coq text defining <coqname>_params and <coqname>_body."""
    tree, _ = load_module(relpath)
    fn = find_def(tree, qualname)
    if not isinstance(fn, ast.FunctionDef):
        raise Refusal('%s is not a function' % qualname)
    a = fn.args
    if a.vararg or a.kwarg or a.kwonlyargs or a.posonlyargs:
        raise Refusal('%s: unsupported parameter kinds' % qualname)
    params = [p.arg for p in a.args if p.arg not in skip_params]
    tr = Tr(atoms=atoms, consts=consts, float_scale=float_scale)
    body = tr.stmts(fn.body)
    missing = set((atoms or {}).keys()) - tr.used_atoms
    if missing:
        raise Refusal('%s: declared atoms no longer occur in the source: %s' % (qualname, sorted(missing)))
    txt = '(* from %s :: %s *)\n' % (relpath, qualname)
    txt += 'Definition %s_params : list string := [%s].\n' % (coqname, '; '.join(coq_string(p) for p in params))
    txt += 'Definition %s_body : list stmt := [\n  %s\n].\n' % (coqname, ';\n  '.join(body))
    return txt


HEADER = ('(* GENERATED by tools/translate on every check run from the repo source. Do not edit. *)\n'
          'From Coq Require Import ZArith List String Bool.\nImport ListNotations.\n'
          'From Pedal Require Import lib.PyMini.\nOpen Scope string_scope.\nOpen Scope Z_scope.\n\n')
