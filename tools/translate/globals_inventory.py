"""T5: inventory of process-lifetime mutable state in pedal (module-level and class-level bindings to mutable
displays / constructors, `global` statements), and the fields that Report.__init__ creates vs the ones Report.clear resets."""
import ast
import os

from vlib import Refusal, REPO

MUTABLE_CALLS = ('dict', 'list', 'set', 'defaultdict', 'OrderedDict', 'Counter', 'collections.defaultdict', 'collections.OrderedDict',
                 'deque', 'collections.deque')


def is_mutable(v):
    if isinstance(v, (ast.Dict, ast.List, ast.Set, ast.ListComp, ast.DictComp, ast.SetComp)):
        return True
    return isinstance(v, ast.Call) and ast.unparse(v.func) in MUTABLE_CALLS


def inventory():
    out = []
    base = os.path.join(REPO, 'pedal')
    for root, dirs, files in os.walk(base):
        dirs.sort()
        for f in sorted(files):
            if not f.endswith('.py'):
                continue
            p = os.path.join(root, f)
            with open(p, encoding='utf8') as fh:
                src = fh.read()
            try:
                tree = ast.parse(src)
            except SyntaxError as e:
                raise Refusal('cannot parse %s: %s' % (p, e))
            rel = os.path.relpath(p, REPO)
            for n in tree.body:
                if isinstance(n, (ast.Assign, ast.AnnAssign)) and n.value is not None and is_mutable(n.value):
                    for t in (n.targets if isinstance(n, ast.Assign) else [n.target]):
                        if isinstance(t, ast.Name):
                            out.append('%s:%s' % (rel, t.id))
                if isinstance(n, ast.ClassDef):
                    for m in n.body:
                        if isinstance(m, (ast.Assign, ast.AnnAssign)) and m.value is not None and is_mutable(m.value):
                            for t in (m.targets if isinstance(m, ast.Assign) else [m.target]):
                                if isinstance(t, ast.Name):
                                    out.append('%s:%s.%s' % (rel, n.name, t.id))
            for n in ast.walk(tree):
                if isinstance(n, ast.Global):
                    for nm in n.names:
                        out.append('%s:global %s' % (rel, nm))
    return sorted(set(out))


def report_fields():
    path = os.path.join(REPO, 'pedal/core/report.py')
    tree = ast.parse(open(path, encoding='utf8').read())
    cls = [n for n in tree.body if isinstance(n, ast.ClassDef) and n.name == 'Report']
    if len(cls) != 1:
        raise Refusal('class Report')
    methods = {m.name: m for m in cls[0].body if isinstance(m, ast.FunctionDef)}

    def self_fields(fn, calls_too):
        names = []
        for n in ast.walk(fn):
            if isinstance(n, (ast.Assign, ast.AugAssign)):
                for t in (n.targets if isinstance(n, ast.Assign) else [n.target]):
                    if isinstance(t, ast.Attribute) and isinstance(t.value, ast.Name) and t.value.id == 'self':
                        names.append(t.attr)
            if calls_too and isinstance(n, ast.Call) and isinstance(n.func, ast.Attribute) and n.func.attr == 'clear' \
                    and isinstance(n.func.value, ast.Attribute) and isinstance(n.func.value.value, ast.Name) and n.func.value.value.id == 'self':
                names.append(n.func.value.attr)
            if calls_too and isinstance(n, ast.Call) and ast.unparse(n.func) == 'self.clear_overridden_feedback':
                names.append('overridden_feedbacks')
        return sorted(set(names))
    if '__init__' not in methods or 'clear' not in methods:
        raise Refusal('Report.__init__/clear')
    return self_fields(methods['__init__'], False), self_fields(methods['clear'], True)
