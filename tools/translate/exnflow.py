"""T4: fail-closed translator from a Python function to its control-flow / exception skeleton
(coq/lib/ExnFlow.v).  Only calls may raise (attribute reads, subscripts, arithmetic are treated as
non-raising - recorded in the trusted base).  Every call is looked up in a contract table:

    contracts[name] = 'NONE' | 'EXC' | 'ANY' | [class names]     (default for unknown callees: 'EXC')
    effects[name]   = Coq constructor of the tracked effect performed when the call completes
    inline          = methods of the same class whose skeleton is inlined (wrapped in Scope)

Loops are accepted only when their body has no tracked effect, try, return or raise; they collapse to
one call site carrying the union of the body's contracts.  Anything else raises Refusal."""
import ast

from vlib import Refusal
from translate.pymini import load_module, find_def

EXC = ['EException', 'ETimeout', 'ESyntax', 'EIndent', 'ERecursion']
ANY = ['EBase', 'ESystemExit'] + EXC
PATS = {'BaseException': 'PBaseException', 'Exception': 'PException', 'SystemExit': 'PSystemExit',
        'TimeoutError': 'PTimeout', 'SyntaxError': 'PSyntax', 'IndentationError': 'PIndent',
        'RecursionError': 'PRecursion', 'MemoryError': 'PRecursion'}
RAISE = {'TimeoutError': 'ETimeout', 'SystemExit': 'ESystemExit', 'SyntaxError': 'ESyntax',
         'IndentationError': 'EIndent', 'RecursionError': 'ERecursion', 'KeyboardInterrupt': 'EBase',
         'GeneratorExit': 'EBase', 'BaseException': 'EBase'}


class Flow:
    def __init__(self, relpath, cls, contracts, effects, inline=(), default='EXC', assume=None):
        self.relpath = relpath
        self.tree, _ = load_module(relpath)
        self.cls = cls
        self.contracts = contracts
        self.effects = effects
        self.inline = set(inline)
        self.default = default
        self.sites = []          # site id -> description
        self.stack = []
        self.assume = assume or {}
        self.defaulted = set()
        self.used_assumptions = set()

    # ------------------------------------------------------------ helpers
    def site(self, desc, node):
        self.sites.append('%s (%s:%d)' % (desc, self.relpath, getattr(node, 'lineno', 0)))
        return len(self.sites) - 1

    def may(self, name):
        if name not in self.contracts:
            self.defaulted.add(name)
        c = self.contracts.get(name, self.default)
        if c == 'NONE':
            return []
        if c == 'EXC':
            return EXC
        if c == 'ANY':
            return ANY
        return list(c)

    @staticmethod
    def seq(items):
        items = [i for i in items if i != 'Skip']
        if not items:
            return 'Skip'
        out = items[-1]
        for i in reversed(items[:-1]):
            out = '(Seq %s %s)' % (i, out)
        return out

    def method(self, name):
        q = '%s.%s' % (self.cls, name) if self.cls else name
        return find_def(self.tree, q)

    # ------------------------------------------------------------ expressions: the calls, in evaluation order
    def calls(self, e):
        """list of skeleton fragments for the calls inside expression e"""
        out = []
        if e is None:
            return out
        if isinstance(e, (ast.Lambda, ast.GeneratorExp)):
            return out      # body runs later / lazily: its calls are attributed to the consumer
        if isinstance(e, (ast.ListComp, ast.SetComp, ast.DictComp)):
            inner = []
            for n in ast.walk(e):
                if isinstance(n, ast.Call):
                    inner += self.may(ast.unparse(n.func))
                    if ast.unparse(n.func) in self.effects or self._inline_name(n):
                        raise Refusal('tracked call inside a comprehension: %s' % ast.unparse(n))
            if inner:
                out.append('(Prim %d [%s])' % (self.site('comprehension ' + ast.unparse(e)[:40], e),
                                               '; '.join(sorted(set(inner)))))
            return out
        if isinstance(e, ast.Call):
            for sub in [e.func] + list(e.args) + [k.value for k in e.keywords]:
                out += self.calls(sub)
            name = ast.unparse(e.func)
            if ast.unparse(e) in self.contracts or ast.unparse(e) in self.effects:
                name = ast.unparse(e)        # a contract for this exact call (e.g. ast.parse('') cannot fail)
            inl = self._inline_name(e)
            if inl:
                if inl in self.stack:
                    raise Refusal('recursive inlining of %s' % inl)
                self.stack.append(inl)
                body = self.block(self.method(inl).body)
                self.stack.pop()
                out.append('(Scope %s)' % body)
            else:
                may = self.may(name)
                if may:
                    out.append('(Prim %d [%s])' % (self.site('call ' + name, e), '; '.join(may)))
                if name in self.effects:
                    out.append('(Eff %s)' % self.effects[name])
            return out
        if isinstance(e, ast.BoolOp) or isinstance(e, ast.IfExp):
            # short-circuit: later operands may not run; they may only ADD raising sites, and we keep them all as
            # possible (a Prim may always complete normally), which over-approximates.  Tracked effects must not hide here.
            for n in ast.walk(e):
                if isinstance(n, ast.Call) and (ast.unparse(n.func) in self.effects or self._inline_name(n)):
                    raise Refusal('tracked call under short-circuit evaluation: %s' % ast.unparse(e))
        for child in ast.iter_child_nodes(e):
            if isinstance(child, ast.expr):
                out += self.calls(child)
            elif isinstance(child, (ast.keyword,)):
                out += self.calls(child.value)
            elif isinstance(child, ast.comprehension):
                raise Refusal('comprehension outside the handled forms')
        return out

    def _inline_name(self, call):
        f = call.func
        if isinstance(f, ast.Attribute) and isinstance(f.value, ast.Name) and f.value.id in ('self', 'cls') \
                and f.attr in self.inline:
            return f.attr
        return None

    # ------------------------------------------------------------ statements
    def block(self, body):
        return self.seq([self.stmt(s) for s in body])

    def tracked_inside(self, nodes):
        for s in nodes:
            for n in ast.walk(s):
                if isinstance(n, (ast.Try, ast.Return, ast.Raise, ast.With)):
                    return True
                if isinstance(n, ast.Call) and (ast.unparse(n.func) in self.effects or self._inline_name(n)):
                    return True
        return False

    def stmt(self, s):
        if isinstance(s, ast.Expr):
            if isinstance(s.value, ast.Constant):
                return 'Skip'
            return self.seq(self.calls(s.value))
        if isinstance(s, ast.Assign) and ast.unparse(s) in self.effects:
            # a tracked assignment (e.g. a flag that another thread reads)
            return self.seq(self.calls(s.value) + ['(Eff %s)' % self.effects[ast.unparse(s)]])
        if isinstance(s, (ast.Assign, ast.AnnAssign, ast.AugAssign)):
            targets = s.targets if isinstance(s, ast.Assign) else [s.target]
            frags = self.calls(s.value) if s.value is not None else []
            for t in targets:
                frags += self.calls(t)
            return self.seq(frags)
        if isinstance(s, (ast.Pass, ast.Global, ast.Nonlocal, ast.FunctionDef, ast.ClassDef, ast.Import, ast.ImportFrom)):
            return 'Skip'
        if isinstance(s, ast.Delete):
            return 'Skip'
        if isinstance(s, ast.Return):
            return self.seq(self.calls(s.value) + ['Return'])
        if isinstance(s, ast.Assert):
            return self.seq(self.calls(s.test) + ['(Prim %d [EException])' % self.site('assert', s)])
        if isinstance(s, ast.If) and ast.unparse(s.test) in self.assume:
            self.used_assumptions.add(ast.unparse(s.test))
            return self.block(s.body if self.assume[ast.unparse(s.test)] else s.orelse)
        if isinstance(s, ast.If):
            return self.seq(self.calls(s.test) +
                            ['(If %d %s %s)' % (self.site('if ' + ast.unparse(s.test)[:50], s), self.block(s.body), self.block(s.orelse))])
        if isinstance(s, (ast.For, ast.While)):
            if self.tracked_inside(s.body + s.orelse):
                raise Refusal('loop with tracked call / try / return / raise at line %d' % s.lineno)
            mays = []
            head = s.iter if isinstance(s, ast.For) else s.test
            for n in list(ast.walk(head)) + [m for b in s.body + s.orelse for m in ast.walk(b)]:
                if isinstance(n, ast.Call):
                    mays += self.may(ast.unparse(n.func))
                if isinstance(n, ast.Assert):
                    mays += ['EException']
            if not mays:
                return 'Skip'
            return '(Prim %d [%s])' % (self.site('loop', s), '; '.join(sorted(set(mays))))
        if isinstance(s, ast.With):
            frags = []
            exits = []
            for item in s.items:
                frags += self.calls(item.context_expr)
                name = ast.unparse(item.context_expr.func) if isinstance(item.context_expr, ast.Call) else ast.unparse(item.context_expr)
                frags.append('(Prim %d [%s])' % (self.site('__enter__ of ' + name, s), '; '.join(self.may(name + '.__enter__'))))
                if name + '.__enter__' in self.effects:
                    frags.append('(Eff %s)' % self.effects[name + '.__enter__'])
                ex = '(Prim %d [%s])' % (self.site('__exit__ of ' + name, s), '; '.join(self.may(name + '.__exit__')))
                if name + '.__exit__' in self.effects:
                    # the restoring statement is the first one of __exit__: it happens even if __exit__ then raises
                    ex = '(Seq (Eff %s) %s)' % (self.effects[name + '.__exit__'], ex)
                exits.append(ex)
            body = self.block(s.body)
            for ex in exits:
                body = '(Try %s HNil Skip %s)' % (body, ex)
            return self.seq(frags + [body])
        if isinstance(s, ast.Try):
            hs = 'HNil'
            for h in reversed(s.handlers):
                body = self.block(h.body)
                if h.type is None:
                    names = ['BaseException']
                elif isinstance(h.type, ast.Tuple):
                    names = [ast.unparse(x) for x in h.type.elts]
                else:
                    names = [ast.unparse(h.type)]
                for nm in reversed(names):
                    if nm in PATS:
                        hs = '(HCons %s None %s %s)' % (PATS[nm], body, hs)
                    else:
                        # some Exception subclass the abstraction cannot decide
                        hs = '(HCons PException (Some %d) %s %s)' % (self.site('except ' + nm, h), body, hs)
            return '(Try %s %s %s %s)' % (self.block(s.body), hs, self.block(s.orelse), self.block(s.finalbody))
        if isinstance(s, ast.Raise):
            if s.exc is None:
                return 'Reraise'
            exc = s.exc.func if isinstance(s.exc, ast.Call) else s.exc
            frags = self.calls(s.exc)
            nm = ast.unparse(exc)
            if nm in RAISE:
                return self.seq(frags + ['(Raise %s)' % RAISE[nm]])
            if isinstance(exc, ast.Name) and exc.id[:1].isupper():
                return self.seq(frags + ['(Raise EException)'])      # a named Exception subclass
            # re-raising a stored exception object: any class
            return self.seq(frags + ['(Prim %d [%s])' % (self.site('raise ' + nm, s), '; '.join(ANY)), '(Raise EException)'])
        raise Refusal('statement %s at line %d' % (type(s).__name__, s.lineno))

    def function(self, name):
        fn = self.method(name)
        if not isinstance(fn, ast.FunctionDef):
            raise Refusal('%s is not a function' % name)
        return self.block(fn.body)


def coq_def(name, eff_type, body, sites):
    t = '(* sites:\n' + '\n'.join('   %d: %s' % (i, d.replace('*)', '* )').replace('(*', '( *')) for i, d in enumerate(sites)) + '\n*)\n'
    t += 'Definition %s : stmt %s :=\n  %s.\n' % (name, eff_type, body)
    return t
