"""Shared harness for C04 / C05: the exception zoo, the skeleton-vs-implementation correspondence and the two oracles."""
import builtins
import json

import vlib
from vlib import cz, cstr, clist, copt, cbool, cnat
from translate import sandbox_flow

HEADER = ('From Coq Require Import List Bool Arith.\nImport ListNotations.\n'
          'From Pedal Require Import lib.ExnFlow model.C05_Effects gen.C05_Gen model.C05_Run.\n')


def builtin_exceptions():
    out = []
    for name in sorted(dir(builtins)):
        obj = getattr(builtins, name)
        if isinstance(obj, type) and issubclass(obj, BaseException):
            try:
                obj('m')
            except Exception:
                continue
            out.append(name)
    return out


def abstract_class(mro):
    """python class (by its MRO names) -> ExnFlow class"""
    if 'Exception' not in mro:
        return 'ESystemExit' if 'SystemExit' in mro else 'EBase'
    if 'TimeoutError' in mro:
        return 'ETimeout'
    if 'IndentationError' in mro:
        return 'EIndent'
    if 'SyntaxError' in mro:
        return 'ESyntax'
    if 'RecursionError' in mro or 'MemoryError' in mro:
        return 'ERecursion'
    return 'EException'


def mro_of(name):
    return [c.__name__ for c in getattr(builtins, name).__mro__]


def raising_offset(lines):
    """0-based index of the line that CPython's traceback reports for the innermost frame of the failing program"""
    import traceback
    try:
        exec(compile('\n'.join(lines) + '\n', '<zoo>', 'exec'), {'__name__': '__main__'})
    except BaseException as e:
        frames = [f for f in traceback.extract_tb(e.__traceback__) if f.filename == '<zoo>']
        return frames[-1].lineno - 1
    raise ValueError('the zoo program does not fail: %r' % (lines,))


def terminators():
    """(tag, lines of code, exception class name expected, mro names, where: 'exec'|'compile', offset of raising line)"""
    out = []
    for name in builtin_exceptions():
        out.append(('raise:' + name, ['raise %s("m")' % name], getattr(builtins, name).__name__, mro_of(name), 'exec', 0))
    user = [
        ('user-exception', ['class Boom(Exception):', '    pass', 'raise Boom("x")'], 'Boom', ['Boom', 'Exception', 'BaseException', 'object'], 2),
        ('user-str-raises', ['class Boom(Exception):', '    def __str__(self):', '        raise ValueError("no str")', 'raise Boom("x")'],
         'Boom', ['Boom', 'Exception', 'BaseException', 'object'], 3),
        ('user-repr-raises', ['class Boom(Exception):', '    def __repr__(self):', '        raise ValueError("no repr")', 'raise Boom("x")'],
         'Boom', ['Boom', 'Exception', 'BaseException', 'object'], 3),
        ('user-str-nonstr', ['class Boom(Exception):', '    def __str__(self):', '        return 5', 'raise Boom("x")'],
         'Boom', ['Boom', 'Exception', 'BaseException', 'object'], 3),
        ('user-str-empty', ['class Boom(Exception):', '    def __str__(self):', '        return ""', 'raise Boom()'],
         'Boom', ['Boom', 'Exception', 'BaseException', 'object'], 3),
        ('user-base', ['class Base(BaseException):', '    pass', 'raise Base("x")'], 'Base', ['Base', 'BaseException', 'object'], 2),
        # the learner's own subclass of a builtin exception keeps its class
        ('user-valueerror-subclass', ['class BadAge(ValueError):', '    pass', 'raise BadAge("k")'],
         'BadAge', ['BadAge', 'ValueError', 'Exception', 'BaseException', 'object'], 2),
        ('user-falsy-len', ['class Boom(Exception):', '    def __len__(self):', '        return 0', 'raise Boom("x")'],
         'Boom', ['Boom', 'Exception', 'BaseException', 'object'], 3),
        ('user-falsy-bool', ['class Boom(Exception):', '    def __bool__(self):', '        return False', 'raise Boom("x")'],
         'Boom', ['Boom', 'Exception', 'BaseException', 'object'], 3),
        ('user-bool-raises', ['class Boom(Exception):', '    def __bool__(self):', '        raise ValueError("no bool")', 'raise Boom("x")'],
         'Boom', ['Boom', 'Exception', 'BaseException', 'object'], 3),
        ('user-setattr-raises', ['class Boom(Exception):', '    def __setattr__(self, k, v):', '        raise ValueError("frozen")', 'raise Boom("x")'],
         'Boom', ['Boom', 'Exception', 'BaseException', 'object'], 3),
        ('user-eq-raises', ['class Boom(Exception):', '    def __eq__(self, o):', '        raise ValueError("no eq")', '    __hash__ = None', 'raise Boom("x")'],
         'Boom', ['Boom', 'Exception', 'BaseException', 'object'], 4),
        ('user-args-str-raises', ['class Boom(Exception):', '    def __str__(self):', '        raise ValueError("no str")', 'raise Boom("details", 42)'],
         'Boom', ['Boom', 'Exception', 'BaseException', 'object'], 3),
        ('empty-message', ['raise ValueError("")'], 'ValueError', ['ValueError', 'Exception', 'BaseException', 'object'], 0),
        # messages made of blank space only
        ('blank-message', ['raise ValueError(" ")'], 'ValueError', ['ValueError', 'Exception', 'BaseException', 'object'], 0),
        ('newline-message', ['raise Exception("\\n")'], 'Exception', ['Exception', 'BaseException', 'object'], 0),
        ('tab-message', ['raise KeyError("\\t ")'], 'KeyError', ['KeyError', 'LookupError', 'Exception', 'BaseException', 'object'], 0),
        ('sys-exit-blank', ['import sys', 'sys.exit("  ")'], 'SystemExit', ['SystemExit', 'BaseException', 'object'], 1),
        ('user-str-blank', ['class Boom(Exception):', '    def __str__(self):', '        return "  \\n"', 'raise Boom()'],
         'Boom', ['Boom', 'Exception', 'BaseException', 'object'], 3),
        ('assert-empty-message', ['assert 1 == 2, ""'], 'AssertionError', ['AssertionError', 'Exception', 'BaseException', 'object'], 0),
        ('sys-exit-empty', ['import sys', 'sys.exit("")'], 'SystemExit', ['SystemExit', 'BaseException', 'object'], 1),
        # raised by the student's own code about ANOTHER text: the failure is on the student's raising line
        ('syntaxerror-foreign-file', ['raise SyntaxError("bad", ("foreign.py", 1, 1, "x"))'], 'SyntaxError',
         ['SyntaxError', 'Exception', 'BaseException', 'object'], 0),
        ('syntaxerror-multiline-foreign', ['raise SyntaxError("bad", ("foreign.py", 1, 1, "x", 2, 3))'], 'SyntaxError',
         ['SyntaxError', 'Exception', 'BaseException', 'object'], 0),
        ('syntaxerror-foreign-far-line', ['z = 0', 'raise SyntaxError("bad entry", ("size.cfg", 40, 2, "a = = b"))'], 'SyntaxError',
         ['SyntaxError', 'Exception', 'BaseException', 'object'], 1),
        # the debugger's own "quit" exception is an ordinary Exception for a student program
        ('raise-bdbquit', ['import bdb', 'raise bdb.BdbQuit()'], 'BdbQuit', ['BdbQuit', 'Exception', 'BaseException', 'object'], 1),
        # a class without a name
        ('user-empty-class-name', ['E = type("", (Exception,), {})', 'raise E("x")'], '', ['', 'Exception', 'BaseException', 'object'], 1),
        ('user-keyerror-sub', ['class MyKey(KeyError):', '    pass', 'raise MyKey("k")'], 'MyKey',
         ['MyKey', 'KeyError', 'LookupError', 'Exception', 'BaseException', 'object'], 2),
    ]
    # the failing statement sits inside try/finally or in a handler that re-raises: the line CPython's own traceback gives for
    # the innermost student frame is the expectation (computed by running the lines in a plain interpreter)
    structured = [
        ('fail-in-try-finally', ['z = 0', 'try:', '    y = 1 / 0', 'finally:', '    z = 2', '    z = z + 1'], 'ZeroDivisionError'),
        ('fail-in-try-except-reraise', ['try:', '    y = int("x")', 'except ValueError:', '    z = 3', '    raise'], 'ValueError'),
        ('fail-in-handler', ['try:', '    y = int("x")', 'except ValueError:', '    z = [][1]', 'w = 5'], 'IndexError'),
        ('fail-in-finally-itself', ['try:', '    y = 1', 'finally:', '    z = {}["k"]', 'w = 5'], 'KeyError'),
        ('fail-in-with-block', ['class M:', '    def __enter__(self): return self', '    def __exit__(self, *a): return False',
                                'with M():', '    y = 1 / 0', 'w = 5'], 'ZeroDivisionError'),
        ('fail-in-loop-else', ['for i in range(2):', '    pass', 'else:', '    y = None.x', 'w = 5'], 'AttributeError'),
        ('raise-from', ['try:', '    y = int("x")', 'except ValueError as e:', '    raise KeyError("k") from e'], 'KeyError'),
    ]

    for tag, lines, cls in structured:
        user.append((tag, lines, cls, mro_of(cls), raising_offset(lines)))
    for tag, lines, cls, mro, off in user:
        out.append((tag, lines, cls, mro, 'exec', off))
    natural = [
        ('zero-division', ['y = 1/0'], 'ZeroDivisionError'), ('name-error', ['y = undefined_name'], 'NameError'),
        ('index-error', ['y = [][1]'], 'IndexError'), ('key-error', ["y = {}['k']"], 'KeyError'),
        ('value-error', ["y = int('x')"], 'ValueError'), ('attribute-error', ['y = None.x'], 'AttributeError'),
        ('type-error', ["y = 'a' + 1"], 'TypeError'),
        ('sys-exit', ['import sys', 'sys.exit()'], 'SystemExit'), ('sys-exit-code', ['import sys', 'sys.exit(3)'], 'SystemExit'),
        ('raise-systemexit', ['raise SystemExit'], 'SystemExit'),
        ('recursion', ['def rec(n):', '    return rec(n + 1)', 'rec(0)'], 'RecursionError'),
        ('assert', ['assert 1 == 2, "nope"'], 'AssertionError'),
        ('import-missing', ['import no_such_module_xyz'], 'ModuleNotFoundError'),
    ]
    for tag, lines, cls in natural:
        out.append((tag, lines, cls, mro_of(cls), 'exec', len(lines) - 1 if tag not in ('recursion', 'import-missing') else None))
    blocked = [('blocked-compile', ['compile("1", "", "eval")']), ('blocked-eval', ['eval("1")']), ('blocked-exec', ['exec("1")']),
               ('blocked-globals', ['globals()']), ('blocked-exit', ['exit()']), ('blocked-open', ['open("secret.txt")']),
               ('blocked-import-pedal', ['import pedal']),
               # write access to an existing file, in every spelling of the mode (none of these truncates; nothing is written)
               ('blocked-open-rplus', ['f = open("README.rst", "r+")', 'f.close()']),
               ('blocked-open-rbplus', ['f = open("README.rst", "rb+")', 'f.close()']),
               ('blocked-open-rplusb', ['f = open("README.rst", "r+b")', 'f.close()']),
               ('blocked-open-rtplus', ['f = open("README.rst", mode="rt+")', 'f.close()']),
               ('blocked-open-append', ['f = open("README.rst", "a")', 'f.close()']),
               # exclusive creation is writing as well (the runner removes the file should it ever appear)
               ('blocked-open-exclusive', ['f = open("/var/tmp/verif_c04_created_by_student.txt", "x")', 'f.close()']),
               ('blocked-open-exclusive-b', ['f = open("/var/tmp/verif_c04_created_by_student.txt", mode="xb")', 'f.close()'])]
    for tag, lines in blocked:
        # raised inside pedal's replacement function, not on a student line: the location clause does not apply
        out.append((tag, lines, None, None, 'exec', None))
    return out


SYNTAX = [('syntax-eqeq', 'x = = 1\n', 1), ('syntax-indent', 'if True:\nx = 1\n', 2), ('syntax-tabs', 'if True:\n\tx = 1\n        y = 2\n', 3),
          ('syntax-nul', 'x = 1\ny = "a\x00b"\n', None), ('syntax-unclosed', 'print((1, 2)\n', 1), ('syntax-deep', '-' * 3000 + '1\n', None)]


def build_cases(rng, tier):
    terms = terminators()
    cases = []

    def program(lines):
        pre = ['x = 1', 'print("before")']
        return '\n'.join(pre + lines + ['print("after")']) + '\n', len(pre)

    def fn_program(lines):
        body = ['    ' + l for l in lines]
        return 'def f():\n    w = 2\n' + '\n'.join(body) + '\n    return w\n', 2
    picks = terms if tier != 'quick' else terms
    for tag, lines, cls, mro, where, off in picks:
        entries = ['run', 'call', 'evaluate', 'import'] if tier != 'quick' or rng.random() < 0.45 or not tag.startswith('raise:') else ['run']
        for entry in entries:
            tracer = rng.choice([None, None, 'native', 'coverage', 'calls', 'none'])
            if tag in ('raise-bdbquit', 'user-exception', 'zero-division'):
                tracer = {'run': 'calls', 'call': 'native', 'evaluate': 'calls', 'import': 'coverage'}[entry]
            if entry == 'run':
                code, base = program(lines)
                files = {'answer.py': code}
                steps = [{'entry': 'run', 'tracer': tracer}]
                line = None if off is None else base + off + 1
                raise_file = 'answer.py'
            elif entry in ('call', 'evaluate'):
                code, base = fn_program(lines)
                files = {'answer.py': code}
                steps = [{'entry': 'run', 'setup': True}, {'entry': 'call', 'fn': 'f', 'tracer': tracer} if entry == 'call'
                         else {'entry': 'evaluate', 'expr': 'f()', 'tracer': tracer}]
                line = None if off is None else base + off + 1
                raise_file = 'answer.py'
            else:
                code, base = program(lines)
                files = {'answer.py': 'import helper\nprint("main")\n', 'helper.py': code}
                steps = [{'entry': 'run', 'tracer': tracer}]
                line = None if off is None else base + off + 1
                raise_file = 'helper.py'
            cases.append({'tag': tag, 'entry': entry, 'files': files, 'steps': steps, 'cls': cls, 'mro': mro, 'where': where,
                          'line': line, 'raise_file': raise_file})
    for tag, code, line in SYNTAX:
        for entry in ('run', 'runcode'):
            if entry == 'run':
                cases.append({'tag': tag, 'entry': 'run', 'files': {'answer.py': code}, 'steps': [{'entry': 'run'}],
                              'cls': 'SyntaxError', 'mro': None, 'where': 'compile', 'line': line, 'raise_file': 'answer.py'})
    # the file is split into sections: a failure in a later section is located on the line of the WHOLE file
    pre = 'a = 1\nb = 2\n##### Part 1\n'
    for tag, body, cls, where, line in (('section-compile-error', 'x = 1\nif x\n    y = 2\n', 'SyntaxError', 'compile', 5),
                                        ('section-indent-error', 'x = 1\nif x:\ny = 2\n', 'IndentationError', 'compile', 6),
                                        ('section-runtime-error', 'x = 1\ny = 1 / 0\n', 'ZeroDivisionError', 'exec', 5)):
        cases.append({'tag': tag, 'entry': 'run', 'files': {'answer.py': pre + body}, 'sections': True,
                      'steps': [{'entry': 'next_section', 'setup': True}, {'entry': 'run'}],
                      'cls': cls, 'mro': mro_of(cls) if where == 'exec' else None, 'where': where, 'line': line, 'raise_file': 'answer.py',
                      'skip_model': True})
    # the same failures with the time limit on (the code runs in a worker thread), incl. inside an imported student file
    two_arg = 'class E(Exception):\n    def __init__(self, a, b):\n        super().__init__(a, b)\n'
    for tag, main_code, helper_code, cls, where, line, rfile in (
            ('threaded:exit-in-helper', 'import helper\nprint(helper)\n', 'import sys\nsys.exit()\n', 'SystemExit', 'exec', 2, 'helper.py'),
            ('threaded:two-arg-exception-in-helper', 'import helper\n', two_arg + 'raise E(1, 2)\n', 'E', 'exec', 4, 'helper.py'),
            ('threaded:syntax-error-in-helper', 'x = 1\nimport helper\n', 'y = 2\nx = = 1\n', 'SyntaxError', 'compile', 2, 'helper.py'),
            ('threaded:two-arg-exception', two_arg + 'raise E(1, 2)\n', None, 'E', 'exec', 4, 'answer.py'),
            ('threaded:zero-division', 'x = 1\ny = x / 0\n', None, 'ZeroDivisionError', 'exec', 2, 'answer.py'),
            ('threaded:sys-exit', 'import sys\nsys.exit(3)\n', None, 'SystemExit', 'exec', 2, 'answer.py')):
        files = {'answer.py': main_code}
        if helper_code is not None:
            files['helper.py'] = helper_code
        mro = {'E': ['E', 'Exception', 'BaseException', 'object']}.get(cls) or (mro_of(cls) if where == 'exec' else None)
        cases.append({'tag': tag, 'entry': 'run', 'files': files, 'steps': [{'entry': 'run', 'threaded': True}],
                      'cls': cls, 'mro': mro, 'where': where, 'line': line, 'raise_file': rfile, 'skip_model': True})
    # an epilogue (run(after=...)) longer than the student's file, calling a student function that raises
    cases.append({'tag': 'after-epilogue', 'entry': 'run', 'files': {'answer.py': 'def boom():\n    raise ValueError("late")\n'},
                  'steps': [{'entry': 'runafter', 'after': '\n' * 12 + 'boom()\n'}],
                  'cls': 'ValueError', 'mro': mro_of('ValueError'), 'where': 'exec', 'line': None, 'raise_file': 'answer.py',
                  'skip_model': True, 'allow_extra_setup': True})
    # a failure raised many frames deep, on a line different from the calling line
    cases.append({'tag': 'deep-raise', 'entry': 'run',
                  'files': {'answer.py': 'def rec(n):\n    if n == 0:\n        raise ValueError("deep")\n    return rec(n - 1)\nrec(150)\n'},
                  'steps': [{'entry': 'run'}], 'cls': 'ValueError', 'mro': mro_of('ValueError'), 'where': 'exec', 'line': 3,
                  'raise_file': 'answer.py'})
    # a failure after the execution consumed N values from input() (the feedback lists the inputs, shortened when there are many)
    for n_in in (0, 1, 2, 29, 30, 31, 32, 45, 200):
        prog = 'total = 0\nfor i in range(%d):\n    total += int(input("n?"))\nprint(total)\ny = 1 / 0\n' % n_in
        cases.append({'tag': 'fail-after-%d-inputs' % n_in, 'entry': 'run', 'files': {'answer.py': prog},
                      'steps': [{'entry': 'run', 'inputs': [str(k % 7) for k in range(n_in)]}], 'cls': 'ZeroDivisionError',
                      'mro': mro_of('ZeroDivisionError'), 'where': 'exec', 'line': 5, 'raise_file': 'answer.py'})
    fn = 'def ask(n):\n    vals = []\n    for i in range(n):\n        vals.append(input())\n    return vals[n]\n'
    for n_in in (3, 31, 64):
        cases.append({'tag': 'call-fails-after-%d-inputs' % n_in, 'entry': 'call', 'files': {'answer.py': fn},
                      'steps': [{'entry': 'run', 'setup': True}, {'entry': 'call', 'fn': 'ask', 'args': [n_in], 'inputs': ['v%d' % k for k in range(n_in)]}],
                      'cls': 'IndexError', 'mro': mro_of('IndexError'), 'where': 'exec', 'line': 5, 'raise_file': 'answer.py'})
    # the same exception OBJECT raised again by a later call
    cases.append({'tag': 'same-object-twice', 'entry': 'call',
                  'files': {'answer.py': 'ERR = ValueError("prebuilt")\ndef g():\n    raise ERR\n'},
                  'steps': [{'entry': 'run', 'setup': True}, {'entry': 'call', 'fn': 'g'}, {'entry': 'call', 'fn': 'g'}],
                  'cls': 'ValueError', 'mro': mro_of('ValueError'), 'where': 'exec', 'line': 3, 'raise_file': 'answer.py'})
    # the grader's own trace function, in force before the execution, under every tracer style and ending
    for style in ('native', 'calls', 'coverage', 'none', None):
        for tag, prog, cls in (('ends', 'x = 1\nprint(x)\n', None), ('raises', 'x = 1\ny = x / 0\n', 'ZeroDivisionError'),
                               ('exits', 'import sys\nsys.exit(2)\n', 'SystemExit')):
            cases.append({'tag': 'grader-trace:%s:%s' % (style, tag), 'entry': 'history', 'files': {'answer.py': prog + 'def g():\n    return 1\n'},
                          'steps': [{'entry': 'run', 'tracer': style, 'pre_trace': True}, {'entry': 'call', 'fn': 'g', 'tracer': style, 'pre_trace': True}],
                          'chosen': [], 'cls': cls, 'mro': mro_of(cls) if cls else None, 'where': 'exec', 'line': None, 'raise_file': 'answer.py'})
    # nested executions: an instructor helper in the student namespace calls back into the sandbox
    cases.append({'tag': 'nested-call', 'entry': 'history',
                  'files': {'answer.py': 'def inner():\n    print("in")\n    return 1\nprint("outer")\n'},
                  'steps': [{'entry': 'run', 'setup': True},
                            {'entry': 'runcode', 'code': 'print("a")\ninstructor_helper()\nprint("b")\n', 'nested': 'inner'},
                            {'entry': 'call', 'fn': 'inner', 'probe': True}],
                  'chosen': [], 'cls': None, 'mro': None, 'where': 'exec', 'line': None, 'raise_file': 'answer.py'})
    # student code that tampers with the very objects pedal patched, ending normally or with an exception
    tamper = [('close-stdout', 'import sys\nprint("a")\nsys.stdout.close()\n', [None, 'native', 'calls']),
              ('close-stdout-raise', 'import sys\nsys.stdout.close()\nraise ValueError("x")\n', [None, 'native']),
              ('stdout-none', 'import sys\nsys.stdout = None\n', [None, 'coverage']),
              ('stdout-replaced', 'import sys, io\nsys.stdout = io.StringIO()\nprint("lost")\n', [None, 'native']),
              ('stdout-deleted', 'import sys\ndel sys.stdout\n', [None]),
              ('sleep-replaced', 'import time\ntime.sleep = None\n', [None, 'native']),
              ('sleep-deleted', 'import time\ndel time.sleep\n', [None]),
              ('student-settrace', 'import sys\nsys.settrace(lambda *a: None)\nx = 1\n', ['native']),
              ('student-settrace-none', 'import sys\nsys.settrace(None)\nx = 1\n', ['native']),
              ('student-settrace-raise', 'import sys\nsys.settrace(lambda *a: None)\nraise ValueError("x")\n', ['native'])]
    for tag, code, tracers in tamper:
        for tracer in tracers:
            for via in ('run', 'call'):
                if via == 'run':
                    files = {'answer.py': code}
                    steps = [{'entry': 'run', 'tracer': tracer}]
                else:
                    body = ''.join('    ' + l + '\n' for l in code.splitlines())
                    files = {'answer.py': 'def t():\n' + body + '    return 1\n'}
                    steps = [{'entry': 'run', 'setup': True}, {'entry': 'call', 'fn': 't', 'tracer': tracer}]
                steps.append({'entry': 'runcode', 'code': 'print("next")\n', 'probe': True})
                cases.append({'tag': 'tamper:' + tag, 'entry': 'history', 'files': files, 'steps': steps, 'chosen': [],
                              'cls': None, 'mro': None, 'where': 'exec', 'line': None, 'raise_file': 'answer.py'})
    # histories: several executions in one sandbox, state must be clean after each
    for _ in range(12 if tier == 'quick' else 80):
        steps = []
        chosen = []
        code = 'def ok():\n    print("fine")\n    return 1\n'
        k = 0
        for _ in range(rng.randrange(2, 6)):
            tag, lines, cls, mro, where, off = rng.choice(terms)
            body = ['    ' + l for l in lines]
            code += 'def g%d():\n    w = 2\n%s\n    return w\n' % (k, '\n'.join(body))
            chosen.append((tag, cls, mro))
            k += 1
        steps = [{'entry': 'run', 'setup': True}]
        for i in range(k):
            steps.append({'entry': rng.choice(['call', 'evaluate']), 'fn': 'g%d' % i, 'expr': 'g%d()' % i,
                          'tracer': rng.choice([None, 'native', 'calls'])})
            if rng.random() < 0.5:
                steps.append({'entry': 'call', 'fn': 'ok', 'probe': True})
        cases.append({'tag': 'history', 'entry': 'history', 'files': {'answer.py': code}, 'steps': steps, 'chosen': chosen,
                      'cls': None, 'mro': None, 'where': 'exec', 'line': None, 'raise_file': 'answer.py'})
    # time-limit violations (C05: restoration; the report side is C14's)
    loops = [('busy', 'while True:\n    pass\n'), ('printing', 'while True:\n    print("x")\n'),
             ('swallow', 'while True:\n    try:\n        while True:\n            pass\n    except Exception:\n        pass\n')]
    for tag, code in (loops if tier != 'quick' else loops[:2]):
        cases.append({'tag': 'timeout:' + tag, 'entry': 'timeout', 'files': {'answer.py': code},
                      'steps': [{'entry': 'run', 'threaded': True}, {'entry': 'runcode', 'code': 'print("next")\n', 'probe': True}],
                      'cls': 'TimeoutError', 'mro': mro_of('TimeoutError'), 'where': 'exec', 'line': None, 'raise_file': 'answer.py'})
    # instructor stand-ins for the very modules pedal patches around an execution (and for others): nothing may escape and
    # everything is restored, whether the student's code ends normally or fails
    for modname, attrs, use in (('time', {'now': 5}, 'time.now'), ('time', {'sleep': 7, 'now': 5}, 'time.sleep'), ('sys', {'argv': ['x']}, 'sys.argv'),
                                ('io', {'marker': 1}, 'io.marker'), ('os', {'name': 'fake'}, 'os.name'), ('random', {'seed': 4}, 'random.seed')):
        for tail, cls in (('', None), ('y = 1 / 0\n', 'ZeroDivisionError')):
            code = 'import %s\nprint(%s)\n%s' % (modname, use, tail)
            cases.append({'tag': 'instructor-mocks:%s%s' % (use, '+fails' if tail else ''), 'entry': 'history', 'files': {'answer.py': code},
                          'mocks': [[modname, attrs]], 'steps': [{'entry': 'run'}, {'entry': 'runcode', 'code': 'print("next")\n', 'probe': True}],
                          'chosen': [], 'cls': None, 'mro': None, 'where': 'exec', 'line': None, 'raise_file': 'answer.py'})
    # the same executions while the grading script holds patches of its own (its own stdout capture, a fake sleep, a module)
    import copy
    seen = set()
    extra = []
    for c in cases:
        k = (c['entry'], c['tag'].split(':')[0], c['where'])
        if k in seen or c['tag'].startswith('timeout') or c.get('sections'):
            continue
        seen.add(k)
        d = copy.deepcopy(c)
        d['tag'] = c['tag'] + '+grader-patches'
        d['grader_patches'] = True
        d['skip_model'] = True
        extra.append(d)
        # ... and on a report of the grader's own (not the global one)
        if not any(st['entry'] in ('next_section', 'runafter') or st.get('nested') for st in c['steps']):
            d = copy.deepcopy(c)
            d['tag'] = c['tag'] + '+own-report'
            d['own_report'] = True
            d['skip_model'] = True
            extra.append(d)
    cases += extra
    return cases


def sites():
    f = sandbox_flow.flow()
    f.assume = {'threaded': False, 'self._was_terminated()': False, 'not self._was_terminated()': True}
    f.function('_execute')
    ex = [i for i, d in enumerate(f.sites) if d.startswith('call exec ')]
    co = [i for i, d in enumerate(f.sites) if d.startswith('call compile ')]
    if len(ex) != 1 or len(co) != 1:
        raise vlib.Refusal('expected exactly one exec and one compile site in _execute, found %s / %s' % (ex, co))
    return ex[0], co[0]


def key_of(case):
    return case['tag'].split(':')[0] if case['tag'].startswith('raise:') else case['tag']


def oracle_c05(case, steps):
    for i, (st, ob) in enumerate(zip(case['steps'], steps)):
        bad = []
        if not ob['stdout_restored']:
            bad.append('sys.stdout')
        if not ob['sleep_restored']:
            bad.append('time.sleep')
        if not ob['trace_restored']:
            bad.append('sys.gettrace()')
        if ob['modules_removed']:
            bad.append('sys.modules lost %s' % ob['modules_removed'][:3])
        if ob['patch_depth'] or ob['stdout_depth']:
            bad.append('stacks patches=%d stdout=%d' % (ob['patch_depth'], ob['stdout_depth']))
        if not all(ob.get('nested_restored', [])):
            bad.append('what the OUTER execution had in force (its stdout capture, sleep, stack depth) after a nested call() returned')
        if st.get('nested') and ob['escaped'] is None and 'b' not in ob['raw_output'].split():
            bad.append('the outer execution\'s output after the nested call (raw output %r)' % ob['raw_output'][-40:])
        if bad:
            return ('leak:%s:%s' % (key_of(case), case['entry']),
                    'after step %d (%s) of %s: not restored: %s' % (i, st['entry'], case['tag'], ', '.join(bad)))
        if st.get('probe') and ob['escaped'] is None and 'fine' not in ob['raw_output'] and 'next' not in ob['raw_output'] \
                and 'in' not in ob['raw_output']:
            return ('later-output-lost:%s' % key_of(case), 'a later execution did not capture its output: %r' % ob['raw_output'])
    return None


def oracle_c04(case, steps):
    for i, ob in enumerate(steps):
        if ob.get('stray_on_main_report'):
            return ('feedback-on-another-report', '%s: step %d attached %d feedback object(s) to the global report although the sandbox '
                    'belongs to a report of its own' % (case['tag'], i, ob['stray_on_main_report']))
    if case['tag'].startswith('tamper:') or case['tag'].startswith('instructor-mocks:'):
        # whatever the student does to the patched objects, nothing escapes into the grader
        for i, ob in enumerate(steps):
            if ob['escaped']:
                return ('escapes:%s' % case['tag'], '%s: step %d (%s) let %s escape into the grader' % (case['tag'], i, case['steps'][i]['entry'], ob['escaped']))
        return None
    if case['entry'] in ('history', 'timeout'):
        return None
    ob = steps[-1]
    mro = case['mro']
    base_only = mro is not None and 'Exception' not in mro and 'SystemExit' not in mro
    if base_only:
        return None   # KeyboardInterrupt & co propagate by design (C05 covers their cleanup)
    if ob['escaped']:
        return ('escapes:%s' % key_of(case), '%s via %s: %s escaped into the grader' % (case['tag'], case['entry'], ob['escaped']))
    if ob['exception'] is None:
        return ('no-exception:%s' % key_of(case), '%s via %s: the sandbox has no exception recorded' % (case['tag'], case['entry']))
    if case['cls'] and ob['exception'] != case['cls'] and not (case['cls'] == 'SyntaxError' and 'SyntaxError' in ob['exception_mro']) \
            and not (case['where'] == 'compile'):
        return ('wrong-exception:%s' % key_of(case), '%s via %s: sandbox exception is %s' % (case['tag'], case['entry'], ob['exception']))
    if len(ob['runtime_labels']) != 1:
        return ('feedback-count:%s' % key_of(case), '%s via %s: %d runtime feedbacks %s' % (case['tag'], case['entry'], len(ob['runtime_labels']), ob['runtime_labels']))
    if case['cls'] and case['where'] == 'exec' and ob['runtime_names'][0] not in (case['cls'],):
        return ('feedback-class:%s' % key_of(case), '%s via %s: feedback describes %s' % (case['tag'], case['entry'], ob['runtime_names'][0]))
    if case['line'] is not None and ob['runtime_lines'][0] != case['line']:
        return ('location:%s:%s' % (key_of(case), case['entry']),
                '%s via %s: feedback located on line %s, the failure was raised on line %s of %s' % (
                    case['tag'], case['entry'], ob['runtime_lines'][0], case['line'], case['raise_file']))
    return None


def correspondence(ctx):
    rng = ctx.rng
    cases = build_cases(rng, ctx.tier)
    res = vlib.run_impl('c05_impl.py', {'cases': [{'files': c['files'], 'steps': c['steps'], 'sections': c.get('sections', False), 'mocks': c.get('mocks', []),
                                                     'grader_patches': c.get('grader_patches', False), 'own_report': c.get('own_report', False)} for c in cases]}, timeout=1500)
    ex_site, co_site = sites()
    items = []
    for case, steps in zip(cases, res):
        ctx.count('entry:' + case['entry'])
        ctx.count('class:' + (abstract_class(case['mro']) if case['mro'] else ('compile' if case['where'] == 'compile' else 'blocked')))
        last = steps[-1]
        ctx.case((case['tag'], case['entry'], json.dumps(case['steps'])), nontrivial=True,
                 sample={'tag': case['tag'], 'entry': case['entry'], 'observed': {k: last[k] for k in ('escaped', 'exception', 'runtime_labels', 'runtime_lines', 'patch_depth', 'stdout_depth')}}
                 if case['tag'] in ('user-str-raises', 'user-base', 'raise:KeyboardInterrupt', 'timeout:busy') else None)
        v = (oracle_c05 if ctx.pid == 'C05' else oracle_c04)(case, steps)
        if v:
            ctx.violation(v[0], {'case': {k: case[k] for k in ('tag', 'entry', 'files', 'steps')}, 'observed': steps, 'why': v[1]})
        # skeleton prediction for single executions whose class is known
        if case['entry'] in ('run', 'call', 'evaluate') and (case['mro'] or case['where'] == 'compile') and not last.get('leaked') \
                and not case.get('skip_model'):
            if case['where'] == 'compile':
                site, cls = co_site, ('EIndent' if 'IndentationError' in last['exception_mro'] else
                                      'ESyntax' if 'SyntaxError' in last['exception_mro'] else
                                      'ERecursion' if last['exception'] in ('RecursionError', 'MemoryError') else 'EException')
            else:
                site, cls = ex_site, abstract_class(case['mro'])
            obs_out = 'propagates' if last['escaped'] else 'returns'
            items.append('(%s, %s, %s, %s, %s)' % (cnat(site), cls, cbool(last['escaped'] is not None),
                                                   cnat(len(last['runtime_labels'])),
                                                   cbool(last['stdout_restored'] and last['sleep_restored'] and not last['patch_depth'] and not last['stdout_depth'])))
    bad = ctx.coq_cases('zoo', HEADER, items, 'check_zoo')
    ctx.obligation('correspondence:zoo(skeleton path predicted for the raised class = observed: propagates?, #runtime feedback, restored?)',
                   not bad, str([items[i] for k, i, d in bad if k == 'mismatch'][:5]))
    for b in bad[:3]:
        ctx.broken.append(('correspondence', 'sandbox-skeleton-vs-implementation', items[b[1]] if b[0] == 'mismatch' else b[2]))
    ctx.rule = ('exception zoo: every builtin exception class constructible from one string, user classes under Exception and '
                'BaseException (with __str__/__repr__ that raise or return non-str, falsy instances, raising __bool__/__setattr__/__eq__, '
                'arguments plus a raising __str__, empty messages, a hand-raised SyntaxError naming a foreign file), SystemExit in four forms, unbounded recursion, '
                'natural runtime errors, every blocked builtin/module, syntax errors incl. NUL byte and deep nesting; through run / '
                'call / evaluate / import of a student file, random tracer style; student code tampering with the patched objects '
                '(closing / rebinding / deleting sys.stdout, replacing time.sleep, sys.settrace under the native tracer); histories of 2-5 failing executions with probe '
                'executions between them; threaded time-outs. Process-global state compared before/after every execution.')
    ctx.extra_cov['contracts'] = {k: v for k, v in sandbox_flow.CONTRACTS.items()}
