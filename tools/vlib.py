"""Shared machinery for the pedal Coq verification checks.

One check run (see DESIGN.md 2.4/2.5):
  1. translators regenerate coq/gen/*.v from the repo's current source;
  2. the Coq closure of props/<ID>.v is rebuilt (full .vo build) and the
     `Print Assumptions` output under every property theorem is collected;
  3. the correspondence run executes model (vm_compute inside coqc) and
     implementation on the same generated cases;
  4. a broken tie / obligation / correspondence triggers the property oracle
     on the real implementation to look for a concrete failing input.
"""
import fcntl
import hashlib
import json
import os
import random
import re
import subprocess
import sys
import time

VERIF = os.path.dirname(os.path.dirname(os.path.abspath(__file__)))
REPO = os.environ.get('VERIF_REPO', '/repo')
PY = '/venv/bin/python'
COQ = os.path.join(VERIF, 'coq')
GEN = os.path.join(COQ, 'gen')
CASES = os.path.join(COQ, 'cases')
GUARD = 'PEDAL_EDU_PEDAL_VERIF'

FORBIDDEN = re.compile(
    r'\b(Admitted|admit|Axiom|Axioms|Parameter|Parameters|Conjecture|Conjectures|'
    r'Unset\s+Guard|bypass_check|Admit\s+Obligations|type-in-type|impredicative-set|'
    r'Unset\s+Positivity|Unset\s+Universe)\b')

TRUSTED_BASE = [
    "Coq 8.16.1 kernel (coqc, full .vo build; vm_compute used, native_compute not used)",
    "axioms: none expected - every property theorem must print 'Closed under the global context'",
    "fail-closed Python-ast translators under /verif/tools/translate (regenerate coq/gen/*.v from the repo source on every run)",
    "correspondence harness: generators, abstraction of implementation objects to model values, canonicalisation",
    "CPython 3.12.1 facts appear only as specification tables validated against the live interpreter on every run",
    "no extraction unless stated in the evidence of the property",
]


class Refusal(Exception):
    """A translator met source it does not understand (tie broken, fail closed)."""


def log(*a):
    print(*a, file=sys.stderr, flush=True)


def sh(cmd, timeout=600, cwd=None, env=None, input=None):
    t0 = time.time()
    try:
        p = subprocess.run(cmd, shell=isinstance(cmd, str), cwd=cwd, env=env, input=input,
                           stdout=subprocess.PIPE, stderr=subprocess.STDOUT, timeout=timeout,
                           text=True, errors='replace')
        return p.returncode, p.stdout, time.time() - t0
    except subprocess.TimeoutExpired as e:
        out = e.stdout or ''
        if isinstance(out, bytes):
            out = out.decode('utf8', 'replace')
        return 124, out + '\n[timeout after %ss]' % timeout, time.time() - t0


def impl_env(extra=None):
    env = dict(os.environ)
    env['PYTHONPATH'] = REPO + os.pathsep + os.path.join(VERIF, 'tools')
    env['PYTHONHASHSEED'] = env.get('VERIF_HASHSEED', '0')
    env[GUARD] = '1'
    env['PYTHONDONTWRITEBYTECODE'] = '1'
    env['VERIF_REPO'] = REPO
    if extra:
        env.update(extra)
    return env


def run_impl(script, payload, timeout=900, extra_env=None):
    """Run tools/impl/<script> under the repo interpreter. The script reads JSON on
    stdin and writes JSON to the file named by argv[1] (stdout is not trusted:
    the sandbox patches it)."""
    path = script if os.path.isabs(script) else os.path.join(VERIF, 'tools', 'impl', script)
    out = os.path.join(CASES, 'impl_%d_%s.json' % (os.getpid(), os.path.basename(script)))
    os.makedirs(CASES, exist_ok=True)
    if os.path.exists(out):
        os.unlink(out)
    rc, txt, dt = sh([PY, path, out], timeout=timeout, env=impl_env(extra_env),
                     input=json.dumps(payload), cwd=REPO)
    if not os.path.exists(out):
        raise RuntimeError('implementation runner %s produced no output (rc=%s):\n%s' % (script, rc, txt[-3000:]))
    with open(out) as f:
        res = json.load(f)
    os.unlink(out)
    return res


# ---------------------------------------------------------------- Coq literals
def cz(n):
    return '(%d)%%Z' % n


def cnat(n):
    assert 0 <= n < 5000
    return '%d%%nat' % n


def cbool(b):
    return 'true' if b else 'false'


def cstr(s):
    """Coq `string` literal; restricted to printable ASCII (refuse otherwise)."""
    for ch in s:
        if not (32 <= ord(ch) < 127):
            raise ValueError('non-printable in Coq string literal: %r' % s)
    return '"%s"%%string' % s.replace('"', '""')


def cpts(s):
    """Python str -> list of code points (list Z)."""
    return clist([cz(ord(c)) for c in s])


def clist(items):
    return '[' + '; '.join(items) + ']'


def copt(x):
    return 'None' if x is None else '(Some %s)' % x


def cpair(*xs):
    return '(' + ', '.join(xs) + ')'


# ---------------------------------------------------------------- context
class Ctx:
    def __init__(self, pid, tier, seed):
        self.pid = pid
        self.tier = tier
        self.seed = seed
        self.rng = random.Random(seed * 1000003 + int(pid[1:]))
        self.t0 = time.time()
        self.obligations = []       # (name, ok, detail)
        self.broken = []            # list of (kind, name, detail): ties/obligations/correspondences that no longer check
        self.violations = []        # (key, replay_path, found_input)
        self.known_hits = []        # (key, what)
        self.evals = 0
        self.distinct = set()
        self.samples = []
        self.stats = {}
        self.assumptions_seen = {}
        self.notes = []
        self.rule = ''
        self.extra_cov = {}
        self.extra_trusted = []
        self.level = 'proof'
        self._kf = None

    # -------- bookkeeping
    def obligation(self, name, ok, detail=''):
        self.obligations.append((name, bool(ok), detail))
        if not ok:
            self.broken.append(('obligation', name, detail))
            log('[%s] OBLIGATION FAILED: %s %s' % (self.pid, name, detail[-1500:]))

    def count(self, key, n=1):
        self.stats[key] = self.stats.get(key, 0) + n

    def case(self, canon, nontrivial=True, sample=None):
        """Register one explored case (for the evidence file)."""
        self.evals += 1
        if nontrivial:
            self.distinct.add(hashlib.sha1(repr(canon).encode()).hexdigest())
        if sample is not None and len(self.samples) < 6:
            self.samples.append(sample)

    # -------- known findings
    def known(self):
        if self._kf is None:
            p = os.path.join(VERIF, 'known_findings.json')
            self._kf = json.load(open(p)) if os.path.exists(p) else {'findings': [], 'fixed': []}
        return self._kf

    def violation(self, key, replay, found_input=True):
        """Report a violation of the property. `key` identifies the specific failing
        input/call site (matched against known_findings.json)."""
        for f in self.known().get('findings', []):
            if f['property'] == self.pid and f['key'] == key:
                if key not in [k for k, _ in self.known_hits]:
                    self.known_hits.append((key, f['what']))
                return
        if any(k == key for k, _, _ in self.violations):
            return
        os.makedirs(os.path.join(VERIF, 'replay'), exist_ok=True)
        h = hashlib.sha1((key + json.dumps(replay, sort_keys=True, default=str)).encode()).hexdigest()[:10]
        path = os.path.join(VERIF, 'replay', '%s-%s.json' % (self.pid, h))
        replay = dict(replay)
        replay.update({'property': self.pid, 'key': key, 'found_failing_input': found_input,
                       'seed': self.seed, 'tier': self.tier,
                       'how_to_rerun': 'cd /verif && VERIF_SEED=%d ./check %s --tier %s' % (self.seed, self.pid, self.tier)})
        with open(path, 'w') as f:
            json.dump(replay, f, indent=1, default=str)
        self.violations.append((key, path, found_input))

    # -------- translators
    def gen(self, name, producer):
        """Run a translator; write coq/gen/<name>.v only if its text changed."""
        os.makedirs(GEN, exist_ok=True)
        path = os.path.join(GEN, name + '.v')
        try:
            text = producer()
        except Refusal as e:
            self.obligation('translator:' + name, False, 'translator refused: %s' % e)
            # leave a file that cannot compile so that nothing stale is used
            text = '(* translator refused: %s *)\nDefinition translator_refused : True := 0.\n' % str(e).replace('*)', '* )')
        except (SyntaxError, FileNotFoundError, KeyError, IndexError, AttributeError, ValueError, TypeError) as e:
            self.obligation('translator:' + name, False, 'translator failed: %r' % e)
            text = '(* translator failed *)\nDefinition translator_refused : True := 0.\n'
        else:
            self.obligation('translator:' + name, True)
        old = open(path).read() if os.path.exists(path) else None
        if old != text:
            with open(path, 'w') as f:
                f.write(text)
        return path

    # -------- Coq build
    def coq_build(self, targets, timeout=1500):
        """Full .vo build of the given targets (paths relative to coq/)."""
        with CoqLock():
            ok, out = coq_make(targets, timeout)
        return ok, out

    def coq_props(self, timeout=900):
        """Build the closure of props/<ID>.v, then compile the props file itself with
        captured output and check every theorem's Print Assumptions."""
        rel = 'props/%s.v' % self.pid
        src = os.path.join(COQ, rel)
        text = open(src).read()
        thms = re.findall(r'^\s*Theorem\s+([A-Za-z0-9_\']+)', text, re.M)
        prints = re.findall(r'^\s*Print Assumptions\s+([A-Za-z0-9_\']+)\s*\.', text, re.M)
        bad = gate_scan()
        self.obligation('gate:no-admit-no-axiom', not bad, '; '.join(bad[:5]))
        missing = [t for t in thms if t not in prints]
        self.obligation('gate:print-assumptions-under-every-theorem', not missing, ' '.join(missing))
        with CoqLock():
            ok, out = coq_make_deps(rel, timeout)
            if ok:
                rc, out2, dt = sh(['coqc', '-R', '.', 'Pedal', rel], timeout=timeout, cwd=COQ)
                ok = rc == 0
                out = out2
        if not ok:
            failing = None
            m = re.search(r'File "\./?([^"]+)", line (\d+)', out)
            if m:
                failing = '%s:%s' % (m.group(1), m.group(2))
            for t in thms:
                self.obligation('theorem:' + t, False, 'Coq build failed at %s: %s' % (failing, out[-1200:]))
            return False, out
        # parse Print Assumptions blocks in order
        blocks = split_assumptions(out)
        for i, t in enumerate(prints):
            blk = blocks[i] if i < len(blocks) else '<<missing>>'
            closed = blk.strip().startswith('Closed under the global context')
            self.assumptions_seen[t] = 'closed' if closed else blk.strip()
            if t in thms:
                self.obligation('theorem:' + t, closed, '' if closed else 'depends on axioms: ' + blk.strip()[:400])
        return True, out

    # -------- correspondence inside Coq
    def coq_cases(self, name, header, items, checker, chunk=400, timeout=900):
        """items: list of Coq terms (each one case, usually a pair (input, expected)).
        `checker` : Coq term of type  <case type> -> bool.  Returns the list of indices whose
        check evaluates to false (empty = model and implementation agree)."""
        os.makedirs(CASES, exist_ok=True)
        built = self.__dict__.setdefault('_models_built_for', set())
        if header not in built:
            # the executable models this header imports (and nothing else: another property's gen/*.v may have been
            # regenerated from a different tree by an earlier run) must be rebuilt against the freshly regenerated gen/*.v
            hdr = os.path.join(CASES, '%s_header_%d.v' % (self.pid, os.getpid()))
            with open(hdr, 'w') as f:
                f.write(header + '\n')
            with CoqLock():
                ok, out = coq_make_deps('cases/' + os.path.basename(hdr))
            os.remove(hdr)
            if not ok:
                self.obligation('build:models', False, out[-1500:])
            built.add(header)
        files = []
        for k in range(0, len(items), chunk):
            fn = os.path.join(CASES, '%s_%s_%d_%d.v' % (self.pid, name, os.getpid(), k // chunk))
            body = ';\n  '.join(items[k:k + chunk])
            with open(fn, 'w') as f:
                f.write(header + '\n')
                # the element type is the checker's domain (a chunk in which some list component is [] in EVERY case would
                # otherwise leave that component's type undetermined)
                f.write('Definition the_cases : list (ltac:(let T := type of (%s) in match T with ?A -> _ => exact A end)) := [\n  %s\n].\n'
                        % (checker, body))
                f.write('Definition bad_indices := '
                        'map fst (filter (fun p => negb (%s (snd p))) (combine (seq 0 (List.length the_cases)) the_cases)).\n' % checker)
                f.write('Eval vm_compute in (List.length the_cases, bad_indices).\n')
            files.append((k, fn))
        bad = []
        procs = []
        maxp = 14
        pending = list(files)
        running = []
        outs = {}
        while pending or running:
            while pending and len(running) < maxp:
                k, fn = pending.pop(0)
                p = subprocess.Popen(['timeout', str(timeout), 'coqc', '-R', COQ, 'Pedal', fn], cwd=CASES,
                                     stdout=subprocess.PIPE, stderr=subprocess.STDOUT, text=True)
                running.append((k, fn, p))
            k, fn, p = running.pop(0)
            out, _ = p.communicate()
            outs[k] = (fn, p.returncode, out)
        for k, fn in files:
            fn, rc, out = outs[k]
            m = re.search(r'=\s*\((\d+)%?n?a?t?,\s*(\[[^\]]*\]|nil)\)', out.replace('\n', ' '))
            if rc != 0 or not m:
                self.obligation('correspondence:%s:coq-evaluation' % name, False, out[-1500:])
                bad.append(('coq-error', k, out[-800:]))
            else:
                n_here = min(chunk, len(items) - k)
                if int(m.group(1)) != n_here:
                    self.obligation('correspondence:%s:count' % name, False, 'expected %d got %s' % (n_here, m.group(1)))
                idx = re.findall(r'\d+', m.group(2))
                bad.extend(('mismatch', k + int(i), '') for i in idx)
            for ext in (('.vo', '.vok', '.vos', '.glob') if os.environ.get('VERIF_KEEP_CASES') else ('.v', '.vo', '.vok', '.vos', '.glob')):
                try:
                    os.unlink(fn[:-2] + ext)
                except OSError:
                    pass
            try:
                os.unlink(os.path.join(os.path.dirname(fn), '.' + os.path.basename(fn)[:-2] + '.aux'))
            except OSError:
                pass
        return bad

    def coq_eval(self, header, term, timeout=300):
        """Evaluate one term with vm_compute and return Coq's printed text (for replays)."""
        os.makedirs(CASES, exist_ok=True)
        fn = os.path.join(CASES, '%s_eval_%d.v' % (self.pid, os.getpid()))
        with open(fn, 'w') as f:
            f.write(header + '\nEval vm_compute in (%s).\n' % term)
        rc, out, dt = sh(['coqc', '-R', COQ, 'Pedal', fn], timeout=timeout, cwd=CASES)
        for ext in ('.v', '.vo', '.vok', '.vos', '.glob'):
            try:
                os.unlink(fn[:-2] + ext)
            except OSError:
                pass
        try:
            os.unlink(os.path.join(CASES, '.' + os.path.basename(fn)[:-2] + '.aux'))
        except OSError:
            pass
        return out.strip()

    # -------- finishing
    def finish(self):
        # a broken tie with no concrete violation found is still a violation
        if self.broken and not self.violations:
            names = [n for _, n, _ in self.broken]
            self.violation('unproved:' + ','.join(sorted(set(names)))[:200],
                           {'what': 'a proof obligation / translator tie / correspondence no longer checks and the '
                                    'search found no concrete failing input',
                            'no_longer_checks': [{'kind': k, 'name': n, 'detail': d[-2000:]} for k, n, d in self.broken]},
                           found_input=False)
        wall = time.time() - self.t0
        n_obl = len(self.obligations)
        n_ok = sum(1 for _, ok, _ in self.obligations if ok)
        cov = {
            'obligations': n_obl,
            'discharged': n_ok,
            'obligation_names': [n for n, _, _ in self.obligations],
            'failed_obligations': [n for n, ok, _ in self.obligations if not ok],
            'checker_cmd': 'coq_makefile -f _CoqProject -o Makefile && make (full .vo) ; coqc -R . Pedal props/%s.v (Print Assumptions under every theorem)' % self.pid,
            'trusted_base': TRUSTED_BASE + self.extra_trusted,
            'print_assumptions': self.assumptions_seen,
            'evaluations': self.evals,
            'distinct_nontrivial': len(self.distinct),
            'rule': self.rule,
            'samples': self.samples or ['(no correspondence cases were reached on this run)'],
            'distribution': self.stats,
            'known_findings_hit': [k for k, _ in self.known_hits],
        }
        cov.update(self.extra_cov)
        ev = {'property_id': self.pid, 'tier': self.tier, 'seed': self.seed, 'level': self.level,
              'coverage': cov, 'assumptions': self.notes, 'wall_s': round(wall, 2),
              'violations': len(self.violations)}
        os.makedirs(os.path.join(VERIF, 'evidence'), exist_ok=True)
        with open(os.path.join(VERIF, 'evidence', self.pid + '.json'), 'w') as f:
            json.dump(ev, f, indent=1, default=str)
        for key, what in self.known_hits:
            print('KNOWN-FINDING: property=%s %s [%s]' % (self.pid, what, key))
        for key, path, found in self.violations:
            print('VIOLATION property=%s replay=%s%s' % (self.pid, path, '' if found else ' no-failing-input-found'))
        print('[%s] tier=%s seed=%d obligations=%d/%d cases=%d distinct=%d violations=%d wall=%.1fs'
              % (self.pid, self.tier, self.seed, n_ok, n_obl, self.evals, len(self.distinct), len(self.violations), wall))
        sys.stdout.flush()
        return 1 if self.violations else 0


# ---------------------------------------------------------------- Coq build helpers
class CoqLock:
    def __enter__(self):
        os.makedirs(COQ, exist_ok=True)
        self.f = open(os.path.join(COQ, '.lock'), 'w')
        fcntl.flock(self.f, fcntl.LOCK_EX)

    def __exit__(self, *a):
        fcntl.flock(self.f, fcntl.LOCK_UN)
        self.f.close()


def coq_sources():
    out = []
    for d in ('lib', 'model', 'gen', 'proof', 'props'):
        dd = os.path.join(COQ, d)
        if os.path.isdir(dd):
            for fn in sorted(os.listdir(dd)):
                if fn.endswith('.v') and not fn.startswith('.'):
                    out.append('%s/%s' % (d, fn))
    return out


def coq_makefile():
    srcs = coq_sources()
    proj = '-R . Pedal\n' + '\n'.join(srcs) + '\n'
    pp = os.path.join(COQ, '_CoqProject')
    old = open(pp).read() if os.path.exists(pp) else None
    if old != proj or not os.path.exists(os.path.join(COQ, 'Makefile')):
        with open(pp, 'w') as f:
            f.write(proj)
        rc, out, dt = sh('coq_makefile -f _CoqProject -o Makefile', cwd=COQ, timeout=120)
        if rc != 0:
            raise RuntimeError('coq_makefile failed: ' + out)


def coq_make(targets, timeout=1500):
    coq_makefile()
    rc, out, dt = sh(['timeout', str(timeout), 'make', '-j16', '-k'] + list(targets), cwd=COQ, timeout=timeout + 30)
    return rc == 0, out


def coq_make_deps(rel_v, timeout=1500):
    """Build everything props/<ID>.v depends on (not the file itself)."""
    coq_makefile()
    rc, out, dt = sh(['coqdep', '-R', '.', 'Pedal', rel_v], cwd=COQ, timeout=120)
    deps = []
    for line in out.splitlines():
        if line.startswith(rel_v[:-2] + '.vo') and ':' in line:
            rhs = line.split(':', 1)[1].split()
            deps = [d for d in rhs if d.endswith('.vo') and not d.startswith('/')]
            break
    if not deps:
        return True, ''
    return coq_make(deps, timeout)


def split_assumptions(out):
    """Split coqc output into one block per Print Assumptions."""
    blocks = []
    cur = None
    for line in out.splitlines():
        if line.startswith('Closed under the global context'):
            if cur is not None:
                blocks.append(cur)
            blocks.append(line)
            cur = None
        elif line.startswith('Axioms:'):
            if cur is not None:
                blocks.append(cur)
            cur = line
        elif cur is not None:
            cur += '\n' + line
    if cur is not None:
        blocks.append(cur)
    return blocks


def gate_scan():
    bad = []
    for rel in coq_sources():
        txt = open(os.path.join(COQ, rel)).read()
        txt = strip_coq_comments(txt)
        for m in FORBIDDEN.finditer(txt):
            bad.append('%s: %s' % (rel, m.group(0)))
    return bad


def strip_coq_comments(t):
    out = []
    depth = 0
    i = 0
    instr = False
    while i < len(t):
        if not instr and t.startswith('(*', i):
            depth += 1
            i += 2
            continue
        if not instr and depth and t.startswith('*)', i):
            depth -= 1
            i += 2
            continue
        if depth == 0:
            if t[i] == '"':
                instr = not instr
            elif not instr:
                out.append(t[i])
        i += 1
    return ''.join(out)
