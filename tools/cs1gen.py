"""Generator of small deterministic, executable CS1-style programs (for differential execution)."""


class CS1:
    def __init__(self, rng):
        self.r = rng
        self.ints = []
        self.strs = []
        self.lists = []
        self.funcs = []       # (name, nparams)
        self.n = 0
        self.inputs = []

    def fresh(self, kind):
        self.n += 1
        return '%s%d' % (kind, self.n)

    def int_expr(self, d=0):
        r = self.r
        k = r.randrange(10)
        if d > 2 or k < 3 or not self.ints:
            return str(r.choice([0, 1, 2, 3, 5, 7, 10, -4]))
        if k < 6:
            return r.choice(self.ints)
        if k < 8:
            return '(%s %s %s)' % (self.int_expr(d + 1), r.choice(['+', '-', '*', '//', '%']), self.int_expr(d + 1))
        if k < 9 and self.lists:
            return 'len(%s)' % r.choice(self.lists)
        if self.funcs:
            f, n = r.choice(self.funcs)
            return '%s(%s)' % (f, ', '.join(self.int_expr(d + 1) for _ in range(n)))
        return 'abs(%s)' % self.int_expr(d + 1)

    def str_expr(self, d=0):
        r = self.r
        k = r.randrange(8)
        if d > 1 or k < 3 or not self.strs:
            return repr(r.choice(['a', 'hello', 'World', '', 'x y', 'tab\tbed', "it's", 'line\nbreak', 'cr\rback', 'dos\r\nline']))
        if k < 5:
            return r.choice(self.strs)
        if k < 6:
            return '(%s + %s)' % (self.str_expr(d + 1), self.str_expr(d + 1))
        if k < 7:
            return '%s.%s()' % (r.choice(self.strs), r.choice(['upper', 'lower', 'strip', 'title']))
        return 'str(%s)' % self.int_expr(d + 1)

    def cond(self):
        return '%s %s %s' % (self.int_expr(1), self.r.choice(['<', '>', '==', '!=', '<=', '>=']), self.int_expr(1))

    def stmt(self, ind, depth):
        r = self.r
        k = r.randrange(22)
        out = []
        if k < 4:
            v = self.fresh('i')
            out.append('%s%s = %s' % (ind, v, self.int_expr()))
            self.ints.append(v)
        elif k < 6:
            v = self.fresh('s')
            out.append('%s%s = %s' % (ind, v, self.str_expr()))
            self.strs.append(v)
        elif k < 8:
            v = self.fresh('l')
            out.append('%s%s = [%s]' % (ind, v, ', '.join(self.int_expr(1) for _ in range(r.randrange(0, 4)))))
            self.lists.append(v)
        elif k < 11:
            args = [r.choice([self.int_expr(1), self.str_expr(1)]) for _ in range(r.randrange(0, 3))]
            extra = r.choice(['', '', '', ', sep="-"', ', end=""', ', end="!\\n"', ', sep="", end=" "'])
            out.append('%sprint(%s%s)' % (ind, ', '.join(args), extra if args else ''))
        elif k < 13 and depth < 2:
            out.append('%sif %s:' % (ind, self.cond()))
            out += self.block(ind + '    ', depth + 1)
            if r.random() < 0.5:
                out.append('%selse:' % ind)
                out += self.block(ind + '    ', depth + 1)
        elif k < 14 and depth < 2:
            v = self.fresh('k')
            out.append('%sfor %s in range(%d):' % (ind, v, r.randrange(0, 4)))
            self.ints.append(v)
            out += self.block(ind + '    ', depth + 1)
        elif k < 15 and depth < 2 and self.ints:
            v = self.fresh('w')
            out.append('%s%s = %d' % (ind, v, r.randrange(0, 4)))
            out.append('%swhile %s > 0:' % (ind, v))
            out.append('%s    %s = %s - 1' % (ind, v, v))
            out += self.block(ind + '    ', depth + 1)
            self.ints.append(v)
        elif k < 16 and depth == 0:
            f = self.fresh('f')
            n = r.randrange(0, 3)
            params = ['p%d' % j for j in range(n)]
            saved = (list(self.ints), list(self.strs), list(self.lists))
            self.ints += params
            out.append('def %s(%s):' % (f, ', '.join(params)))
            out += self.block('    ', 1)
            out.append('    return %s' % self.int_expr(1))
            self.ints, self.strs, self.lists = saved
            self.funcs.append((f, n))
        elif k < 17 and self.lists:
            out.append('%s%s.append(%s)' % (ind, r.choice(self.lists), self.int_expr(1)))
        elif k < 18:
            v = self.fresh('i')
            self.inputs.append(str(r.choice([3, 12, 0, -5])))
            out.append('%s%s = int(input("Q>"))' % (ind, v))
            self.ints.append(v)
        elif k < 19:
            v = self.fresh('d')
            out.append('%s%s = {%s}' % (ind, v, ', '.join('%r: %s' % (kk, self.int_expr(1)) for kk in r.sample(['a', 'b', 'c'], r.randrange(0, 3)))))
        elif k < 20 and depth < 2:
            out.append('%stry:' % ind)
            out.append('%s    %s = %s' % (ind, self.fresh('t'), r.choice(['1 // 0', 'int("x")', '[1][5]', self.int_expr(1)])))
            out.append('%sexcept %s:' % (ind, r.choice(['ZeroDivisionError', 'Exception', '(ValueError, IndexError)'])))
            out.append('%s    print("caught")' % ind)
        elif k < 21:
            v = self.fresh('c')
            out.append('%s%s = [%s * 2 for %s in range(%d) if %s != 1]' % (ind, v, 'q', 'q', r.randrange(0, 5), 'q'))
            self.lists.append(v)
        else:
            v = self.fresh('m')
            out.append('%simport math' % ind)
            out.append('%s%s = math.floor(%s / 2) + math.gcd(12, 18)' % (ind, v, self.int_expr(1)))
            self.ints.append(v)
        return out

    def block(self, ind, depth):
        saved = (list(self.ints), list(self.strs), list(self.lists))
        out = []
        for _ in range(self.r.randrange(1, 3)):
            out += self.stmt(ind, depth)
        # names bound only inside a block may not exist afterwards
        self.ints, self.strs, self.lists = saved
        return out

    def program(self):
        lines = []
        for _ in range(self.r.randrange(2, 9)):
            lines += self.stmt('', 0)
        if self.r.random() < 0.25:
            lines.append(self.r.choice(['zz = 1 // 0', 'zz = undefined_thing', 'zz = [1, 2][7]', 'zz = int("seven")', 'raise ValueError("stop")',
                                        'zz = {"a": 1}["b"]', 'zz = "a" + 1',
                                        # failures raised inside (pure Python) library code the program calls
                                        'import random\nzz = random.choice([])', 'import statistics\nzz = statistics.mean([])',
                                        'import json\nzz = json.loads("{oops")', 'import random\nzz = random.randint(5, 1)']))
            lines.append('print("unreachable")')
        return '\n'.join(lines) + '\n', list(self.inputs), list(self.funcs)
