#!/bin/sh
# Re-checks every compiled props module (and all it depends on) with Coq's independent checker and records the
# context summary (axioms, type-in-type, unsafe fixpoints, assumed positivity).  ~10 min, up to 4 GB.
cd "$(dirname "$0")/../coq" || exit 2
mods=$(ls props/*.v | sed 's|props/\(.*\)\.v|Pedal.props.\1|')
timeout 3000 coqchk -silent -o -R . Pedal $mods > /verif/trusted/coqchk.full.log 2>&1
rc=$?
{ echo "coqchk -silent -o -R . Pedal $(echo $mods | tr '\n' ' ')"; echo "exit=$rc"; sed -n '/CONTEXT SUMMARY/,$p' /verif/trusted/coqchk.full.log; } > /verif/trusted/coqchk.txt
rm -f /verif/trusted/coqchk.full.log
cat /verif/trusted/coqchk.txt
exit $rc
