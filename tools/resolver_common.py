"""Shared harness for C01/C02/C03 (resolver): generator of real reports, conversion of the
implementation's snapshots to the Coq model's input, and the three property oracles."""
import json
from fractions import Fraction

import vlib
from vlib import cz, cstr, clist, copt, cbool, cnat

DOC_ORDER = ['highest', 'syntax', 'mistakes', 'instructor', 'algorithmic', 'runtime', 'student', 'specification',
             'positive', 'instructions', 'uncategorized', 'lowest']
ALIASES = {'parser': 'syntax', 'verifier': 'syntax', 'instructor': 'instructor', 'analyzer': 'algorithmic'}
CATS = DOC_ORDER[1:11] + ['style', 'system', 'complete', 'custom']
HEADER = ('From Coq Require Import ZArith QArith List String Ascii Bool.\nImport ListNotations.\n'
          'From Pedal Require Import lib.PyMini lib.Assoc model.C01_Resolver gen.C01_Gen model.C01_Run.\n'
          'Open Scope string_scope.\nOpen Scope list_scope.\nOpen Scope Z_scope.\n')


def mixcase(rng, s):
    k = rng.randrange(6)
    if k == 0:
        return s.upper()
    if k == 1:
        return s.capitalize()
    return s


# ------------------------------------------------------------------ generator
def gen_score(rng, junk=False):
    k = rng.randrange(15)
    if k >= 12:
        # scores finer than a hundredth: only the SUM is rounded
        return rng.choice(['12.5%', '2.5%', '0.5%', '+2.5%', '-2.5%', '37.5%', '0.4%', '0.2%', 0.125, 0.375, '0.125', '-0.125', '+0.005', 0.005,
                           # written without the leading zero
                           '.5', '.25', '.5%', '+.2', '-.1',
                           # floats that Python prints in exponent notation
                           0.00001, 0.00005, 2.5e-05])
    n = rng.randrange(0, 60)
    if junk and rng.random() < 0.5:
        return rng.choice(['*2', '/2', '/0', 'abc', '1.2.3', '+', '%5', '.', '*50%'])
    if k == 0:
        return rng.randrange(0, 3)
    if k == 1:
        return n / 100
    if k == 2:
        return rng.randrange(0, 9) / 4
    if k == 3:
        return '%d%%' % n
    if k == 4:
        return '+%d' % rng.randrange(0, 4)
    if k == 5:
        return '-%d' % rng.randrange(0, 4)
    if k == 6:
        return '+%d%%' % n
    if k == 7:
        return '-%d%%' % n
    if k == 8:
        return '0.%02d' % n
    if k == 9:
        return '-0.%02d' % n
    if k == 10:
        return -n / 100
    return '%d.5%%' % n


def _kinds():
    """every feedback kind the source declares (FeedbackKind), read from the source"""
    import ast as _ast
    import os as _os
    tree = _ast.parse(open(_os.path.join(vlib.REPO, 'pedal/core/feedback_category.py')).read())
    out = []
    for n in _ast.walk(tree):
        if isinstance(n, _ast.ClassDef) and n.name == 'FeedbackKind':
            for st in n.body:
                v = getattr(st, 'value', None)
                if isinstance(st, (_ast.Assign, _ast.AnnAssign)) and isinstance(v, _ast.Constant) and isinstance(v.value, str):
                    out.append(v.value)
    return out or ['Compliment', 'Instructional', 'Mistake', 'Hint', 'Result', 'Encouragement']


KINDS = _kinds()


def gen_feedback(rng, junk=False):
    ctor = rng.choice(['Feedback'] * 6 + ['neg'] * 4 + ['runtime_like', 'compliment', 'set_correct', 'give_partial',
                                                        'gently', 'explain', 'guidance', 'muted_default', 'unscored_default'])
    kw = {}
    if ctor in ('compliment', 'gently', 'explain', 'guidance'):
        kw['message'] = 'msg %d' % rng.randrange(100) if rng.random() < 0.85 else ''
    if ctor == 'give_partial':
        kw['_pos'] = [gen_score(rng)]
    r = rng.random
    if ctor in ('muted_default', 'unscored_default', 'give_partial') and r() < 0.6:
        # a class that is muted / unscored by default, and a call that says otherwise
        kw['muted' if ctor != 'unscored_default' else 'unscored'] = rng.choice([False, False, True])
    if ctor in ('Feedback', 'neg', 'runtime_like') or r() < 0.3:
        if r() < (0.85 if ctor == 'Feedback' else 0.3):
            kw['category'] = mixcase(rng, rng.choice(CATS))
    if r() < 0.7:
        kw['label'] = rng.choice(['alpha', 'beta', 'Gamma', 'delta'])
    if r() < 0.45:
        kw['priority'] = mixcase(rng, rng.choice(['low', 'medium', 'high', 'highest', 'lowest', 'syntax', 'runtime', 'student',
                                                  'positive', 'parser', 'analyzer', 'verifier', 'instructor', 'junk',
                                                  'uncategorized', 'style']))
    if r() < 0.2:
        kw['kind'] = rng.choice(KINDS)
    if r() < 0.2 and 'muted' not in kw:
        kw['muted'] = rng.choice([True, False])
    if r() < 0.15 and 'unscored' not in kw:
        kw['unscored'] = rng.choice([True, False])
    if r() < 0.35 and ctor not in ('give_partial',):
        kw['activate'] = False
    if r() < 0.2:
        kw['else_message'] = rng.choice(['well done', ''])
    if r() < 0.5 and ctor != 'give_partial':
        kw['score'] = gen_score(rng, junk)
    if r() < 0.3:
        kw['correct'] = rng.choice([True, False, None])
    if r() < 0.25:
        kw['valence'] = rng.choice([-1, 0, 1])
    elif ctor in ('gently', 'explain', 'neg', 'runtime_like', 'muted_default', 'unscored_default') and r() < 0.25:
        kw['valence'] = 0      # an explicitly neutral feedback of a class that is negative by default
    if ctor in ('Feedback', 'neg', 'runtime_like') and r() < 0.6:
        kw['message'] = 'm%d' % rng.randrange(50) if r() < 0.85 else ''
    if r() < 0.3:
        kw['title'] = 'T%d' % rng.randrange(9)
    if r() < 0.35:
        kw['fields'] = {k: rng.choice([1, 2, 'a', None, True]) for k in rng.sample(['q', 'name', 'line'], rng.randrange(1, 3))}
    if r() < 0.4:
        kw['parent'] = rng.choice(['A', 'B', 7])      # the section / group the feedback belongs to (by name or number)
    return {'ctor': ctor, 'kwargs': kw}


def gen_suppress(rng):
    k = rng.randrange(10)
    s = {}
    if k < 3:
        s['category'] = mixcase(rng, rng.choice(CATS + ['parser', 'analyzer', 'verifier', 'correct', 'success']))
    elif k < 6:
        s['category'] = mixcase(rng, rng.choice(CATS + ['parser', 'analyzer']))
        s['label'] = mixcase(rng, rng.choice(['alpha', 'beta', 'gamma', 'delta', 'neg_fb']))
    elif k < 8:
        s['label'] = rng.choice(['alpha', 'beta', 'Gamma', 'delta', 'neg_fb', 'gently'])
    else:
        s['label'] = rng.choice(['alpha', 'beta', 'Gamma', 'delta'])
    if rng.random() < 0.4 and 'label' in s:
        s['fields'] = {k: rng.choice([1, 2, 'a', None, True]) for k in rng.sample(['q', 'name', 'line'], rng.randrange(0, 3))}
    return s


CTOR_CATEGORY = {'neg': 'specification', 'runtime_like': 'runtime', 'compliment': 'instructor', 'set_correct': 'complete',
                 'give_partial': 'instructor', 'gently': 'instructor', 'explain': 'instructor', 'guidance': 'instructions'}
CTOR_LABEL = {'neg': 'neg_fb', 'Feedback': 'Feedback'}
REV_ALIAS = {'syntax': ['parser', 'verifier'], 'algorithmic': ['analyzer'], 'instructor': ['instructor']}


def derived_suppress(rng, fb):
    """A suppress() call aimed at an existing feedback: its category (or an alias of it, any case), its label,
    and a field set that matches / differs in one value / names a field the feedback lacks."""
    kw = fb['kwargs']
    cat = kw.get('category') or CTOR_CATEGORY.get(fb['ctor'])
    label = kw.get('label') or CTOR_LABEL.get(fb['ctor'], fb['ctor'])
    s = {}
    form = rng.randrange(4)
    if form in (0, 1) and cat is not None:
        c = cat.lower()
        if c in REV_ALIAS and rng.random() < 0.5:
            c = rng.choice(REV_ALIAS[c])
        s['category'] = mixcase(rng, c) if rng.random() < 0.7 else rng.choice([c.upper(), c.capitalize()])
        if form == 1:
            s['label'] = mixcase(rng, label)
    else:
        s['label'] = label
    if 'label' in s and rng.random() < 0.6:
        have = dict(kw.get('fields') or {})
        fields = {k: v for k, v in have.items() if rng.random() < 0.7}
        k = rng.randrange(4)
        if k == 0 and fields:
            kk = rng.choice(sorted(fields))
            fields[kk] = rng.choice([1, 2, 'a', None, True])
        elif k == 1:
            fields[rng.choice(['q', 'name', 'line', 'zz'])] = rng.choice([1, 'a', None, True])
        s['fields'] = fields
    return s


def gen_case(rng, junk=False):
    n = rng.choice([0, 1, 1, 2, 2, 3, 3, 4, 5, 6, 8])
    fbs = [gen_feedback(rng, junk) for _ in range(n)]
    sup = []
    for _ in range(rng.choice([0, 0, 0, 1, 1, 2, 3])):
        if fbs and rng.random() < 0.7:
            sup.append(derived_suppress(rng, rng.choice(fbs)))
        else:
            sup.append(gen_suppress(rng))
    if fbs and rng.random() < 0.3:
        # several suppressions aimed at ONE feedback (whole category + that label with other fields, twice the same label with
        # different field sets, ...), in either order: any one of them that matches suppresses it
        fb = rng.choice(fbs)
        sup += [derived_suppress(rng, fb) for _ in range(rng.choice([2, 2, 3]))]
        rng.shuffle(sup)
    case = {'feedbacks': fbs, 'suppress': sup, 'other_report': rng.random() < 0.2}
    if len(fbs) >= 2 and rng.random() < 0.12:
        # the report draws from one pool and a per-pool override re-categorises / re-prioritises the feedback: the ranking is by the
        # values AFTER the override
        case['pool'] = {'name': 'A', 'fields': rng.choice([{'category': rng.choice(CATS)}, {'priority': rng.choice(['high', 'low', 'syntax', 'instructor'])},
                                                            {'category': rng.choice(CATS), 'priority': rng.choice(['high', 'low'])}])}
    if fbs and rng.random() < 0.3:
        # a suppression added AFTER the report was resolved; the next resolve must take it into account
        case['late_suppress'] = derived_suppress(rng, rng.choice(fbs))
    return case


CORPUS = [
    # category None (C01 finding), label-with-fields suppression (C01 finding)
    {'feedbacks': [{'ctor': 'Feedback', 'kwargs': {'label': 'bare', 'message': 'x'}}], 'suppress': []},
    {'feedbacks': [{'ctor': 'explain', 'kwargs': {'message': 'hello', 'label': 'E', 'fields': {'q': 1}}}],
     'suppress': [{'label': 'E', 'fields': {'q': 1}}]},
    {'feedbacks': [{'ctor': 'explain', 'kwargs': {'message': 'hello', 'label': 'E', 'fields': {'q': 2}}}],
     'suppress': [{'label': 'E', 'fields': {'q': 1}}]},
    # success marker after a failure, muted item ahead of a live one
    {'feedbacks': [{'ctor': 'neg', 'kwargs': {'message': 'bad'}}, {'ctor': 'set_correct', 'kwargs': {}}], 'suppress': []},
    {'feedbacks': [{'ctor': 'set_correct', 'kwargs': {}}, {'ctor': 'neg', 'kwargs': {'message': 'bad'}}], 'suppress': []},
    {'feedbacks': [{'ctor': 'Feedback', 'kwargs': {'category': 'syntax', 'muted': True, 'message': 'a'}},
                   {'ctor': 'runtime_like', 'kwargs': {'message': 'b', 'score': '+10%'}},
                   {'ctor': 'neg', 'kwargs': {'activate': False, 'score': '+30%'}}], 'suppress': []},
    {'feedbacks': [{'ctor': 'give_partial', 'kwargs': {'_pos': [0.25]}}, {'ctor': 'compliment', 'kwargs': {'message': 'nice', 'score': '+5%'}},
                   {'ctor': 'neg', 'kwargs': {'message': 'bad', 'score': '-10%'}}], 'suppress': [{'category': 'correct'}]},
]


# ------------------------------------------------------------------ to Coq
def coq_fval(v):
    if v is None:
        return 'FNone'
    if isinstance(v, bool):
        return '(FB %s)' % cbool(v)
    if isinstance(v, int):
        return '(FZ %s)' % cz(v)
    return '(FS %s)' % cstr(v)


def coq_fields(d):
    return clist(['(%s, %s)' % (cstr(k), coq_fval(v)) for k, v in d.items()])


def coq_fb(s):
    return ('(mkFb %s %s %s %s %s %s %s %s %s %s %s %s %s %s)' % (
        cz(s['id']), copt(cstr(s['category']) if s['category'] is not None else None), cstr(s['label']),
        copt(cstr(s['priority']) if s['priority'] is not None else None), cstr(s['kind'] or ''),
        cbool(s['muted']), cbool(s['unscored']), cbool(s['triggered']), cbool(s['else']), cbool(s['correct']),
        copt(cstr(s['score']) if s['score'] is not None else None), cbool(s['negative']), cbool(s['has_message']),
        coq_fields(s['fields'])))


def coq_call(s):
    return '(mkCall %s %s %s)' % (copt(cstr(s['category']) if s.get('category') is not None else None),
                                  copt(cstr(s['label']) if s.get('label') is not None else None),
                                  coq_fields(s.get('fields') or {}))


def coq_expected(out):
    s = out['simple']
    if 'raise' in s:
        return '(ExpRaise %s)' % cstr(s['raise'])
    return '(ExpOk %s %s %s %s %s %s %s %s)' % (
        copt(cz(s['used']) if s['used'] is not None else None), cbool(bool(s['correct'])),
        cz(s['score'][0]), cz(s['score'][1]), cbool(s['is_default']),
        clist([cz(i) for i in s['positives']]), clist([cz(i) for i in out['full']['used']]) if 'used' in out['full'] else '[]',
        clist([cstr(x) for x in s['scores']]))


# ------------------------------------------------------------------ independent statement of the properties
def rank_tenths(s):
    """rank per the property statement (documented order; priority re-ranks or shifts)."""
    cat = (s['category'] or 'uncategorized').lower()
    value = DOC_ORDER.index(cat) if cat in DOC_ORDER else len(DOC_ORDER)
    off = 5
    if s['priority'] is not None:
        p = s['priority'].lower()
        p = ALIASES.get(p, p)
        if p in DOC_ORDER:
            value = DOC_ORDER.index(p)
        else:
            off = {'low': 7, 'medium': 5, 'high': 3}.get(p, 1)
    return value * 10 + off


def is_suppressed(s, calls):
    cat = (s['category'] or 'uncategorized').lower()

    def fields_ok(c):
        return all(s['fields'].get(k) == v and (type(s['fields'].get(k)) is type(v) or
                                                 isinstance(v, (int, bool)) and isinstance(s['fields'].get(k), (int, bool)))
                   for k, v in (c.get('fields') or {}).items())
    for c in calls:
        if c.get('category') is not None:
            cc = c['category'].lower()
            cc = ALIASES.get(cc, cc)
            if cc != cat:
                continue
            if c.get('label') is None:
                return True
            if c['label'].lower() == s['label'].lower() and fields_ok(c):
                return True
        elif c.get('label') is not None:
            if c['label'] == s['label'] and fields_ok(c):
                return True
    return False


def shown(s, calls):
    return s['triggered'] and not s['muted'] and not is_suppressed(s, calls) and s['kind'] != 'Compliment'


def score_value(txt):
    """additive score forms of the property: [+-]?d+(.d+)?%? ; returns Fraction or None."""
    import re
    m = re.fullmatch(r'([+-])?(\d+(?:\.\d+)?(?:[eE][+-]?\d+)?|\.\d+)(%)?', txt)
    if not m:
        return None
    v = Fraction(m.group(2))
    if m.group(3):
        v /= 100
    return -v if m.group(1) == '-' else v


def apply_pools(cases, res):
    """the attributes were snapshotted after construction; what takes part in the resolution is what the per-pool override made of them"""
    for case, out in zip(cases, res['cases']):
        if case.get('pool'):
            for x in out['active'] + out['ignored']:
                x.update(case['pool']['fields'])


def flags_honoured(case, snaps, flags):
    for x in snaps:
        if 'spec' in x and 'class_muted' in x:
            kwargs = case['feedbacks'][x['spec']]['kwargs']
            for flag in flags:
                if kwargs.get(flag) is None:
                    continue
                got = x[flag]
                want = kwargs[flag] if flag == 'valence' else bool(kwargs[flag])
                if got != want:
                    return ('flag-not-honoured:' + flag, 'feedback %d was created with %s=%r but takes part as %s=%r'
                            % (x['id'], flag, kwargs[flag], flag, got))
    return None


def oracle(pid, case, out, _group=False):
    """Returns (key, message) when the real implementation's answer violates property `pid`."""
    if pid == 'C01' and not _group and isinstance(out.get('sectional'), list) and 'raise' not in out.get('simple', {}):
        # the sectional resolver makes the same choice among the feedback of each parent (triggered feedback only)
        for g, fin in out['sectional']:
            sub = dict(out, active=[x for x in out['active'] if x.get('parent') == g], ignored=[], simple=fin)
            v = oracle('C01', case, sub, _group=True)
            if v:
                return ('sectional:' + v[0], 'sectional resolver, group %r: %s' % (g, v[1]))
        groups = {x.get('parent') for x in out['active']}
        if groups != {g for g, _ in out['sectional']}:
            return ('sectional:groups', 'sectional resolver produced results for %s, the triggered feedback has parents %s' % (sorted(map(str, {g for g, _ in out['sectional']})), sorted(map(str, groups))))
    elif pid == 'C01' and not _group and isinstance(out.get('sectional'), dict) and 'raise' in out['sectional'] and 'raise' not in out.get('simple', {}):
        return ('sectional:raises', 'sectional.resolve raised %s: %s' % (out['sectional']['raise'], out['sectional'].get('msg')))
    snaps = out['active'] + out['ignored']
    calls = case['suppress']
    s = out['simple']
    scores_in_quantifier = all(x['score'] is None or score_value(x['score']) is not None for x in snaps)
    if 'raise' in s:
        if not scores_in_quantifier:
            return None  # junk score strings are outside the quantifier of C01/C03
        if pid == 'C01':
            why = 'category-none' if any(x['category'] is None for x in snaps) else (
                'label-fields-suppression' if any(c.get('category') is None and c.get('fields') for c in calls) else 'other')
            return ('resolve-raises:' + why, 'resolve raised %s: %s' % (s['raise'], s.get('msg')))
        return None
    elig = [x for x in snaps if shown(x, calls) and x['has_message']]
    vis = [x for x in snaps if shown(x, calls)]
    if pid == 'C01':
        # what the call asked for is what takes part in the resolution (an explicit False beats a class default)
        v = flags_honoured(case, snaps, ('muted', 'unscored'))
        if v:
            return v
        if s['used'] is None:
            if elig:
                return ('default-despite-eligible', 'default result although feedback %s is eligible' % [x['id'] for x in elig])
            if not s['hide'] and not s['is_default']:
                return ('not-default', 'no eligible feedback but the result is not the default one')
            if s['message'] is None or s['title'] is None:
                return ('default-text', 'default result lacks title/message')
        else:
            u = [x for x in snaps if x['id'] == s['used']][0]
            if not (shown(u, calls) and u['has_message']):
                return ('ineligible-shown', 'delivered feedback %d is not eligible (triggered=%s muted=%s suppressed=%s kind=%s)'
                        % (u['id'], u['triggered'], u['muted'], is_suppressed(u, calls), u['kind']))
            better = [x for x in elig if rank_tenths(x) < rank_tenths(u)]
            if better:
                return ('outranked', 'feedback %s ranks strictly higher than the delivered %d' % ([x['id'] for x in better], u['id']))
            # 'earlier' = earlier in the report's list; ids are creation order, which is the list order unless the harness reordered the list
            pos = {x['id']: (i if out.get('_list_order') else x['id']) for i, x in enumerate(snaps)}
            earlier = [x for x in elig if rank_tenths(x) == rank_tenths(u) and pos[x['id']] < pos[u['id']]]
            if earlier:
                return ('tie-break', 'feedback %s has the same rank and was created before the delivered %d' % ([x['id'] for x in earlier], u['id']))
            if not s['used_title_ok']:
                return ('wrong-text', 'title/message/label/category are not those of the delivered feedback')
    if pid == 'C02':
        # "shown" is what the call asked for: an explicit muted=False beats a class that is muted by default
        v = flags_honoured(case, snaps, ('muted',))
        if v:
            return v
        want = all(x['correct'] for x in vis)
        if bool(s['correct']) != want or bool(s['json_correct']) != want or bool(s['success']) != want:
            return ('correct-mismatch', 'correct=%s but shown feedback correct flags are %s' % (s['correct'], [(x['id'], x['correct']) for x in vis]))
    if pid == 'C03' and scores_in_quantifier:
        v = flags_honoured(case, snaps, ('valence', 'unscored'))
        if v:
            return v
        if s['is_default']:
            if Fraction(*s['score']) != 1:
                return ('default-score', 'default result with score %s' % s['score_raw'])
            return None
        total = Fraction(0)
        for x in snaps:
            if x['score'] is None or x['unscored'] or is_suppressed(x, calls):
                continue
            v = score_value(x['score'])
            if (x['triggered'] and not x['negative']) or (not x['triggered'] and x['negative']):
                total += v
        # skip sums that sit on a rounding boundary at two decimals (float rounding is outside the model)
        hundredths = total * 100
        frac = hundredths - (hundredths.numerator // hundredths.denominator)
        if abs(frac - Fraction(1, 2)) < Fraction(1, 10 ** 6):
            return None
        want = Fraction(round(total * 100), 100)
        if Fraction(*s['score']) != want:
            return ('score-mismatch', 'score=%s but the valence/trigger arithmetic gives %s' % (s['score_raw'], float(want)))
    return None


# ------------------------------------------------------------------ the run
def on_boundary(out):
    """True when the exact rational sum is within 1e-9 of a .xx5 boundary (float rounding could differ)."""
    return False


def correspondence(ctx):
    rng = ctx.rng
    n = 1500 if ctx.tier == "quick" else 12000
    cases = list(CORPUS)
    for i in range(n):
        cases.append(gen_case(rng, junk=(i % 10 == 0)))
    # by_priority exhaustively on its behaviour classes
    cats = [None] + CATS + ['Syntax', 'RUNTIME', 'highest', 'lowest']
    pris = [None, 'low', 'medium', 'high', 'LOW', 'High', 'junk', 'parser', 'verifier', 'analyzer', 'instructor', 'Parser'] + \
        DOC_ORDER + ['Syntax', 'STUDENT']
    keys = [[c, p] for c in cats for p in pris]
    score_cases = []
    for op in ['', '+', '-', '*', '/']:
        for bang in ['', '!', '!!', '!!!']:
            for val in ['5', '0.25', '50%', '0', '.5', '1.', '12.5%', '1.2.3', '.', '', 'x']:
                score_cases.append([bang + op + val, [rng.randrange(-300, 300), 100]])
    res = vlib.run_impl('c01_impl.py', {'cases': cases, 'keys': keys, 'scores': score_cases})
    apply_pools(cases, res)

    # (1) float keys order like tenths, (2) key model vs by_priority
    items = []
    for (c, p), k in zip(keys, res['keys']):
        t = round(k * 10)
        if abs(k * 10 - t) > 1e-6:
            ctx.obligation('spec:float-keys-are-tenths', False, 'key %r' % k)
        items.append('(%s, %s, %s)' % (copt(cstr(c) if c is not None else None), copt(cstr(p) if p is not None else None), cz(t)))
    bad = ctx.coq_cases('keys', HEADER, items, 'check_key')
    ctx.obligation('correspondence:by_priority(exhaustive over category x priority classes)', not bad, str(bad)[:500])
    allk = sorted(set(res['keys']))
    ctx.obligation('spec:float-keys-order-like-tenths',
                   all((a < b) == (round(a * 10) < round(b * 10)) for a in allk for b in allk))
    # (3) Score.parse/add_to_current
    items = []
    for (s, cur), r in zip(score_cases, res['scores']):
        e = 'None' if isinstance(r, dict) else '(Some (%s, %s))' % (cz(r[0]), cz(r[1]))
        items.append('(%s, %s, %s, %s)' % (cstr(s), cz(cur[0]), cz(cur[1]), e))
    bad = ctx.coq_cases('scores', HEADER, items, 'check_score')
    ctx.obligation('correspondence:Score.parse+add_to_current', not bad, str([score_cases[i] for _, i, _ in bad][:10]))

    # (4) whole resolve: model vs implementation; (5) oracle
    items = []
    idx = []
    for ci, (case, out) in enumerate(zip(cases, res['cases'])):
        snaps = out['active'] + out['ignored']
        nontriv = len([x for x in snaps if x['triggered']]) >= 1 and len(snaps) >= 2
        ctx.case(json.dumps(case, sort_keys=True), nontrivial=nontriv,
                 sample={'case': case, 'simple': out['simple']} if nontriv and ci > len(CORPUS) else None)
        ctx.count('n_feedback=%d' % min(len(snaps), 6))
        ctx.count('n_suppress=%d' % len(case['suppress']))
        ctx.count('outcome=' + ('raise:' + out['simple']['raise'] if 'raise' in out['simple'] else
                                ('default' if out['simple']['is_default'] else ('used' if out['simple']['used'] is not None else 'none-hidden'))))
        v = oracle(ctx.pid, case, out)
        if v:
            ctx.violation(v[0], {'case': case, 'observed': out['simple'], 'snapshots': snaps, 'why': v[1]})
        # the same report resolved once more: the same feedback chosen, the same verdict, the same score
        again = out.get('simple_again')
        if again is not None and 'raise' not in out['simple']:
            fields = {'C01': ('used', 'title', 'message', 'label', 'category', 'is_default'), 'C02': ('correct', 'success', 'json_correct'),
                      'C03': ('score', 'scores', 'resolved_scores')}[ctx.pid]
            diff = ['raise'] if 'raise' in again else [k for k in fields if again.get(k) != out['simple'].get(k)]
            if diff:
                ctx.violation('second-resolve-differs', {'case': case, 'first': {k: out['simple'].get(k) for k in fields}, 'second': again if 'raise' in again else {k: again.get(k) for k in fields},
                                                         'feedback_lists_after': out.get('n_feedback_after'),
                                                         'why': 'resolving the same report a second time gives a different %s: %s then %s'
                                                                % (', '.join(diff), [out['simple'].get(k) for k in diff], [again.get(k) for k in diff])})
        rev = out.get('simple_reversed')
        if rev is not None and 'raise' not in out['simple']:
            if 'raise' in rev:
                ctx.violation('reversed-recording-order:raises', {'case': case, 'observed': rev, 'first_resolve': out['simple'], 'snapshots': snaps,
                                                                    'why': 'the same feedback in the opposite order in report.feedback: resolve raised %s' % rev})
            else:
                outr = dict(out, simple=rev, sectional=None, active=list(reversed(out['active'])), _list_order=True)
                v = oracle(ctx.pid, case, outr)
                if v:
                    ctx.violation('reversed-recording-order:' + v[0],
                                  {'case': case, 'observed': rev, 'first_resolve': out['simple'], 'snapshots': outr['active'] + outr['ignored'],
                                   'why': 'the same feedback in the opposite order in report.feedback (reversed in place, resolved again): %s' % v[1]})
                # C03_score_is_independent_of_recording_order on the real resolver (additive forms, away from a rounding boundary)
                if ctx.pid == 'C03' and not rev['is_default'] and not out['simple']['is_default'] and rounding_safe(out) \
                        and all(score_value(x['score']) is not None for x in snaps if x.get('score') is not None) \
                        and rev['score'] != out['simple']['score']:
                    ctx.violation('reversed-recording-order:score-differs',
                                  {'case': case, 'observed': rev['score'], 'first_resolve': out['simple']['score'], 'snapshots': snaps,
                                   'why': 'the same feedback in the opposite order gets score %s instead of %s' % (rev['score'], out['simple']['score'])})
            ctx.count('resolved-in-reversed-recording-order')
        late = out.get('simple_late')
        if late is not None and 'raise' not in out['simple']:
            case2 = dict(case, suppress=case['suppress'] + [case['late_suppress']])
            out2 = dict(out, simple=late, sectional=None)
            v = oracle(ctx.pid, case2, out2)
            if v:
                ctx.violation('after-late-suppression:' + v[0],
                              {'case': case2, 'observed': late, 'first_resolve': out['simple'], 'snapshots': snaps,
                               'why': 'the report was resolved, then suppress(%s) was called, then it was resolved again: %s'
                                      % (case['late_suppress'], v[1])})
            ctx.count('resolved-again-after-a-late-suppression')
        # skip float-rounding-sensitive totals in the model comparison
        if 'raise' not in out['simple']:
            tot = sum((Fraction(0),) )
        try:
            term = '(%s, %s, %s, %s)' % (clist([coq_fb(s) for s in out['active']]), clist([coq_fb(s) for s in out['ignored']]),
                                         clist([coq_call(c) for c in case['suppress']]), coq_expected(out))
        except ValueError:
            continue
        if 'raise' not in out['simple'] and not rounding_safe(out):
            ctx.count('skipped:rounding-boundary')
            continue
        items.append(term)
        idx.append(ci)
    # the sectional resolver: per group of the triggered feedback (C01 only)
    if ctx.pid == 'C01':
        sitems, sidx = [], []
        for ci, (case, out) in enumerate(zip(cases, res['cases'])):
            sec = out.get('sectional')
            if not isinstance(sec, list) or 'raise' in out['simple']:
                continue
            gid = {}
            for x in out['active']:
                gid.setdefault(repr(x.get('parent')), len(gid))
            try:
                tagged = clist(['(%s, %s)' % (cnat(gid[repr(x.get('parent'))]), coq_fb(x)) for x in out['active']])
                obs = []
                ok = True
                for g, fin in sec:
                    if repr(g) not in gid or 'raise' in fin:
                        ok = False
                        break
                    if not rounding_safe({'simple': fin}):
                        ok = False
                        break
                    obs.append('(%s, %s)' % (cnat(gid[repr(g)]), coq_expected({'simple': fin, 'full': {}})))
            except ValueError:
                continue
            if not ok:
                ctx.count('sectional:skipped')
                continue
            sitems.append('(%s, %s, %s)' % (tagged, clist([coq_call(c) for c in case['suppress']]), clist(obs)))
            sidx.append(ci)
            ctx.count('sectional-groups=%d' % min(len(sec), 4))
        sbad = ctx.coq_cases('sectional', HEADER, sitems, 'check_sectional', chunk=150)
        for kind, i, detail in sbad[:5]:
            ci = sidx[i] if kind == 'mismatch' else None
            ctx.broken.append(('correspondence', 'resolver:sectional-model-vs-implementation',
                               json.dumps({'case': cases[ci] if ci is not None else None,
                                           'impl': res['cases'][ci].get('sectional') if ci is not None else None, 'detail': detail})[:4000]))
        ctx.obligation('correspondence:sectional(model agrees with sectional.resolve group by group, %d reports)' % len(sitems), not sbad,
                       '%d disagreeing cases' % len(sbad))
    bad = ctx.coq_cases('resolve', HEADER, items, 'check_resolve', chunk=150)
    for kind, i, detail in bad[:5]:
        ci = idx[i] if kind == 'mismatch' else None
        ctx.broken.append(('correspondence', 'resolver:model-vs-implementation',
                           json.dumps({'case': cases[ci] if ci is not None else None,
                                       'impl': res['cases'][ci] if ci is not None else None, 'detail': detail})[:4000]))
    ctx.obligation('correspondence:resolve(model agrees with simple.resolve and full.resolve)', not bad,
                   '%d disagreeing cases' % len(bad))
    ctx.rule = ('real Feedback/compliment/set_correct/give_partial/gently/explain/guidance/negative-valence subclasses with random '
                'category (documented + aliases + mixed case + unknown + None), priority, kind, muted/unscored/activate/else_message, '
                'score forms, correct, valence, fields, plus 0-3 suppress() calls of all four forms; attributes are snapshotted after '
                'construction and given to the model. non-trivial = at least two feedback objects and one triggered.')


def rounding_safe(out):
    """The exact rational total (from the implementation's own _scores strings, all four operators) is not
    within 1e-6 of a two-decimal rounding boundary; only then may an exact-rational model be compared with
    float code.  Strings the exact evaluator does not understand make the case unsafe (skipped, counted)."""
    import re
    total = Fraction(0)
    for s in out['simple']['scores']:
        m = re.fullmatch(r'(!*)([+\-/*])?(\d+(?:\.\d*)?|\.\d+)(%)?(.*)', s)
        if not m:
            return False
        if len(m.group(1)) % 2:
            continue
        v = Fraction(m.group(3))
        if m.group(4):
            v /= 100
        op = m.group(2)
        if op in (None, '+'):
            total += v
        elif op == '-':
            total -= v
        elif op == '*':
            total *= v
        elif v == 0:
            return True
        else:
            total /= v
    x = total * 100
    frac = x - (x.numerator // x.denominator)
    return abs(frac - Fraction(1, 2)) > Fraction(1, 10 ** 6)


def search(ctx, n=6000):
    """A tie is broken and no concrete violation is known yet: look for one with the oracle on the real code."""
    rng = ctx.rng
    for rnd in range(4):
        cases = [gen_case(rng) for _ in range(n // 4)]
        res = vlib.run_impl('c01_impl.py', {'cases': cases, 'keys': [], 'scores': []})
        apply_pools(cases, res)
        for case, out in zip(cases, res['cases']):
            v = oracle(ctx.pid, case, out)
            if v:
                ctx.violation(v[0], {'case': case, 'observed': out['simple'], 'snapshots': out['active'] + out['ignored'],
                                     'why': v[1], 'found_by': 'search after a broken tie'})
        if ctx.violations:
            return


def run(ctx):
    from props import c01
    c01.translate(ctx)
    ctx.coq_props()
    correspondence(ctx)
    if ctx.broken and not ctx.violations:
        search(ctx)
