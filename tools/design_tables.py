#!/usr/bin/env python3
"""Regenerates the machine-derived tables of DESIGN.md section 8 (between the GENERATED markers) from
MANIFEST.json, coq/props/*.v, known_findings.json and seeded/*/meta.json, so that they cannot drift."""
import glob
import json
import os
import re

HERE = os.path.dirname(os.path.dirname(os.path.abspath(__file__)))


def main():
    man = json.load(open(os.path.join(HERE, 'MANIFEST.json')))
    kf = json.load(open(os.path.join(HERE, 'known_findings.json')))
    out = []
    out.append('#### 8.1 What is claimed per property (from MANIFEST.json and coq/props)\n')
    for c in man['checks']:
        pid = c['property_id']
        text = open(os.path.join(HERE, 'coq', 'props', pid + '.v')).read()
        thms = re.findall(r'^Theorem\s+([A-Za-z0-9_\']+)', text, re.M)
        out.append('**%s** — technique: %s.\n' % (pid, c['technique']))
        out.append('* Theorems (`coq/props/%s.v`, each closed under the global context): %s.' % (pid, ', '.join('`%s`' % t for t in thms)))
        out.append('* Claim: %s' % c['level_claimed']['text'])
        out.append('* Trusted / not modelled: %s\n' % c['level_note'])
    out.append('#### 8.2 Defects of pedal found by the checks\n')
    out.append('Repaired (one `fix:` commit each in `/repo`, suite re-run with `tools/baseline_check.py`: 493 of 493 stable tests pass); '
               'the check that found it now passes with no KNOWN-FINDING line and reports it again if it returns:\n')
    for f in kf['fixed']:
        m = re.match(r'fixed: property=(\S+) (\S+) (.*)', f)
        out.append('* %s — commit `%s` — %s' % (m.group(1), m.group(2), m.group(3)))
    out.append('\nRecorded, not repaired (`known_findings.json`; the check prints `KNOWN-FINDING:` and exits 0 for exactly these keys):\n')
    for f in kf['findings']:
        out.append('* %s `%s` — %s' % (f['property'], f['key'], f['what']))
    out.append('\n#### 8.4 Seeded changes (each written by a fresh sub-agent from the property text alone; confirmed: demo passes on the '
               'pristine tree, fails on the changed one, the 493 stable tests still pass) and the checks that catch them\n')
    out.append('| seed | change | caught by (quick tier, seed 1) |')
    out.append('|------|--------|--------------------------------|')
    for p in sorted(glob.glob(os.path.join(HERE, 'seeded', '*', 'meta.json'))):
        m = json.load(open(p))
        d = m['what_i_ran'].get('detected_by', {})
        cells = []
        for k, v in sorted(d.items()):
            if v['exit'] == 1:
                cells.append('%s (%s)' % (k, 'concrete failing input' if v['with_failing_input'] else 'broken proof/correspondence, no-failing-input-found'))
            else:
                cells.append('%s: not caught' % k)
        summ = m['summary'].replace('|', '/').replace('\n', ' ')
        out.append('| %s | %s | %s |' % (m['id'], summ[:260] + ('…' if len(summ) > 260 else ''), '; '.join(cells)))
    text = '\n'.join(out) + '\n'
    p = os.path.join(HERE, 'DESIGN.md')
    s = open(p).read()
    a, b = '<!-- BEGIN GENERATED (tools/design_tables.py) -->\n', '<!-- END GENERATED -->\n'
    if a in s and b in s:
        s = s[:s.index(a) + len(a)] + text + s[s.index(b):]
        open(p, 'w').write(s)
        print('DESIGN.md tables regenerated')
    else:
        print('markers not found')


if __name__ == '__main__':
    main()
