"""C02 - shares the resolver model, translators and correspondence harness with C01."""
from props.c01 import translate  # noqa: F401


def run(ctx):
    import resolver_common
    resolver_common.run(ctx)
