"""C01 - resolver shows the highest-priority eligible feedback (shared machinery for C01/C02/C03)."""
import ast

import vlib
from vlib import Refusal
from translate import pymini, tables


def category_constants():
    tree, _ = pymini.load_module('pedal/core/feedback_category.py')
    cls = [n for n in tree.body if isinstance(n, ast.ClassDef) and n.name == 'FeedbackCategory']
    if len(cls) != 1:
        raise Refusal('FeedbackCategory class')
    consts = {}
    aliases = None
    for n in cls[0].body:
        if isinstance(n, ast.Assign) and len(n.targets) == 1 and isinstance(n.targets[0], ast.Name):
            name = n.targets[0].id
            if isinstance(n.value, ast.Constant) and isinstance(n.value.value, str):
                consts[name] = n.value.value
            elif name == 'ALIASES' and isinstance(n.value, ast.Dict):
                aliases = []
                for k, v in zip(n.value.keys, n.value.values):
                    if not (isinstance(k, ast.Constant) and isinstance(k.value, str)):
                        raise Refusal('ALIASES key')
                    if isinstance(v, ast.Name) and v.id in consts:
                        aliases.append((k.value, consts[v.id]))
                    elif isinstance(v, ast.Constant) and isinstance(v.value, str):
                        aliases.append((k.value, v.value))
                    else:
                        raise Refusal('ALIASES value %s' % ast.unparse(v))
            else:
                raise Refusal('FeedbackCategory member %s' % name)
    if aliases is None:
        raise Refusal('no ALIASES')
    return consts, aliases


def priority_list(consts):
    tree, _ = pymini.load_module('pedal/core/feedback.py')
    v = tables.find_assign(tree, 'DEFAULT_CATEGORY_PRIORITY')
    if not isinstance(v, ast.List):
        raise Refusal('DEFAULT_CATEGORY_PRIORITY is not a list display')
    out = []
    for e in v.elts:
        if isinstance(e, ast.Constant) and isinstance(e.value, str):
            out.append(e.value)
        elif isinstance(e, ast.Attribute) and ast.unparse(e.value) in ('Feedback.CATEGORIES', 'FeedbackCategory') \
                and e.attr in consts:
            out.append(consts[e.attr])
        else:
            raise Refusal('priority list entry %s' % ast.unparse(e))
    return out


def gen_text():
    consts, aliases = category_constants()
    t = pymini.HEADER
    t += tables.coq_strlist('gen_category_priority', priority_list(consts)) + '\n'
    t += tables.coq_assoc('gen_aliases', aliases) + '\n'
    t += 'Definition gen_UNKNOWN : string := %s.\n' % pymini.coq_string(consts['UNKNOWN'])
    t += 'Definition gen_COMPLETE : string := %s.\n' % pymini.coq_string(consts['COMPLETE'])
    # offsets .7/.5/.3/.1 in tenths
    t += pymini.function('pedal/resolvers/simple.py', 'priority_offset', 'gen_priority_offset', float_scale=10) + '\n'
    return t


def translate(ctx):
    ctx.gen('C01_Gen', gen_text)


def run(ctx):
    import resolver_common
    resolver_common.run(ctx)
