"""C06 - sandboxed execution is observationally equivalent to plain CPython execution."""
import ast
import json

import vlib
from vlib import Refusal, cstr, clist
from translate import pymini

SANDBOX = 'pedal/sandbox/sandbox.py'


def overrides():
    """the calls of reset_default_overrides, in order: (kind, name)"""
    tree, _ = pymini.load_module(SANDBOX)
    fn = pymini.find_def(tree, 'Sandbox.reset_default_overrides')
    out = []
    for s in fn.body:
        if isinstance(s, ast.Expr) and isinstance(s.value, ast.Constant):
            continue
        if isinstance(s, ast.Assign) and ast.unparse(s.targets[0]) == "self._module_overrides['__builtins__']" and ast.unparse(s.value) == '{}':
            continue
        if isinstance(s, ast.Expr) and isinstance(s.value, ast.Call) and isinstance(s.value.func, ast.Attribute) \
                and isinstance(s.value.func.value, ast.Name) and s.value.func.value.id == 'self' \
                and s.value.func.attr in ('block_function', 'mock_function', 'allow_function', 'block_module', 'mock_module', 'allow_module') \
                and s.value.args and isinstance(s.value.args[0], ast.Constant) and isinstance(s.value.args[0].value, str):
            out.append((s.value.func.attr, s.value.args[0].value))
            continue
        raise Refusal('reset_default_overrides: statement %s' % ast.unparse(s)[:60])
    return out


def start_mocking_input():
    """_start_mocking must (re)install the input tracker before every execution"""
    tree, _ = pymini.load_module(SANDBOX)
    fn = pymini.find_def(tree, 'Sandbox._start_mocking')
    first = [s for s in fn.body if not (isinstance(s, ast.Expr) and isinstance(s.value, ast.Constant))][0]
    if ast.unparse(first) != "self.mock_function('input', self._track_inputs(context.inputs))":
        raise Refusal('_start_mocking does not start by mocking input: %s' % ast.unparse(first)[:80])
    return True


def gen_text():
    ov = overrides()
    start_mocking_input()
    t = ('(* GENERATED from pedal/sandbox/sandbox.py::reset_default_overrides *)\nFrom Coq Require Import List String.\n'
         'Import ListNotations.\nOpen Scope string_scope.\n\n')
    t += 'Definition gen_overrides : list (string * string) := [\n  %s\n].\n' % ';\n  '.join('(%s, %s)' % (cstr(k), cstr(n)) for k, n in ov)
    return t


def translate(ctx):
    ctx.gen('C06_Gen', gen_text)


def run(ctx):
    translate(ctx)
    ctx.coq_props()


# ---------------------------------------------------------------- correspondence + differential
HEADER = ('From Coq Require Import List String Bool Arith.\nImport ListNotations.\n'
          'From Pedal Require Import model.C06_Namespace gen.C06_Gen model.C06_Run.\nOpen Scope string_scope.\n')
VALUES = ['0', '-7', 'True', 'None', '3.5', '-0.0', 'inf', 'nan', '-inf', '1e300', "'abc'", "'it\\'s'", "'\\n\\t\\x00'", "'é'", '[]', '[1, 2]',
          '[1, inf]', '(1,)', '()', '(1, (2, 3))', '{}', "{'a': [1, 2]}", '{1, 2}', 'set()', 'frozenset([1])', '[None, True, 2.5]',
          "'x' * 150", "'x' * 199", "'x' * 198", "'x' * 197", "'x' * 500", 'list(range(100))', 'list(range(60))', '[0.1] * 60', 'Obj()',
          '[Obj()]', 'SandboxVariable("x", 1)', '1 + 2j', "b'bytes'", '{"k": nan}', '[[]] * 3', 'range(3)', '10 ** 210', '(inf,)']
NAMES = ['compile', 'eval', 'exec', 'globals', 'exit', 'open', '__import__', 'input', 'print', 'len', 'int', 'str', 'sum', 'max', 'min',
         'sorted', 'range', 'abs', 'quit', 'isinstance', 'type', 'locals', 'vars', 'dir', 'getattr', 'setattr', 'id', 'hash', 'map', 'zip']


def norm_out(text, sandbox):
    return text.replace('Q>\n', '').replace('Q>', '') if sandbox else text.replace('Q>', '')


def compare_program(p, r):
    sb, pl = r['sandbox'], r['plain']
    if 'escaped' in sb:
        return ('escaped', 'the sandbox raised into the caller: %s' % sb['escaped'])
    if 'plain_failed' in pl:
        return None
    if norm_out(sb['stdout'], True) != norm_out(pl['stdout'], False):
        return ('stdout', 'printed text differs: sandbox %r vs plain interpreter %r' % (norm_out(sb['stdout'], True)[-120:], norm_out(pl['stdout'], False)[-120:]))
    if sb.get('lines') != sb.get('lines_expected'):
        diff = [(a, b) for a, b in zip(sb.get('lines', []), sb.get('lines_expected', [])) if a != b][:3]
        return ('lines', 'the list of printed lines differs from the printed text split into lines: %s' % (diff or (sb.get('lines'), sb.get('lines_expected'))))
    so, po = sb['outcome'], pl['outcome']
    if so['kind'] != po['kind'] or so.get('cls') != po.get('cls'):
        return ('outcome', 'outcome differs: sandbox %s vs plain %s' % (so, po))
    if so['kind'] == 'exception' and po.get('line') is not None and so.get('line') != po.get('line'):
        return ('line', '%s raised on line %s in the plain interpreter, the sandbox reports line %s' % (po['cls'], po['line'], so.get('line')))
    for which in ('globals', 'globals_after'):
        ga = {k: v for k, v in sb[which].items() if not k.startswith('_')}
        gb = {k: v for k, v in pl[which].items() if not k.startswith('_')}
        if ga != gb:
            diff = sorted(set(ga.items()) ^ set(gb.items()))[:4]
            return ('globals', 'student globals differ (%s): %s' % ('after the calls' if which == 'globals_after' else 'after the run', diff))
    for call, a, b in zip(p.get('calls', []), sb['calls'], pl['calls']):
        if a != b:
            return ('call', '%s(%s)%s: sandbox %s vs direct call %s' % (call[0], ', '.join(call[1]),
                                                                      ' with inputs=%r' % (call[2],) if len(call) > 2 and call[2] is not None else '', a, b))
    return None


def correspondence(ctx):
    import cs1gen
    rng = ctx.rng
    res = vlib.run_impl('c06_impl.py', {'values': VALUES, 'names': NAMES}, timeout=600)
    items = []
    for src, r in zip(VALUES, res['marshal']):
        ctx.case(('value', src), nontrivial=r['how'] != 'BySource', sample={'value': src, 'observed': r} if src in ('inf', "'x' * 199") else None)
        items.append('(%s, %d%%nat, %s, %s)' % (vlib.cbool(r['is_var']), min(r['len'], 4000), vlib.cbool(r['literal']), r['how']))
        if r['literal'] and r['roundtrip'] is False:
            ctx.obligation('cpython-fact:eval(repr(v))==v for literal reprs', False, src)
        if r['how'] == 'BySource' and not r['literal']:
            ctx.violation('marshal:%s' % src, {'value': src, 'observed': r,
                                               'why': 'call() passes %s as the source text %s which is not a literal' % (src, src)})
    bad = ctx.coq_cases('marshal', HEADER, items, 'check_marshal')
    ctx.obligation('correspondence:_make_temporary(model decision = implementation, on %d values)' % len(VALUES), not bad,
                   str([VALUES[i] for k, i, d in bad if k == 'mismatch']))
    for b in bad[:3]:
        ctx.broken.append(('correspondence', 'C06:marshal', VALUES[b[1]] if b[0] == 'mismatch' else b[2]))
    items = ['(%s, %s)' % (cstr(n), vlib.cbool(ch)) for n, ch in sorted(res['namespace'].items())]
    bad = ctx.coq_cases('ns', HEADER, items, 'check_ns')
    ctx.obligation('correspondence:namespace(model binding = what student code sees for %d builtin names)' % len(NAMES), not bad,
                   str([items[i] for k, i, d in bad if k == 'mismatch']))
    # differential execution
    progs = []
    fixed = [
        {'src': 'def deep(n):\n    if n == 0:\n        return 1 // 0\n    return deep(n - 1)\nprint("go")\ndeep(12)\n', 'inputs': [], 'calls': []},
        {'src': 'print("a", end=" ")\ndef shout(t):\n    print(t.upper())\n    return len(t)\n', 'inputs': [], 'calls': [['shout', ["'hi'"]]]},
        {'src': 'name = input("Q>")\nprint("[" + name + "]")\nother = input("Q>")\nprint(len(other))\n', 'inputs': ['  padded  ', '\tx '], 'calls': []},
        {'src': 'def same(v):\n    return v\ndef kind(v):\n    return type(v).__name__\n', 'inputs': [],
         'calls': [['same', [v]] for v in ('3', "'a b'", '[1, [2]]', '(1,)', '{"a": 1}', 'None', '2.5', 'True')] +
                  [['kind', [v]] for v in ('3', '2.5', "'s'", '[1]', '(1, 2)', '{1: 2}', 'None', 'True')]},
        {'src': 'class Dog:\n    def __init__(self, n):\n        self.n = n\n    def speak(self):\n        return "woof " + self.n\nd = Dog("rex")\nprint(d.speak())\nvalue = d.n\n', 'inputs': [], 'calls': []},
        {'src': 'if __name__ == "__main__":\n    print("main")\nelse:\n    print("imported")\n', 'inputs': [], 'calls': []},
        {'src': 'import math\nprint(math.sqrt(16), math.pi > 3)\nimport random\nrandom.seed(4)\nprint(random.randint(1, 100))\n', 'inputs': [], 'calls': []},
        {'src': 'total = 0\nfor i in range(5):\n    total += i\nelse:\n    print("done", total)\nwhile total > 0:\n    total -= 4\nprint(total)\n', 'inputs': [], 'calls': []},
        {'src': 'print("no newline", end="")\n', 'inputs': [], 'calls': []},
        {'src': 'x = [i * i for i in range(4)]\ny = {k: v for k, v in zip("ab", x)}\nt = tuple(x)\nprint(x, y, t, sep="|")\n', 'inputs': [], 'calls': []},
    ]
    fixed += [
        # annotations are evaluated (undefined names raise, __annotations__ holds objects)
        {'src': 'print("start")\ndef double(n: int) -> Integer:\n    return 2 * n\nprint("after")\n', 'inputs': [], 'calls': []},
        {'src': 'def f(a: int, b: "text" = 2) -> float:\n    return a / b\nprint(f.__annotations__)\ncount: int = 3\nprint(__annotations__)\n',
         'inputs': [], 'calls': [['f', ['6']]]},
        {'src': 'total: Number = 0\nprint("unreachable")\n', 'inputs': [], 'calls': []},
        # input left unread by the run; call(..., inputs=...) replaces the queue; the rest stays for the next call
        {'src': 'first = input("Q>")\ndef ask():\n    return input("Q>") + "|" + input("Q>")\ndef one():\n    return input("Q>")\n',
         'inputs': ['a', 'b', 'c'], 'calls': [['ask', [], ['x', 'y', 'z']], ['one', []], ['one', []], ['ask', [], []], ['one', [], ['q']]]},
        {'src': 'def ask():\n    return input("Q>")\nprint(ask())\n', 'inputs': ['1', '2', '3'], 'calls': [['ask', []], ['ask', [], ['9']], ['ask', []]]},
        # the builtin input kept under another name (default arguments) during the run, used by later calls with new queues
        {'src': 'name = input("Q>")\nprint(name)\ndef pair(ask=input):\n    return ask("Q>") + "," + ask("Q>")\n'
                'def num(reader=input):\n    return reader("Q>")\ndef plain():\n    return input("Q>")\n',
         'inputs': ['Ada'], 'calls': [['pair', [], ['red', 'blue']], ['plain', [], ['green']], ['num', [], ['7']], ['pair', [], ['x', 'y']]]},
        # a function of the learner's own that has the name of a builtin the sandbox replaces: later calls still see the learner's
        {'src': 'def open(door):\n    return door + " opened"\ndef f(x):\n    return open(x)\nprint(f("back"))\n', 'inputs': [], 'calls': [['f', ["'front'"]], ['f', ["'side'"]]]},
        {'src': 'def exit(code):\n    return "bye " + str(code)\ndef g(n):\n    return exit(n)\nprint(g(1))\n', 'inputs': [], 'calls': [['g', ['2']]]},
        # carriage returns are characters like any other
        {'src': 'print("progress 1", end="\\r")\nprint("progress 2", end="\\r\\n")\ns = "a\\rb"\nprint(s, len(s))\n', 'inputs': [], 'calls': []},
        {'src': 'def bar(n):\n    print("#" * n, end="\\r")\n    return "x\\r\\ny"\n', 'inputs': [], 'calls': [['bar', ['3']], ['bar', ['1']]]},
        # a returned object with a field called `value`, looked at through what call() hands back
        {'src': 'class Coin:\n    def __init__(self, value, unit):\n        self.value = value\n        self.unit = unit\n    def __repr__(self):\n'
                '        return "Coin(%r, %r)" % (self.value, self.unit)\n    def __str__(self):\n        return "%s %s" % (self.value, self.unit)\n'
                'def make(n):\n    return Coin(n, "cent")\ndef purse():\n    return [Coin(1, "cent"), Coin(5, "cent")]\n',
         'inputs': [], 'calls': [['make', ['25']], ['purse', []]]},
        # failures raised inside library code: the line is the student's line that called it
        {'src': 'import random\nitems = []\nprint("start")\nchosen = random.choice(items)\nprint("unreachable")\n', 'inputs': [], 'calls': []},
        {'src': 'import statistics\nimport json\ndef average(xs):\n    total = 0\n    return statistics.mean(xs)\ndef parse(t):\n    return json.loads(t)\n'
                'print(average([1, 2, 3]))\n', 'inputs': [], 'calls': [['average', ['[]']], ['parse', ["'{oops'"]], ['average', ['[4, 6]']]]},
        # the result of one call handed on to the next (a long list, an object whose own repr fails)
        {'src': 'def big():\n    return list(range(200))\ndef second(xs):\n    return [10, 20, 30][xs[1]]\ndef ident(x):\n    return x\n'
                'class Shy:\n    def __repr__(self):\n        raise RuntimeError("no repr")\n    def size(self):\n        return 3\n'
                'def shy():\n    return Shy()\ndef measure(s):\n    return s.size()\n', 'inputs': [],
         'calls': [['second', ['@big()']], ['measure', ['@shy()']], ['second', ['@big()']]]},
        # several arguments that cannot be pasted as source (each needs its own temporary)
        {'src': 'def merge(a, b):\n    return sorted(a | b)\ndef cat(a, b, c=None):\n    return a + b + (c or [])\n', 'inputs': [],
         'calls': [['merge', ['frozenset({1, 2})', 'frozenset({3})']], ['cat', ['list(range(100))', 'list(range(100, 200))']],
                   ['cat', ['list(range(100))', 'list(range(100, 200))', 'list(range(300, 400))']], ['merge', ['{1}', 'frozenset({9})']]]},
        # a dotted library module imported in one execution and again, in the other form, in a later one
        {'src': 'import html.parser\ndef tag():\n    from html.parser import HTMLParser\n    return HTMLParser.__name__\nprint(html.parser.__name__)\n',
         'inputs': [], 'calls': [['tag', []], ['tag', []]]},
        {'src': 'from xml.dom import minidom\ndef doc():\n    import xml.dom.minidom\n    return xml.dom.minidom.__name__\nprint(minidom.__name__)\n',
         'inputs': [], 'calls': [['doc', []]]},
        # leading blank space belongs to the line
        {'src': 'for i in range(3):\n    print(" " * (3 - i) + "*" * (2 * i + 1))\nprint("\\titem\\t3")\ndef receipt():\n    print("  total:  5")\n',
         'inputs': [], 'calls': [['receipt', []]]},
    ]
    helper = {'helper.py': 'x = 5\ndef double(n):\n    return 2 * n\nprint("helper loaded")\n'}
    multi = [
        {'src': 'import helper\nprint(helper.x)\nprint(helper.double(4))\n', 'inputs': [], 'calls': [], 'files': helper},
        {'src': 'from helper import double, x\ny = double(x)\nprint(y)\n', 'inputs': [], 'calls': [], 'files': helper},
        {'src': 'import helper\nimport helper\ndef f(a):\n    return helper.double(a) + helper.x\n', 'inputs': [], 'calls': [['f', ['3']]], 'files': helper},
        {'src': 'import helper as h\nvalue = h.double(h.x)\n1 / 0\n', 'inputs': [], 'calls': [], 'files': helper},
    ]
    # submodules of a package that is already imported; the same input queue built in several steps
    fixed += [
        {'src': 'import logging\nfrom logging import handlers\nprint(handlers.__name__)\n', 'inputs': [], 'calls': []},
        {'src': 'import email\ndef f():\n    from email import utils\n    return utils.__name__\nprint(f())\n', 'inputs': [], 'calls': [['f', []]]},
        {'src': 'import json\nfrom json import decoder, encoder\nprint(decoder.__name__, encoder.__name__)\nimport xml\nfrom xml import dom\nprint(dom.__name__)\n', 'inputs': [], 'calls': []},
        {'src': 'import collections\nfrom collections import abc\nprint(abc.__name__)\nimport importlib\nfrom importlib import util\nprint(util.__name__)\n', 'inputs': [], 'calls': []},
    ] + [{'src': 'a = input("Q>")\nb = int(input("Q>"))\nc = int(input("Q>"))\nprint(a, 10 // (b - c))\n', 'inputs': ins, 'calls': [], 'input_mode': mode}
         for mode in ('queue', 'set+queue', 'set-keep') for ins in (['Ada', '3', '4'], ['Ada', '4', '4'], ['x', '7'])]
    fixed += multi
    # every fixed program also with the time limit switched on (executed in a worker thread)
    fixed += [dict(p, threaded=True) for p in fixed]
    progs += fixed
    for _ in range(120 if ctx.tier == 'quick' else 1500):
        g = cs1gen.CS1(rng)
        src, inputs, funcs = g.program()
        calls = []
        for f, n in funcs[:2]:
            calls.append([f, [str(rng.choice([0, 1, 5, -2])) for _ in range(n)]] +
                         ([[str(rng.randrange(9)) for _ in range(rng.randrange(0, 3))]] if rng.random() < 0.3 else []))
        progs.append({'src': src, 'inputs': inputs + ['1', '2'], 'calls': calls, 'threaded': rng.random() < 0.25,
                      'input_mode': rng.choice(['set', 'set', 'queue', 'set+queue', 'set-keep'])})
    res = vlib.run_impl('c06_impl.py', {'programs': progs}, timeout=2400)
    for p, r in zip(progs, res):
        kind = r['plain'].get('outcome', {}).get('kind')
        ctx.case(p['src'], nontrivial=bool(r['plain'].get('stdout')) or kind == 'exception',
                 sample={'src': p['src'][:300], 'plain': {k: r['plain'].get(k) for k in ('stdout', 'outcome')}} if kind == 'exception' and len(p['src']) < 300 else None)
        ctx.count('outcome:' + str(kind) + (':' + str(r['plain'].get('outcome', {}).get('cls')) if kind == 'exception' else ''))
        ctx.count('uses-input' if 'input(' in p['src'] else 'no-input')
        v = compare_program(p, r)
        if v:
            ctx.violation('differs:' + v[0], {'program': p, 'sandbox': r['sandbox'], 'plain': r['plain'], 'why': v[1]})
    ctx.rule = ('(a) %d argument values (scalars, non-finite floats, strings around the 200-character limit, containers, objects, '
                'SandboxVariable) through the real _make_temporary; (b) %d builtin names probed inside an execution; (c) differential '
                'execution: generated deterministic CS1 programs (assignments, arithmetic, strings, lists/dicts, if/while/for, functions, '
                'comprehensions, try/except, print with sep/end, input(), math) plus a fixed set (deep frames, classes, __name__, padded '
                'inputs, output without newline, a student helper module imported by the main file), a quarter of them with the time limit on (worker thread), each run through pedal.sandbox.run and as __main__ in a fresh plain interpreter with the '
                'same stdin; compared: stdout modulo prompt echo, student globals, outcome (exception class and line), and call() vs a '
                'direct call. non-trivial = prints something or raises.' % (len(VALUES), len(NAMES)))
    ctx.notes.append('whole-program equivalence is differential testing, not a theorem')


LOC_HEADER = ('From Coq Require Import List Bool Arith.\nImport ListNotations.\n'
              'From Pedal Require Import model.C06_Location model.C06_Location_Run.\n')


def location_correspondence(ctx):
    """where a failure is located: ExpandedTraceback.line_number on real tracebacks of call chains through files of our choosing
    (learner files, libraries, the grader's own file) against the Coq model"""
    rng = ctx.rng
    pool = ['answer.py', 'helper.py', '/usr/lib/python3/random.py', '/opt/lib/statistics.py', 'grader.py']
    specs = []
    # the shape of the repaired defect first: a learner line calling into a library that raises
    specs.append({'chain': [['answer.py', 3], ['/usr/lib/python3/random.py', 347]], 'students': ['answer.py'], 'offsets': {}, 'syntax': None})
    specs.append({'chain': [['grader.py', 9], ['answer.py', 4], ['helper.py', 7], ['/opt/lib/statistics.py', 120], ['/opt/lib/statistics.py', 130]],
                  'students': ['answer.py', 'helper.py'], 'offsets': {'answer.py': 10}, 'syntax': None})
    for _ in range(300 if ctx.tier == 'quick' else 4000):
        chain = [[rng.choice(pool), rng.randrange(2, 60)] for _ in range(rng.randrange(1, 7))]
        students = rng.sample(pool[:3], rng.randrange(0, 3))
        offsets = {f: rng.randrange(1, 30) for f in rng.sample(pool, rng.randrange(0, 3))}
        syntax = [rng.choice(pool[:3]), rng.randrange(1, 40)] if rng.random() < 0.15 else None
        specs.append({'chain': chain, 'students': students, 'offsets': offsets, 'syntax': syntax})
    res = vlib.run_impl('c06_impl.py', {'locations': specs}, timeout=600)['locations']
    items, idx = [], []
    for si, (sp, r) in enumerate(zip(specs, res)):
        ctx.case(('location', json.dumps(sp, sort_keys=True)), nontrivial=any(f in sp['students'] for f, _ in sp['chain']))
        ctx.count('location:' + ('student-frame-on-the-stack' if any(f in sp['students'] for f, _ in sp['chain']) else 'no-student-frame'))
        if 'error' in r:
            ctx.violation('location-raises', {'spec': sp, 'observed': r, 'why': 'building the traceback raised %s' % r['error']})
            continue
        # the oracle of the property itself: with learner code on the stack the line is the innermost learner frame's (+ offset)
        if not sp['syntax']:
            mine = [(f, l) for f, l in r['frames'] if f in sp['students']]
            if mine:
                want = mine[-1][1] + sp['offsets'].get(mine[-1][0], 0)
                if r['line'] != want:
                    ctx.violation('location-not-the-learners-line', {'spec': sp, 'observed': r, 'why':
                                  'the innermost frame in a learner file is %s line %d (+%d) but the failure is located on line %s'
                                  % (mine[-1][0], mine[-1][1], sp['offsets'].get(mine[-1][0], 0), r['line'])})
        ids = {}
        for f, _ in r['frames']:
            ids.setdefault(f, len(ids))
        for f in list(sp['students']) + list(sp['offsets']) + ([sp['syntax'][0]] if sp['syntax'] else []):
            ids.setdefault(f, len(ids))
        frames = clist(['(%d, %d)' % (ids[f], l) for f, l in r['frames']])
        items.append('(%s, %s, %s, %s, %d)' % (clist([str(ids[f]) for f in sp['students']]),
                                               clist(['(%d, %d)' % (ids[f], n) for f, n in sp['offsets'].items()]),
                                               'None' if not sp['syntax'] else '(Some (%d, %d))' % (ids[sp['syntax'][0]], sp['syntax'][1]),
                                               frames, r['line']))
        idx.append(si)
    bad = ctx.coq_cases('location', LOC_HEADER, items, 'check_location', chunk=400)
    ctx.obligation('correspondence:location(model = ExpandedTraceback.line_number on %d real tracebacks)' % len(items), not bad,
                   str([specs[idx[i]] for k, i, d in bad if k == 'mismatch'][:3])[:1200])
    for b in bad[:3]:
        ctx.broken.append(('correspondence', 'C06:location', json.dumps(specs[idx[b[1]]]) if b[0] == 'mismatch' else b[2]))


def run(ctx):  # noqa: F811
    translate(ctx)
    ctx.coq_props()
    correspondence(ctx)
    location_correspondence(ctx)
