"""C19 - TIFA's operator typing and value typing agree with what CPython does at run time."""
import ast
import itertools
import json

import vlib
from vlib import Refusal, cstr, clist
from translate import pymini, tables

OPS = 'pedal/types/operations.py'


def table3(name):
    tree, _ = pymini.load_module(OPS)
    v = tables.find_assign(tree, name)
    if not isinstance(v, ast.Dict):
        raise Refusal('%s is not a dict display' % name)
    out = []
    for k, inner in zip(v.keys, v.values):
        if not (isinstance(k, ast.Attribute) and isinstance(k.value, ast.Name) and k.value.id == 'ast'):
            raise Refusal('operator key %s' % ast.unparse(k))
        if not isinstance(inner, ast.Dict):
            raise Refusal('row of %s' % k.attr)
        rows = []
        for lk, lv in zip(inner.keys, inner.values):
            if not isinstance(lk, ast.Name) or not isinstance(lv, ast.Dict):
                raise Refusal('left type entry %s' % ast.unparse(lk))
            cells = []
            for rk, rv in zip(lv.keys, lv.values):
                if not isinstance(rk, ast.Name) or not isinstance(rv, ast.Name):
                    raise Refusal('cell %s' % ast.unparse(rk))
                cells.append((rk.id, rv.id))
            rows.append((lk.id, cells))
        out.append((k.attr, rows))
    return out


def result_functions():
    """the one-line result functions: name -> what they return"""
    tree, _ = pymini.load_module(OPS)
    out = {}
    for n in tree.body:
        if isinstance(n, ast.FunctionDef):
            body = [s for s in n.body if not (isinstance(s, ast.Expr) and isinstance(s.value, ast.Constant))]
            src = ' ; '.join(ast.unparse(s) for s in body)
            out[n.name] = src
    return out


KNOWN_RESULTS = {
    'NumType_any': ('return NumType()', 'RNum'), 'FloatType_any': ('return FloatType()', 'RFloat'),
    'IntType_any': ('return IntType()', 'RInt'), 'StrType_any': ('return StrType(False)', 'RStr'),
    'BoolType_any': ('return BoolType()', 'RBool'), 'keep_left': ('return left', 'RLeft'), 'keep_right': ('return right', 'RRight'),
    'add_tuples': ('return TupleType(tuple(left.element_types) + tuple(right.element_types))', 'RTupleConcat'),
    'add_element_container_types': ('if left.is_empty:\n    return right.clone()\nelse:\n    return left.clone()', 'RContainer'),
}


def gen_text():
    t = ('(* GENERATED from pedal/types/operations.py *)\nFrom Coq Require Import List String.\nImport ListNotations.\n'
         'From Pedal Require Import model.C19_Types.\nOpen Scope string_scope.\n\n')
    funs = result_functions()
    tbl = table3('VALID_BINOP_TYPES')
    used = sorted({f for _, rows in tbl for _, cells in rows for _, f in cells})
    for f in used:
        if f not in KNOWN_RESULTS:
            raise Refusal('result function %s is not known to the model' % f)
        if f not in funs or funs[f].replace(' ', '') != KNOWN_RESULTS[f][0].replace(' ', '').replace('\n', ';').replace(';;', ';') \
                and funs[f].replace(' ', '') != KNOWN_RESULTS[f][0].replace(' ', ''):
            # compare modulo whitespace / statement separators
            a = ''.join(funs.get(f, '').split())
            b = ''.join(KNOWN_RESULTS[f][0].replace('\n', ' ; ').split())
            if a.replace(';', '') != b.replace(';', ''):
                raise Refusal('result function %s changed: %r' % (f, funs.get(f)))
    rows_txt = []
    for op, rows in tbl:
        for lt, cells in rows:
            for rt, f in cells:
                rows_txt.append('(%s, %s, %s, %s)' % (cstr(op), cstr(lt), cstr(rt), KNOWN_RESULTS[f][1]))
    t += 'Definition gen_binop_table : list (string * string * string * resfun) := [\n  %s\n].\n' % ';\n  '.join(rows_txt)
    return t


# ---------------------------------------------------------------- comparisons (Tifa.visit_Compare, Type.orderable, allows_membership)
NT = 'pedal/types/new_types.py'
VISITOR = 'pedal/tifa/tifa_visitor.py'
CORE_CLASSES = ['NumType', 'IntType', 'FloatType', 'BoolType', 'StrType', 'ListType', 'TupleType', 'SetType', 'LiteralInt', 'LiteralFloat',
                'LiteralStr', 'LiteralBool']
COMPARE_SHAPE = r"""left = self\.visit\(node\.left\)
comparators = \[self\.visit\(compare\) for compare in node\.comparators\]
for \(?op, left, right\)? in zip\(node\.ops, \[left\] \+ comparators, comparators\):
    if isinstance\(op, \(([\w\., ]+)\)\):
        continue
    elif isinstance\(op, \(([\w\., ]+)\)\):
        if type\(right\) in left\.orderable:
            continue
    elif isinstance\(op, \(([\w\., ]+)\)\):
        if right\.allows_membership\(left\):
            continue
    self\._issue\(incompatible_types\(self\.locate\(\), op, left, right, report=self\.report\)\)
return BoolType\(\)"""
MEMBERSHIP_KINDS = {'return False': 'MNever', 'return True': 'MAlways', 'return is_subtype(key, StrType())': 'MSubStr',
                    'return is_subtype(key, self.element_type)': 'MElem',
                    'return any((is_subtype(key, t) for t in self.element_types))': 'MElems',
                    'return any((is_subtype(key, potential_key) for (potential_key, value) in self.element_types))': 'MKeys'}


def _body_src(fn):
    body = [x for x in fn.body if not (isinstance(x, ast.Expr) and isinstance(x.value, ast.Constant) and isinstance(x.value.value, str))]
    return '\n'.join(ast.unparse(x) for x in body)


def compare_surface():
    import re
    tree, _ = pymini.load_module(VISITOR)
    fn = pymini.find_def(tree, 'Tifa.visit_Compare')
    m = re.fullmatch(COMPARE_SHAPE, _body_src(fn))
    if not m:
        raise Refusal('Tifa.visit_Compare no longer has the modelled shape:\n' + _body_src(fn))
    groups = []
    for g in m.groups():
        names = [x.strip() for x in g.split(',')]
        if not all(n.startswith('ast.') for n in names):
            raise Refusal('operator tuple %s' % g)
        groups.append([n[4:] for n in names])
    return groups


def _frozenset_names(v, consts):
    if isinstance(v, ast.Name) and v.id in consts:
        return consts[v.id]
    if isinstance(v, ast.Call) and isinstance(v.func, ast.Name) and v.func.id == 'frozenset' and not v.keywords:
        if not v.args:
            return []
        if len(v.args) == 1 and isinstance(v.args[0], (ast.List, ast.Tuple, ast.Set)) and all(isinstance(e, ast.Name) for e in v.args[0].elts):
            return [e.id for e in v.args[0].elts]
    raise Refusal('orderable value %s' % ast.unparse(v))


def class_table():
    tree, _ = pymini.load_module(NT)
    return tree, {n.name: n for n in tree.body if isinstance(n, ast.ClassDef)}


def linearize(name, classes, seen=None):
    """syntactic method resolution order (the classes involved use single chains plus the LiteralValue mix-in)"""
    if name not in classes:
        return []
    out = [name]
    for b in classes[name].bases:
        if not isinstance(b, ast.Name):
            raise Refusal('base of %s: %s' % (name, ast.unparse(b)))
        for c in linearize(b.id, classes):
            if c not in out:
                out.append(c)
    return out


def orderable_table():
    tree, classes = class_table()
    consts, own = {}, {}
    accounted = 0
    for cname, c in classes.items():
        for st in c.body:
            if isinstance(st, ast.Assign) and any(isinstance(t, ast.Name) and t.id == 'orderable' for t in st.targets):
                own[cname] = _frozenset_names(st.value, consts)
                accounted += 1
            elif isinstance(st, ast.AnnAssign) and isinstance(st.target, ast.Name) and st.target.id == 'orderable':
                raise Refusal('annotated orderable in %s' % cname)
    for st in tree.body:
        if isinstance(st, ast.Assign):
            if all(isinstance(t, ast.Name) for t in st.targets):
                try:
                    val = _frozenset_names(st.value, consts)
                except Refusal:
                    continue
                for t in st.targets:
                    consts[t.id] = val
            elif any(isinstance(t, ast.Attribute) and t.attr == 'orderable' for t in st.targets):
                if not all(isinstance(t, ast.Attribute) and t.attr == 'orderable' and isinstance(t.value, ast.Name) for t in st.targets):
                    raise Refusal('mixed orderable assignment %s' % ast.unparse(st))
                val = _frozenset_names(st.value, consts)
                for t in st.targets:
                    own[t.value.id] = val
                    accounted += 1
        elif isinstance(st, ast.For):
            stores = [n for n in ast.walk(st) if isinstance(n, ast.Attribute) and n.attr == 'orderable' and isinstance(n.ctx, ast.Store)]
            if stores:
                ok = (isinstance(st.target, ast.Name) and isinstance(st.iter, (ast.List, ast.Tuple)) and all(isinstance(e, ast.Name) for e in st.iter.elts)
                      and len(st.body) == 1 and not st.orelse and isinstance(st.body[0], ast.Assign)
                      and ast.unparse(st.body[0]) == '%s.orderable = frozenset([%s])' % (st.target.id, st.target.id))
                if not ok:
                    raise Refusal('orderable loop %s' % ast.unparse(st))
                for e in st.iter.elts:
                    own[e.id] = [e.id]
                accounted += 1
    # every place that stores an `orderable` must have been understood
    total = sum(1 for n in ast.walk(tree) if (isinstance(n, ast.Attribute) and n.attr == 'orderable' and isinstance(n.ctx, ast.Store)))
    total_cls = sum(1 for c in classes.values() for st in c.body if isinstance(st, ast.Assign) and any(isinstance(t, ast.Name) and t.id == 'orderable' for t in st.targets))
    attr_stmt = sum(1 for st in tree.body if isinstance(st, ast.Assign) and any(isinstance(t, ast.Attribute) and t.attr == 'orderable' for t in st.targets))
    loops = sum(1 for st in tree.body if isinstance(st, ast.For) and any(isinstance(n, ast.Attribute) and n.attr == 'orderable' and isinstance(n.ctx, ast.Store) for n in ast.walk(st)))
    stores_top = sum(sum(1 for t in st.targets if isinstance(t, ast.Attribute) and t.attr == 'orderable') for st in tree.body if isinstance(st, ast.Assign)) + loops
    if total != stores_top:
        raise Refusal('an `orderable` attribute is assigned somewhere the translator does not follow (%d stores, %d understood)' % (total, stores_top))
    # other modules must not assign it either
    import glob, os
    for path in glob.glob(os.path.join(vlib.REPO, 'pedal', '**', '*.py'), recursive=True):
        if path.endswith('new_types.py'):
            continue
        txt = open(path, encoding='utf8').read()
        if '.orderable' in txt and any(isinstance(n, ast.Attribute) and n.attr == 'orderable' and isinstance(n.ctx, ast.Store) for n in ast.walk(ast.parse(txt))):
            raise Refusal('orderable assigned in %s' % path)
    table = []
    for c in CORE_CLASSES:
        for k in linearize(c, classes):
            if k in own:
                table.append((c, own[k]))
                break
        else:
            raise Refusal('no orderable for %s' % c)
    return table


def membership_table():
    tree, classes = class_table()
    table = []
    for c in CORE_CLASSES:
        for k in linearize(c, classes):
            fns = [st for st in classes[k].body if isinstance(st, ast.FunctionDef) and st.name == 'allows_membership']
            if fns:
                src = _body_src(fns[0])
                if src not in MEMBERSHIP_KINDS:
                    raise Refusal('%s.allows_membership changed: %r' % (k, src))
                table.append((c, MEMBERSHIP_KINDS[src]))
                break
        else:
            raise Refusal('no allows_membership for %s' % c)
    return table


APPLY_SHAPE = """if isinstance(left, AnyType):
    return right
elif isinstance(right, AnyType):
    return left
left = left.promote() if isinstance(left, LiteralValue) else left
right = right.promote() if isinstance(right, LiteralValue) else right
if type(operation) in VALID_BINOP_TYPES:
    op_lookup = VALID_BINOP_TYPES[type(operation)]
    if type(left) in op_lookup:
        op_lookup = op_lookup[type(left)]
        if type(right) in op_lookup:
            op_lookup = op_lookup[type(right)]
            result_type = op_lookup(left, right)
            return result_type
return ImpossibleType()"""


def promote_table():
    """Literal* class -> the class promote() returns (parents[0], or what an own promote() builds)"""
    tree, classes = class_table()
    out = []
    for name, c in classes.items():
        if not any(isinstance(b, ast.Name) and b.id == 'LiteralValue' for b in c.bases):
            continue
        target = None
        for st in c.body:
            if isinstance(st, ast.FunctionDef) and st.name == 'promote':
                src = _body_src(st)
                m = __import__('re').fullmatch(r'return (\w+)\(.*\)', src)
                if not m:
                    raise Refusal('%s.promote: %r' % (name, src))
                target = m.group(1)
        if target is None:
            for st in c.body:
                if isinstance(st, ast.Assign) and any(isinstance(t, ast.Name) and t.id == 'parents' for t in st.targets):
                    v = st.value
                    if not (isinstance(v, ast.List) and len(v.elts) >= 1 and isinstance(v.elts[0], ast.Call) and isinstance(v.elts[0].func, ast.Name)):
                        raise Refusal('%s.parents: %s' % (name, ast.unparse(v)))
                    target = v.elts[0].func.id
        if target is None:
            raise Refusal('no promotion target for %s' % name)
        out.append((name, target))
    # the generic promote() of LiteralValue must be  return self.parents[0]
    lv = classes.get('LiteralValue')
    pr = [st for st in lv.body if isinstance(st, ast.FunctionDef) and st.name == 'promote'] if lv else []
    # (or a clone of it: Type.clone() builds an instance of the same class - what the table records is the class)
    if not pr or _body_src(pr[0]) not in ('return self.parents[0]', 'return self.parents[0].clone()'):
        raise Refusal('LiteralValue.promote changed')
    return out


def gen_apply_text():
    tree, _ = pymini.load_module(OPS)
    fn = pymini.find_def(tree, 'apply_binary_operation')
    if _body_src(fn) != APPLY_SHAPE:
        raise Refusal('apply_binary_operation no longer has the modelled shape:\n' + _body_src(fn))
    t = '\n(* GENERATED from apply_binary_operation (shape checked) and the Literal* classes of new_types.py *)\n'
    t += 'Definition gen_promote : list (string * string) := %s.\n' % clist(['(%s, %s)' % (cstr(a), cstr(b)) for a, b in promote_table()])
    return t


def gen_compare_text():
    skip, order, member = compare_surface()
    t = '\n(* GENERATED from Tifa.visit_Compare (pedal/tifa/tifa_visitor.py) and pedal/types/new_types.py *)\n'
    t += 'Definition gen_cmp_skip : list string := %s.\n' % clist([cstr(x) for x in skip])
    t += 'Definition gen_cmp_order : list string := %s.\n' % clist([cstr(x) for x in order])
    t += 'Definition gen_cmp_member : list string := %s.\n' % clist([cstr(x) for x in member])
    t += 'Definition gen_orderable : list (string * list string) := [\n  %s\n].\n' % ';\n  '.join(
        '(%s, %s)' % (cstr(c), clist([cstr(x) for x in v])) for c, v in orderable_table())
    t += 'Definition gen_membership : list (string * mkind) := [\n  %s\n].\n' % ';\n  '.join(
        '(%s, %s)' % (cstr(c), k) for c, k in membership_table())
    return t


def translate(ctx):
    ctx.gen('C19_Gen', lambda: gen_text() + gen_compare_text() + gen_apply_text())


def run(ctx):
    translate(ctx)
    ctx.coq_props()


# ---------------------------------------------------------------- correspondence
HEADER = ('From Coq Require Import List String Bool.\nImport ListNotations.\n'
          'From Pedal Require Import model.C19_Types gen.C19_Gen model.C19_Compare model.C19_Run.\nOpen Scope string_scope.\n')
CORE = ['int', 'float', 'str', 'list', 'tuple']
CQ = {'int': 'CInt', 'float': 'CFloat', 'str': 'CStr', 'list': 'CList', 'tuple': 'CTuple'}
BINOPS = ['Add', 'Sub', 'Mult', 'Div', 'FloorDiv', 'Mod', 'Pow', 'LShift', 'RShift', 'BitOr', 'BitXor', 'BitAnd']
CMPS = ['Lt', 'LtE', 'Gt', 'GtE', 'Eq', 'NotEq', 'Is', 'IsNot', 'In', 'NotIn']
PT = {'NumType': 'PNum', 'IntType': 'PInt', 'FloatType': 'PFloat', 'StrType': 'PStr', 'BoolType': 'PBool', 'ListType': 'PList',
      'TupleType': 'PTuple', 'LiteralInt': 'PInt', 'LiteralFloat': 'PFloat', 'LiteralStr': 'PStr'}
SYM = {'Add': '+', 'Sub': '-', 'Mult': '*', 'Div': '/', 'FloorDiv': '//', 'Mod': '%', 'Pow': '**', 'LShift': '<<', 'RShift': '>>',
       'BitOr': '|', 'BitXor': '^', 'BitAnd': '&'}
VALS = {'int': ['3', '0', '-2', '7'], 'float': ['2.5', '0.0', '-1.5'], 'str': ["'ab'", "''"], 'list': ['[1, 2]', '[]'],
        'tuple': ['(1, 2)', '()']}


def gen_tree(rng, depth, env):
    if depth == 0 or rng.random() < 0.3:
        ty = rng.choice(CORE)
        name = 'v%d' % len(env)
        env[name] = rng.choice(VALS[ty])
        return name
    return '(%s %s %s)' % (gen_tree(rng, depth - 1, env), SYM[rng.choice(BINOPS)], gen_tree(rng, depth - 1, env))


def gen_value(rng, depth):
    k = rng.randrange(10 if depth > 0 else 5)
    if k == 0:
        return str(rng.choice([0, 1, 5, -3, 7]))
    if k == 1:
        return rng.choice(['0.0', '2.5', '7.0', '-1.5'])
    if k == 2:
        return rng.choice(['True', 'False'])
    if k == 3:
        return repr(rng.choice(['', 'a', 'hello']))
    if k == 4:
        return 'None'
    n = rng.randrange(0, 4)
    items = [gen_value(rng, depth - 1) for _ in range(n)]
    if k == 5:
        return '[' + ', '.join(items) + ']'
    if k == 6:
        return '(' + ''.join(i + ', ' for i in items) + ')'
    if k == 7:
        return '{' + ', '.join('%r: %s' % (rng.choice(['a', 'b', 'c', 'count', 'ratio']) + str(j), it) for j, it in enumerate(items)) + '}'
    if k == 8:
        flat = [gen_value(rng, 0) for _ in range(n)]
        flat = [f for f in flat if f != 'None' or True]
        return 'set([' + ', '.join(flat) + '])' if flat else 'set()'
    return '[' + ', '.join(gen_value(rng, 0) for _ in range(n)) + ']'


def correspondence(ctx):
    rng = ctx.rng
    cells = [(op, a, b) for op in BINOPS + CMPS for a in CORE for b in CORE]
    trees = []
    for _ in range(300 if ctx.tier == 'quick' else 4000):
        env = {}
        src = gen_tree(rng, rng.choice([2, 2, 3]), env)
        trees.append({'src': src, 'env': env})
    values = ['(1, 2)', '()', '[0, 0.0]', '{"count": 7, "ratio": 7.0}', '[7, 7.0]', '(1, "a", 2.5)', '[[1], [2.5]]', '{"a": [1, 2], "b": []}',
              '[True, 1]', '{"k": (1, 2)}', 'set()', '[None, 1]',
              # dicts whose keys are not literals (tuples) and whose values differ in type: one pair per entry in the pedal type
              '{(1, 2): "a", (3, 4): 5}', '{(1,): [1], (2,): ["s"]}', '[{(): 1, (1,): "x"}]', '({(1, 2): {}, (3, 4): []},)',
              '{(1, 2): "a", (3, 4): "b"}', '{(1, "k"): 1.5, (2, "k"): None, "plain": (1, 2)}'] + [gen_value(rng, 3) for _ in range(300 if ctx.tier == 'quick' else 3000)]
    chains = [(o1, a, b, o2, c) for o1 in CMPS for o2 in CMPS for a in CORE for b in CORE for c in CORE]
    if ctx.tier == 'quick':
        chains = [ch for i, ch in enumerate(chains) if i % 5 == ctx.seed % 5]
    res = vlib.run_impl('c19_impl.py', {'cells': cells, 'trees': trees, 'values': values, 'chains': chains}, timeout=1500)
    # (b') chains: every operator of a chain compares two NEIGHBOURS (a op1 b op2 c means a op1 b and b op2 c), so the chain draws
    # exactly the incompatible_types issues of its two neighbouring comparisons taken alone (each of which is tied to the model below)
    for ch, rec in zip(chains, res['chains']):
        ctx.case(('chain',) + tuple(ch), nontrivial=True)
        if any(isinstance(x, str) for x in rec):
            ctx.violation('tifa-raises:chain:%s' % ':'.join(ch), {'chain': ch, 'observed': rec, 'why': 'analysis raised on a comparison chain: %s' % rec})
        elif rec[2] != rec[0] + rec[1]:
            ctx.violation('chain:%s' % ':'.join(ch), {'chain': ch, 'observed': rec,
                          'why': 'a %s b %s c with a: %s, b: %s, c: %s draws %d incompatible_types issue(s); a %s b alone draws %d and b %s c alone draws %d'
                                 % (ch[0], ch[3], ch[1], ch[2], ch[4], rec[2], ch[0], rec[0], ch[3], rec[1])})
    ctx.count('comparison-chains=%d' % len(chains))
    # (a) the CPython specification table of the model vs the live interpreter; (b) the model's table vs real TIFA
    spec_items, tifa_items, cmp_spec_items, cmp_items = [], [], [], []
    for (op, a, b), rec in zip(cells, res['cells']):
        ctx.case(('cell', op, a, b), nontrivial=True, sample=rec if (op, a, b) in (('FloorDiv', 'float', 'int'), ('Add', 'tuple', 'tuple')) else None)
        if 'raised' in rec:
            ctx.violation('tifa-raises:%s:%s:%s' % (op, a, b), {'cell': [op, a, b], 'why': 'analysis raised %s' % rec['raised']})
            continue
        always_type_error = all(k == 'TypeError' for k in rec['live'])
        some_type_error = any(k == 'TypeError' for k in rec['live'])
        # ---- the property on the real implementation
        if always_type_error and not rec['incompatible']:
            ctx.violation('unreported:%s:%s:%s' % (op, a, b), {'cell': [op, a, b], 'observed': rec,
                                                                'why': 'CPython raises TypeError for %s %s %s but TIFA reports nothing' % (a, op, b)})
        if not rec['incompatible'] and op in BINOPS:
            if not rec['type_is_type']:
                ctx.violation('non-type:%s:%s:%s' % (op, a, b), {'cell': [op, a, b], 'observed': rec,
                                                                  'why': 'the inferred result is not a pedal type: %s' % rec['type']})
            bad = [c for c in rec['conformance'] if not c[1]]
            if bad:
                ctx.violation('nonconforming:%s:%s:%s' % (op, a, b), {'cell': [op, a, b], 'observed': rec,
                                                                       'why': 'run-time results %s do not conform to the inferred %s' % ([c[0] for c in bad][:3], rec['type'])})
        for ps in rec.get('per_sample', []):
            ctx.count('cells-on-further-sample-values')
            if 'raised' in ps:
                ctx.violation('tifa-raises:%s:%s:%s' % (op, a, b), {'cell': [op, a, b], 'values': ps, 'why': 'analysis raised %s' % ps['raised']})
            elif always_type_error and not ps['incompatible']:
                ctx.violation('unreported:%s:%s:%s' % (op, a, b),
                              {'cell': [op, a, b], 'values': ps,
                               'why': 'CPython raises TypeError for %s %s %s whatever the values, but TIFA reports nothing for  a = %s; b = %s'
                                      % (a, op, b, ps['a'], ps['b'])})
            elif ps.get('conforms') is False and op in BINOPS and not (op == 'Mod' and a == 'str'):
                ctx.violation('nonconforming:%s:%s:%s' % (op, a, b),
                              {'cell': [op, a, b], 'values': ps,
                               'why': 'the run-time result of  %s %s %s  does not conform to the inferred %s' % (ps['a'], op, ps['b'], ps['type'])})
        aug = rec.get('aug')
        if aug is not None and 'raised' not in rec:
            ctx.count('augmented-assignment-cells')
            if aug['incompatible'] != rec['incompatible'] or (not rec['incompatible'] and aug['type'] != rec['type']):
                ctx.violation('augmented-assignment-differs:%s:%s:%s' % (op, a, b),
                              {'cell': [op, a, b], 'plain': {'incompatible': rec['incompatible'], 'type': rec['type']}, 'augmented': aug,
                               'why': 'r = a %s b is typed %s (incompatible=%s) but  r = a; r %s= b  leaves r typed %s (incompatible=%s)'
                                      % (op, rec['type'], rec['incompatible'], op, aug['type'], aug['incompatible'])})
        if op in CMPS:
            cmp_spec_items.append('(%s, %s, %s, %s)' % (cstr(op), CQ[a], CQ[b], vlib.cbool(always_type_error)))
            cmp_items.append('(%s, %s, %s, %s)' % (cstr(op), CQ[a], CQ[b], vlib.cbool(bool(rec['incompatible']))))
            for ps in rec.get('per_sample', []):
                if 'raised' not in ps:
                    cmp_items.append('(%s, %s, %s, %s)' % (cstr(op), CQ[a], CQ[b], vlib.cbool(bool(ps['incompatible']))))
        if op in BINOPS:
            results = sorted(set(rec['results']))
            if op == 'Mod' and a == 'str':
                pass   # '%' on a str is formatting: whether it raises depends on the VALUE, not on the operand types
            elif all(r in CQ for r in results):
                spec_items.append('(%s, %s, %s, %s, %s)' % (cstr(op), CQ[a], CQ[b], vlib.cbool(always_type_error), clist([CQ[r] for r in results])))
            t = 'PImpossible' if rec['incompatible'] else PT.get(rec['type'])
            if t:
                tifa_items.append('(%s, %s, %s, %s)' % (cstr(op), CQ[a], CQ[b], t))
    bad = ctx.coq_cases('spec', HEADER, spec_items, 'check_spec')
    ctx.obligation('spec-table:cpy_binop-matches-live-CPython(every op x type pair, several values each)', not bad,
                   str([spec_items[i] for k, i, d in bad if k == 'mismatch'][:5]))
    bad = ctx.coq_cases('table', HEADER, tifa_items, 'check_tifa_cell')
    ctx.obligation('correspondence:operator-table(model over the regenerated table = real tifa_analysis, exhaustive)', not bad,
                   str([tifa_items[i] for k, i, d in bad if k == 'mismatch'][:5]))
    for b in bad[:3]:
        ctx.broken.append(('correspondence', 'C19:table', tifa_items[b[1]] if b[0] == 'mismatch' else b[2]))
    bad = ctx.coq_cases('cmpspec', HEADER, cmp_spec_items, 'check_cmp_spec')
    ctx.obligation('spec-table:cpy_cmp_raises-matches-live-CPython(every comparison x type pair, several values each)', not bad,
                   str([cmp_spec_items[i] for k, i, d in bad if k == 'mismatch'][:5]))
    bad = ctx.coq_cases('cmptable', HEADER, cmp_items, 'check_tifa_cmp')
    ctx.obligation('correspondence:comparisons(model over the regenerated visit_Compare surface = real tifa_analysis, every cell on every sample pair)',
                   not bad, str([cmp_items[i] for k, i, d in bad if k == 'mismatch'][:5]))
    for b in bad[:3]:
        ctx.broken.append(('correspondence', 'C19:comparisons', cmp_items[b[1]] if b[0] == 'mismatch' else b[2]))
    # (c) expression trees
    for tree, rec in zip(trees, res['trees']):
        ctx.case(('tree', tree['src'], json.dumps(tree['env'], sort_keys=True)), nontrivial=rec.get('live') == 'ok')
        if 'raised' in rec:
            ctx.violation('tifa-raises-tree', {'tree': tree, 'why': 'analysis raised %s' % rec['raised']})
            continue
        if rec['live'] == 'TypeError' and not rec['incompatible'] and not ('%' in tree['src'] and "'" in ''.join(tree['env'].values())):
            # (str operands excluded: '%' formatting raises TypeError depending on the value)
            # only a violation when the TypeError is due to the operand TYPES (not e.g. a negative shift count): re-check by types
            # a value-dependent `**` inside (negative ** fractional -> complex, and complex // float raises) is the recorded finding
            ctx.violation(pow_culprit(tree) or 'unreported-tree',
                          {'tree': tree, 'observed': rec, 'why': 'CPython raises TypeError for %s but TIFA reports nothing' % tree['src']})
        if rec.get('conforms') is False:
            # a value-dependent `**` inside the tree is the recorded finding about `**`, not a new one
            ctx.violation(pow_culprit(tree) or 'nonconforming-tree',
                          {'tree': tree, 'observed': rec,
                           'why': 'the run-time result of %s (%s) does not conform to the inferred %s' % (tree['src'], rec['result'], rec['type'])})
    # (d) value typing
    for vsrc, rec in zip(values, res['values']):
        ctx.case(('value', vsrc), nontrivial='[' in vsrc or '(' in vsrc or '{' in vsrc)
        if 'raised' in rec:
            ctx.violation('value-typing-raises', {'value': vsrc, 'why': rec['raised']})
        elif not all(rec['reflexive']) or not rec['stable']:
            ctx.violation('value-type-unstable', {'value': vsrc, 'observed': rec,
                                                  'why': 'the pedal type of %s is not a subtype of itself on repeated queries: %s' % (vsrc, rec['reflexive'])})
        elif not all(rec['conforms']):
            ctx.violation('value-type-nonconforming', {'value': vsrc, 'observed': rec,
                                                       'why': 'type %s of value %s does not conform to the normalised Python type' % (rec['type'], vsrc)})
    # (e) value typing: the Coq model of get_pedal_type_from_value / is_subtype / the normal form vs the implementation
    TY = {'AnyType': 'TAny', 'NumType': 'TNum', 'IntType': 'TInt', 'FloatType': 'TFloat', 'BoolType': 'TBool', 'StrType': 'TStr', 'NoneType': 'TNone',
          'LiteralInt': 'TLitInt', 'LiteralFloat': 'TLitFloat', 'LiteralBool': 'TLitBool', 'LiteralStr': 'TLitStr'}

    class Outside(Exception):
        pass

    def coq_ty(e):
        n = e[0]
        if n in TY:
            return TY[n]
        if n == 'ListType':
            return '(TList %s)' % coq_ty(e[1])
        if n == 'SetType':
            return '(TSet %s)' % coq_ty(e[1])
        if n == 'TupleType':
            return '(TTuple %s)' % clist([coq_ty(x) for x in e[1]])
        if n == 'DictType':
            return '(TDict %s)' % clist(['(%s, %s)' % (coq_ty(k), coq_ty(x)) for k, x in e[1]])
        raise Outside(n)

    def coq_pval(e):
        n = e[0]
        if n in ('int', 'float', 'bool', 'str', 'none'):
            return {'int': 'PInt', 'float': 'PFloat', 'bool': 'PBool', 'str': 'PStr', 'none': 'PNone'}[n]
        if n in ('list', 'tuple', 'set'):
            return '(%s %s)' % ({'list': 'PList', 'tuple': 'PTuple', 'set': 'PSet'}[n], clist([coq_pval(x) for x in e[1]]))
        if n == 'dict':
            return '(PDict %s)' % clist(['(%s, %s)' % (coq_pval(k), coq_pval(x)) for k, x in e[1]])
        raise Outside(n)
    vitems, vidx = [], []
    encs = []
    for vsrc, rec in zip(values, res['values']):
        encs.append(None)
        if 'raised' in rec or 'value_enc' not in rec:
            continue
        try:
            encs[-1] = coq_pval(rec['value_enc'])
            vitems.append('(%s, %s, %s)' % (encs[-1], coq_ty(rec['type_enc']), coq_ty(rec['norm_enc'])))
            vidx.append(vsrc)
        except Outside:
            encs[-1] = None
            ctx.count('value-typing:outside-the-model-universe')
    VHEADER = ('From Coq Require Import List Bool.\nImport ListNotations.\nFrom Pedal Require Import model.C19_Values model.C19_Values_Run.\n')
    bad = ctx.coq_cases('valuetypes', VHEADER, vitems, 'check_value_type', chunk=200)
    ctx.obligation('correspondence:value-typing(model type_of / norm_of = get_pedal_type_from_value / normalize_type(type(v)).as_type() on %d nested values)'
                   % len(vitems), not bad, str([vidx[i] for k, i, d in bad if k == 'mismatch'][:5]))
    for b in bad[:3]:
        ctx.broken.append(('correspondence', 'C19:value-typing', vidx[b[1]] if b[0] == 'mismatch' else b[2]))
    pitems, pidx = [], []
    for i, j, ob in res.get('subtype_pairs', []):
        if encs[i] is None or encs[j] is None or ob == 'raise':
            continue
        pitems.append('(%s, %s, %s)' % (encs[i], encs[j], vlib.cbool(ob)))
        pidx.append((values[i], values[j]))
    bad = ctx.coq_cases('subtypes', VHEADER, pitems, 'check_subtype_pair', chunk=400)
    ctx.obligation('correspondence:is_subtype(model sub = real is_subtype between the types of %d ordered value pairs)' % len(pitems), not bad,
                   str([pidx[i] for k, i, d in bad if k == 'mismatch'][:5]))
    for b in bad[:3]:
        ctx.broken.append(('correspondence', 'C19:is_subtype', str(pidx[b[1]]) if b[0] == 'mismatch' else b[2]))
    ctx.rule = ('exhaustive: 12 binary operators + 8 comparisons x 5 x 5 core operand types, each evaluated on several values (zero, '
                'negative, empty) in live CPython and through real tifa_analysis on a two-variable program; random expression trees of '
                'depth 2-3 over typed variables; nested JSON-like values (ints, floats, bools, strs, None, lists, tuples, dicts, sets) '
                'typed three times. non-trivial for trees = evaluates without error.')
    ctx.notes.append('value typing (get_pedal_type_from_value / is_subtype / normalize_type) is not modelled in Coq: tested only; membership in a list / tuple is left open by the comparison model (CPython never raises TypeError there)')


def pow_culprit(tree):
    """the key of the known `**` finding when a sub-expression  a ** b  of the tree has a VALUE-dependent result type
    on this environment (int ** negative int -> float, negative ** fractional -> complex); None otherwise"""
    import ast as _ast
    try:
        env = {k: eval(v, {}) for k, v in tree['env'].items()}
        node = _ast.parse(tree['src'], mode='eval')
    except Exception:
        return None
    names = {int: 'int', float: 'float', bool: 'bool'}
    for n in _ast.walk(node):
        if isinstance(n, _ast.BinOp) and isinstance(n.op, _ast.Pow):
            try:
                a = eval(compile(_ast.Expression(n.left), '<a>', 'eval'), {}, dict(env))
                b = eval(compile(_ast.Expression(n.right), '<b>', 'eval'), {}, dict(env))
                r = a ** b
            except Exception:
                continue
            ta, tb = names.get(type(a)), names.get(type(b))
            if ta is None or tb is None:
                continue
            usual = float if float in (type(a), type(b)) else int
            if type(r) is not usual:
                return 'nonconforming:Pow:%s:%s' % ('int' if ta == 'bool' else ta, 'int' if tb == 'bool' else tb)
    return None


def search(ctx):
    """a proof obligation broke: look for an expression tree on which real TIFA contradicts live CPython"""
    rng = ctx.rng
    trees = []
    for _ in range(6000):
        env = {}
        trees.append({'src': gen_tree(rng, rng.choice([2, 2, 3]), env), 'env': env})
    res = vlib.run_impl('c19_impl.py', {'cells': [], 'trees': trees, 'values': []}, timeout=1500)
    for tree, rec in zip(trees, res['trees']):
        if 'raised' in rec:
            continue
        if rec['live'] == 'TypeError' and not rec['incompatible'] and not ('%' in tree['src'] and "'" in ''.join(tree['env'].values())):
            ctx.violation('unreported-tree', {'tree': tree, 'observed': rec, 'found_by': 'search after a broken obligation',
                                              'why': 'CPython raises TypeError for %s but TIFA reports nothing' % tree['src']})
            return
        if rec.get('conforms') is False and '**' not in tree['src']:
            ctx.violation('nonconforming-tree', {'tree': tree, 'observed': rec, 'found_by': 'search after a broken obligation',
                                                 'why': 'the run-time result of %s (%s) does not conform to the inferred %s' % (tree['src'], rec['result'], rec['type'])})
            return


def run(ctx):  # noqa: F811
    translate(ctx)
    ctx.coq_props()
    correspondence(ctx)
    if ctx.broken and not ctx.violations:
        search(ctx)
