"""C13 - grading a submission is independent of what the process graded before it."""
import json
import os

import vlib
from vlib import cstr, clist
from translate import globals_inventory

CLASSIFICATION = os.path.join(vlib.VERIF, 'coq', 'model', 'C13_Classification.v')


def gen_text():
    inv = globals_inventory.inventory()
    init, clear = globals_inventory.report_fields()
    t = ('(* GENERATED: inventory of process-lifetime mutable state in pedal, and Report.__init__ / Report.clear fields *)\n'
         'From Coq Require Import List String.\nImport ListNotations.\nOpen Scope string_scope.\n\n')
    t += 'Definition gen_inventory : list string := [\n  %s\n].\n' % ';\n  '.join(cstr(i) for i in inv)
    t += 'Definition gen_report_init_fields : list string := %s.\n' % clist([cstr(i) for i in init])
    t += 'Definition gen_report_clear_fields : list string := %s.\n' % clist([cstr(i) for i in clear])
    return t


def translate(ctx):
    ctx.gen('C13_Gen', gen_text)


# ---------------------------------------------------------------- the library of gradings
PRE = 'from pedal import *\nfrom pedal.core.report import MAIN_REPORT\n'
SCRIPTS = [
    {'name': 'plain', 'code': PRE + 'assert_equal(call("add", 1, 2), 3)\nassert_equal(call("add", 2, 2), 4, score="+20%")\n'},
    {'name': 'override-parent-child', 'code': PRE + 'from pedal.sandbox.feedbacks import runtime_error, name_error, type_error\n'
     'runtime_error.override(title="Custom Runtime")\nname_error.override(title="Custom Name", muted=False)\n'
     'type_error.override(title="Custom Type")\nassert_equal(call("add", 1, 2), 3)\n'},
    {'name': 'override-parent-only', 'code': PRE + 'from pedal.sandbox.feedbacks import runtime_error\nruntime_error.override(title="Parent Title")\n'
     'assert_equal(call("add", 1, 2), 3)\n'},
    {'name': 'override-child-only', 'code': PRE + 'from pedal.sandbox.feedbacks import zero_division_error, name_error\n'
     'zero_division_error.override(title="Child ZDE Title")\nname_error.override(title="Child Name Title")\nassert_equal(call("add", 1, 2), 3)\n'},
    {'name': 'override-twice', 'code': PRE + 'explain.override(title="First")\nexplain.override(title="Second")\n'
     'gently.override(priority="high")\nexplain("told you", label="x1")\n'},
    {'name': 'suppress', 'code': PRE + 'suppress("runtime")\nsuppress("algorithmic")\nsuppress(label="unused_variable")\n'
     'gently("gentle reminder", label="g1")\n'},
    {'name': 'formatter', 'code': PRE + 'from pedal.core.formatting import Formatter\nclass Loud(Formatter):\n    def name(self, n):\n'
     '        return "<<" + str(n) + ">>"\n    def python_value(self, v):\n        return "[[" + str(v) + "]]"\nset_formatter(Loud)\n'
     'ensure_function_call("print")\nprevent_operation("+")\n'},
    {'name': 'hooks', 'code': PRE + 'def late(report=MAIN_REPORT):\n    gently("added by a hook", label="hooked")\n'
     'MAIN_REPORT.add_hook("pedal.resolvers.resolve", late)\ncompliment("nice", label="c1")\n'},
    {'name': 'pools', 'code': PRE + 'from pedal.core.commands import set_pools\nset_pools(["A"])\nexplain.override_for_pool("A", title="Pool A title")\n'
     'explain("pool message", label="p1")\n'},
    {'name': 'pools-b', 'code': PRE + 'from pedal.core.commands import set_pools\nset_pools(["A"])\ngently("second pool user", label="p2")\n'},
    {'name': 'pools-subclass', 'code': PRE + 'from pedal.core.commands import set_pools\nset_pools(["A"])\n'
     'set_correct.override_for_pool("A", title="Pool A correct")\ncompliment.override_for_pool(["A"], title="Pool A compliment")\n'
     'gently.override_for_pool("A", title="Pool A gently")\ncompliment("fine", label="c8")\nset_correct()\n'},
    {'name': 'pools-c', 'code': PRE + 'from pedal.core.commands import set_pools\nset_pools(["A"])\ncompliment("fine", label="c9")\nset_correct()\n'},
    {'name': 'pools-d', 'code': PRE + 'from pedal.core.commands import set_pools\nset_pools(["A"])\ngently("try again", label="g9")\n'},
    # the documented way to configure TIFA: write into the tool's settings
    {'name': 'tifa-settings', 'code': PRE + 'MAIN_REPORT["tifa"]["settings"]["truthiness_returns_booleans"] = False\n'
     'MAIN_REPORT["tifa"]["settings"]["evaluate_string_literal_types"] = True\nMAIN_REPORT["tifa"]["settings"]["allow_unused_variables"] = True\n'
     'from pedal.tifa import tifa_analysis\ntifa_analysis()\ngently("configured", label="cfg", priority="low")\n'},
    # the script inspects what the mocked turtle module recorded for THIS submission
    {'name': 'turtle-count', 'code': PRE + 'from pedal.sandbox.commands import get_sandbox\nstudent = run()\n'
     'calls = get_sandbox().modules.turtles.calls\ngently("turtle commands: %d" % len(calls), label="turtle_count")\n'},
    {'name': 'explain-plain', 'code': PRE + 'explain("plain explanation", label="e1")\n'},
    {'name': 'mocks', 'code': PRE + 'block_function("sum")\nmock_function("max", lambda *a: 99)\nallow_module("os")\nstudent = run()\n'
     'assert_equal(evaluate("max(1, 2)"), 99)\n'},
    {'name': 'sections', 'code': PRE + 'from pedal.source.sections import separate_into_sections, next_section\nseparate_into_sections()\n'
     'next_section()\nverify()\ntifa_analysis()\nnext_section()\nverify()\n'},
    {'name': 'crash', 'code': PRE + 'from pedal.sandbox.feedbacks import runtime_error\nruntime_error.override(title="Crashing Script Title")\n'
     'suppress("syntax")\nraise ValueError("instructor bug")\n'},
    {'name': 'static+tifa', 'code': PRE + 'ensure_function_call("print", at_least=2)\nprevent_ast("While")\nensure_literal(5)\n'
     'from pedal.tifa import tifa_analysis\ntifa_analysis()\n'},
    {'name': 'inputs', 'code': PRE + 'set_input(["4", "5"])\nstudent = run()\nassert_output(student, "9")\nqueue_input("7")\n'},
    {'name': 'scores', 'code': PRE + 'give_partial(0.25)\ncompliment("good start", score="+10%")\ngently("not yet", label="n1", score="-5%")\n'},
    {'name': 'correct', 'code': PRE + 'set_correct()\n'},
    # a script that defines a helper of its own, and one that would pick such a helper up if the scripts shared a namespace
    {'name': 'defines-helper', 'code': PRE + 'def helper_only_here():\n    return "text from the helper"\nSHARED_FLAG = "set by defines-helper"\n'
     'gently(helper_only_here(), label="h1")\n'},
    {'name': 'uses-foreign-helper', 'code': PRE + 'try:\n    text = helper_only_here()\nexcept NameError:\n    text = "no helper in my namespace"\n'
     'try:\n    text += " / " + SHARED_FLAG\nexcept NameError:\n    text += " / no flag"\ngently(text, label="h2")\n'},
    # the script resets the report itself (which also detaches the submission) and carries on
    {'name': 'clear-report', 'code': PRE + 'explain("before the reset", label="r0")\nclear_report()\nsuppress("runtime")\n'
     'gently("after the reset", label="r1", score="+15%")\n'},
    {'name': 'unit', 'code': PRE + 'unit_test("add", ((1, 2), 3), ((2, 3), 5), ((0, 0), 0), score="+30%", partial_credit=True)\n'},
    # the same instructor FILE NAME with different contents (ProgSnap style)
    {'name': 'samefile-a', 'file': 'shared_name.py', 'code': PRE + 'gently("script A", label="from_a")\n'},
    {'name': 'samefile-b', 'file': 'shared_name.py', 'code': PRE + 'gently("script B", label="from_b")\n'},
]
SUBMISSIONS = [
    {'name': 'add-ok', 'files': {'answer.py': 'def add(a, b):\n    return a + b\nprint(add(1, 2))\nprint("done")\n'}},
    {'name': 'add-wrong', 'files': {'answer.py': 'def add(a, b):\n    return a - b\nprint(add(1, 2))\n'}},
    {'name': 'syntax', 'files': {'answer.py': 'def add(a, b)\n    return a + b\n'}},
    {'name': 'runtime', 'files': {'answer.py': 'def add(a, b):\n    return a + b\nprint(add(1, 2))\nprint(int("five"))\n'}},
    {'name': 'zerodiv', 'files': {'answer.py': 'def add(a, b):\n    return a + b\nprint(add(1, 2))\nprint(1 / 0)\n'}},
    {'name': 'typeerr', 'files': {'answer.py': 'def add(a, b):\n    return a + b\nprint(add(1, 2))\nprint(len(5))\n'}},
    {'name': 'turtle-assign', 'files': {'answer.py': 'import turtle\nturtle.forward = 50\ndef add(a, b):\n    return a + b\n'}},
    {'name': 'turtle-use', 'files': {'answer.py': 'import turtle\nturtle.forward(100)\ndef add(a, b):\n    return a + b\n'}},
    # the same student confusion (assigning to a library function instead of calling it) for the other modules TIFA knows
    {'name': 'plt-assign', 'files': {'answer.py': 'import matplotlib.pyplot as plt\nplt.title = "My plot"\ndef add(a, b):\n    return a + b\n'}},
    {'name': 'plt-use', 'files': {'answer.py': 'import matplotlib.pyplot as plt\nplt.title("My plot")\ndef add(a, b):\n    return a + b\n'}},
    {'name': 'math-assign', 'files': {'answer.py': 'import math\nmath.sqrt = "root"\nmath.pi = "three"\ndef add(a, b):\n    return a + b\n'}},
    {'name': 'math-use', 'files': {'answer.py': 'import math\nr = math.sqrt(16) + math.pi\nprint(r)\ndef add(a, b):\n    return a + b\n'}},
    {'name': 'string-assign', 'files': {'answer.py': 'import string\nstring.digits = 0\ndef add(a, b):\n    return a + b\n'}},
    {'name': 'string-use', 'files': {'answer.py': 'import string\nprint("id: " + string.digits)\ndef add(a, b):\n    return a + b\n'}},
    {'name': 'random-assign', 'files': {'answer.py': 'import random\nrandom.randint = 4\ndef add(a, b):\n    return a + b\n'}},
    {'name': 'random-use', 'files': {'answer.py': 'import random\nn = random.randint(1, 6)\nprint(n > 0)\ndef add(a, b):\n    return a + b\n'}},
    {'name': 'inputs', 'files': {'answer.py': 'a = int(input("a?"))\nb = int(input("b?"))\nprint(a + b)\ndef add(a, b):\n    return a + b\n'}},
    {'name': 'sections', 'files': {'answer.py': 'x = 1\n##### Part 1\ndef add(a, b):\n    return a + b\nprint(y)\n##### Part 2\nz = = 3\n'}},
    {'name': 'annotated', 'files': {'answer.py': 'ages: list[int] = []\nnames = list()\nnames.append("Ada")\ndef add(a, b):\n    return a + b\n'}},
    {'name': 'bare-list', 'files': {'answer.py': 'names = list()\nnames.append("Ada")\nnames.append("Bob")\ndef add(a, b):\n    return a + b\n'}},
    {'name': 'bare-typed', 'files': {'answer.py': 'def add(a, b):\n    return a + b\ndef shout(words: list) -> list:\n    result = list()\n'
                                                   '    for w in words:\n        result = result + [w.upper()]\n    return result\n'
                                                   'print(shout(["a", "b"]))\nd = dict()\nd["k"] = "v"\nprint(d["k"] + "!")\n'}},
    {'name': 'annotated-2', 'files': {'answer.py': 'def add(a, b):\n    return a + b\ndef total(xs: list[int]) -> int:\n    t = 0\n    for x in xs:\n'
                                                    '        t = t + x\n    return t\ncounts: dict[str, int] = {}\ncounts["a"] = total([1, 2])\n'
                                                    'nums = list[int]()\nprint(counts, nums)\n'}},
    {'name': 'boolop', 'files': {'answer.py': 'name = input("name?") or "stranger"\nprint("Hello " + name)\ndef add(a, b):\n    return a + b\n'}},
    {'name': 'string-annotation', 'files': {'answer.py': 'def add(a: "int", b: "int") -> "int":\n    return a + b\nprint(add("x", "y"))\n'}},
    # an attribute stored on a FUNCTION object, then (in another submission) an attribute of a function read that was never stored
    {'name': 'func-attr-assign', 'files': {'answer.py': 'def add(a, b):\n    return a + b\nadd.calls = 0\nadd.calls = add.calls + 1\nprint(add(1, 2), add.calls)\n'}},
    {'name': 'func-attr-use', 'files': {'answer.py': 'def add(a, b):\n    return a + b\ndef other():\n    return 1\nprint(add(1, 2))\nprint(other.calls + 1)\n'}},
    {'name': 'unused', 'files': {'answer.py': 'def add(a, b):\n    return a + b\nleftover = 5\nfor i in [1, 2]:\n    print(i + 5)\nprint(1)\n'}},
]
ALWAYS = [(('defines-helper', 'add-ok'), ('uses-foreign-helper', 'add-ok')), (('defines-helper', 'add-wrong'), ('plain', 'add-ok'), ('uses-foreign-helper', 'runtime')),
          (('clear-report', 'add-ok'), ('plain', 'runtime')), (('clear-report', 'runtime'), ('clear-report', 'runtime'), ('correct', 'add-ok')),
          (('pools-subclass', 'add-ok'), ('pools-c', 'add-ok')), (('pools-subclass', 'add-ok'), ('pools-d', 'add-ok')),
          (('pools', 'add-ok'), ('pools-c', 'add-ok')), (('pools-subclass', 'add-wrong'), ('pools-b', 'add-ok')),
          (('tifa-settings', 'boolop'), ('plain', 'boolop')), (('tifa-settings', 'add-ok'), ('static+tifa', 'boolop')),
          (('tifa-settings', 'string-annotation'), ('plain', 'string-annotation')), (('tifa-settings', 'unused'), ('plain', 'unused')),
          (('tifa-settings', 'boolop'), ('tifa-settings', 'boolop')),
          (('plain', 'annotated'), ('plain', 'bare-typed')), (('plain', 'annotated-2'), ('plain', 'bare-typed')),
          (('static+tifa', 'annotated-2'), ('static+tifa', 'bare-list')), (('crash', 'annotated-2'), ('plain', 'bare-typed')),
          # a parent feedback class overridden in one grading, a subclass of it in the next, then a grading that shows the subclass
          (('override-parent-only', 'add-ok'), ('override-child-only', 'add-ok'), ('plain', 'zerodiv')),
          (('override-parent-only', 'runtime'), ('override-child-only', 'zerodiv'), ('plain', 'runtime')),
          (('override-parent-child', 'add-ok'), ('override-child-only', 'runtime'), ('plain', 'runtime')),
          (('override-child-only', 'add-ok'), ('override-parent-only', 'add-ok'), ('plain', 'zerodiv')),
          (('pools', 'add-ok'), ('override-twice', 'add-ok'), ('pools-b', 'add-ok')),
          (('crash', 'add-ok'), ('override-child-only', 'zerodiv'), ('plain', 'zerodiv')),
          (('turtle-count', 'turtle-use'), ('turtle-count', 'turtle-use')), (('plain', 'turtle-use'), ('turtle-count', 'turtle-use')),
          (('turtle-count', 'turtle-use'), ('turtle-count', 'add-ok')),
          (('plain', 'func-attr-assign'), ('plain', 'func-attr-use')), (('static+tifa', 'func-attr-assign'), ('static+tifa', 'func-attr-use')),
          (('plain', 'func-attr-use'), ('plain', 'func-attr-assign'), ('plain', 'func-attr-use'))]
FIELDS = ('label', 'title', 'message', 'correct', 'score', 'output', 'error')


def compare(a, b):
    return [k for k in FIELDS if a.get(k) != b.get(k)]


def correspondence(ctx):
    rng = ctx.rng
    n_hist = 120 if ctx.tier == 'quick' else 1200
    ns, nb = len(SCRIPTS), len(SUBMISSIONS)
    hists = []
    # targeted shapes first: X then Y for every ordered pair of scripts on a fixed submission (leaks are pairwise)
    pairs = [(a, b) for a in range(ns) for b in range(ns)]
    rng.shuffle(pairs)
    for a, b in (pairs[:160] if ctx.tier == 'quick' else pairs):
        s1, s2 = rng.randrange(nb), rng.randrange(nb)
        hists.append([[a, s1], [b, s2]])
    for a in range(nb):
        for b in range(nb):
            if ctx.tier == 'quick' and rng.random() < 0.5:
                continue
            sc = rng.choice([0, 11, 4])
            hists.append([[sc, a], [sc, b]])
    # a submission that assigns to a library attribute, then one that uses it (always, for every module)
    names = [b['name'] for b in SUBMISSIONS]
    for a, nm in enumerate(names):
        if nm.endswith('-assign') and nm[:-7] + '-use' in names:
            b = names.index(nm[:-7] + '-use')
            for sc in (0, 4, 11):
                hists.append([[sc, a], [sc, b]])
                hists.append([[sc, b], [sc, a], [sc, b]])
    # shapes that are always run: (script, submission) then (script, submission), by name
    snames = [x['name'] for x in SCRIPTS]
    for steps in ALWAYS:
        hists.append([[snames.index(sa), names.index(ba)] for sa, ba in steps])
    for _ in range(n_hist):
        h = [[rng.randrange(ns), rng.randrange(nb)] for _ in range(rng.randrange(2, 7))]
        if rng.random() < 0.3:
            h.append(list(h[-1]))      # the same pair twice in a row
        hists.append(h)
    inv = globals_inventory.inventory()
    res = vlib.run_impl('c13_impl.py', {'scripts': SCRIPTS, 'submissions': SUBMISSIONS, 'histories': hists, 'inventory': inv}, timeout=2400)
    # dynamic validation of the classification: whatever a long history of gradings leaves changed must not be 'Constant'
    import re
    cls_txt = open(CLASSIFICATION).read()
    kinds = dict(re.findall(r'\("([^"]+)", (\w+)\)', cls_txt))
    churn = res.get('churn', {})
    wrong = [i for i in churn.get('changed', []) if kinds.get(i) == 'Constant']
    ctx.obligation('classification:constants-unchanged-by-gradings(%d items fingerprinted before/after %d gradings)'
                   % (len(inv) - len(churn.get('unresolved', [])), len(SCRIPTS) * ((len(SUBMISSIONS) + 1) // 2)),
                   not wrong and 'changed' in churn, 'classified Constant but changed: %s' % wrong if 'changed' in churn else str(churn))
    ctx.extra_cov['state_changed_by_gradings'] = churn.get('changed')
    ctx.extra_cov['inventory_items_not_resolvable'] = len(churn.get('unresolved', []))
    for h, r in zip(hists, res['histories']):
        ctx.case(json.dumps(h), nontrivial=len(h) >= 2,
                 sample={'history': [[SCRIPTS[s]['name'], SUBMISSIONS[b]['name']] for s, b in h],
                         'final': {k: (r[-1].get(k) if isinstance(r, list) else None) for k in ('label', 'title', 'correct', 'score')}}
                 if len(h) == 3 else None)
        ctx.count('history-len=%d' % min(len(h), 7))
        if not isinstance(r, list):
            ctx.violation('history-crashed', {'history': h, 'why': 'the grading process failed: %s' % r})
            continue
        base = res['baselines']['%d:%d' % tuple(h[-1])]
        if 'child_error' in base:
            ctx.violation('baseline-crashed', {'pair': h[-1], 'why': str(base)})
            continue
        diff = compare(r[-1], base)
        if diff:
            names = [[SCRIPTS[s]['name'], SUBMISSIONS[b]['name']] for s, b in h]
            # which earlier grading is responsible? (first prefix position whose removal is not tested here; key by the pair of script names)
            prev = sorted(set(SCRIPTS[s]['name'] for s, b in h[:-1]))
            key = 'leak:%s->%s:%s' % ('+'.join(prev) if len(prev) <= 2 else 'many', SCRIPTS[h[-1][0]]['name'], ','.join(diff))
            if 'pools' in prev and SCRIPTS[h[-1][0]]['name'] != 'pools':
                key = 'leak:pools-persist'
            # student code that EXECUTES `math.sqrt = "root"` really rebinds the attribute of the interpreter's math module
            last_sub = SUBMISSIONS[h[-1][1]]['name']
            earlier = [SUBMISSIONS[b]['name'] for s_, b in h[:-1]]
            for mod in ('math', 'string', 'random'):
                if last_sub == mod + '-use' and mod + '-assign' in earlier:
                    key = 'student-code-rebinds-an-attribute-of-a-real-module'
            ctx.violation(key, {'history': names, 'in_history': {k: r[-1].get(k) for k in FIELDS}, 'fresh': {k: base.get(k) for k in FIELDS},
                                'why': 'after the history %s the last grading differs from the same grading in a fresh interpreter in %s'
                                       % (names[:-1], diff)})
        # idempotence: the same pair twice in a row
        if len(h) >= 2 and h[-1] == h[-2] and compare(r[-1], r[-2]):
            ctx.violation('not-idempotent:%s' % SCRIPTS[h[-1][0]]['name'],
                          {'history': h, 'why': 'grading the same pair twice in a row gives different results in %s' % compare(r[-1], r[-2])})
    ctx.rule = ('%d instructor scripts (class overrides incl. parent+child and double override, suppressions, custom formatter, report '
                'hooks, pools, mocked/blocked functions, sections, a crashing script, static+TIFA checks, inputs, scores, unit_test, two '
                'scripts under one file name) x %d submissions (correct, wrong, syntax error, runtime errors, turtle attribute assignment, '
                'inputs, sectioned, annotated builtins); every ordered PAIR of scripts (quick: 160 sampled), every pair of submissions '
                'under one script, and random histories of 2-7 gradings, each in a forked child of an import-only parent; the last grading '
                'compared field by field with the same grading alone in a fresh child.' % (ns, nb))


def run(ctx):
    translate(ctx)
    ctx.coq_props()
    correspondence(ctx)
