"""C16 - the result proxy is transparent for every operation that works on the real value."""
import ast
import json

import vlib
from vlib import Refusal, cstr, clist
from translate import pymini

RESULT = 'pedal/sandbox/result.py'
BIN = {ast.Add: 'Add', ast.Sub: 'Sub', ast.Mult: 'Mul', ast.MatMult: 'MatMul', ast.Div: 'TrueDiv', ast.FloorDiv: 'FloorDiv',
       ast.Mod: 'Mod', ast.LShift: 'LShift', ast.RShift: 'RShift', ast.BitAnd: 'And', ast.BitXor: 'Xor', ast.BitOr: 'Or'}
CMP = {ast.Eq: 'Eq', ast.NotEq: 'Ne', ast.Lt: 'Lt', ast.LtE: 'Le', ast.Gt: 'Gt', ast.GtE: 'Ge'}


def is_self_value(e):
    return ast.unparse(e) in ('self.value', 'self._actual_value')


def is_unwrapped_other(e):
    return ast.unparse(e) in ('unwrap_value(other)',)


def clone_arg(e):
    if isinstance(e, ast.Call) and ast.unparse(e.func) == 'self._clone_this_result' and len(e.args) == 1 and not e.keywords:
        return e.args[0]
    return None


def shape_of(fn):
    """classify one dunder body; Refusal for an operator dunder whose body is not one of the transparent shapes"""
    body = [s for s in fn.body if not (isinstance(s, ast.Expr) and isinstance(s.value, ast.Constant))]
    name = fn.name
    if len(body) == 1 and isinstance(body[0], ast.Return) and body[0].value is not None:
        e = body[0].value
        inner = clone_arg(e)
        cloned = inner is not None
        x = inner if cloned else e
        if isinstance(x, ast.BinOp) and type(x.op) in BIN:
            if is_self_value(x.left) and is_unwrapped_other(x.right):
                return '(SBinL %s %s)' % (BIN[type(x.op)], 'true' if cloned else 'false')
            if is_unwrapped_other(x.left) and is_self_value(x.right):
                return '(SBinR %s %s)' % (BIN[type(x.op)], 'true' if cloned else 'false')
        if isinstance(x, ast.Call) and isinstance(x.func, ast.Name) and x.func.id in ('divmod', 'pow'):
            args = [ast.unparse(a) for a in x.args]
            star = [a for a in args if a.startswith('*')]
            plain = [a for a in args if not a.startswith('*')]
            opn = 'DivMod' if x.func.id == 'divmod' else 'Pow'
            if plain == ['self.value', 'unwrap_value(other)']:
                return '(SBinL %s %s)' % (opn, 'true' if cloned else 'false')
            if plain == ['unwrap_value(other)', 'self.value']:
                return '(SBinR %s %s)' % (opn, 'true' if cloned else 'false')
        if isinstance(x, ast.UnaryOp) and is_self_value(x.operand):
            return '(SUnary %s %s)' % (cstr(type(x.op).__name__), 'true' if cloned else 'false')
        if isinstance(x, ast.Call) and len(x.args) >= 1 and is_self_value(x.args[0]) and \
                ast.unparse(x.func) in ('abs', 'int', 'float', 'complex', 'round', 'math.trunc', 'math.floor', 'math.ceil', 'hash', 'bool',
                                        'repr', 'str', 'bytes', 'format', '_original_len', 'iter', 'reversed', 'dir'):
            return '(SCall %s %s)' % (cstr(ast.unparse(x.func)), 'true' if cloned else 'false')
        if isinstance(x, ast.Compare) and len(x.ops) == 1 and isinstance(x.ops[0], ast.In) and \
                ast.unparse(x.left) == 'unwrap_value(item)' and is_self_value(x.comparators[0]):
            return 'SContains'
        if isinstance(x, ast.Subscript) and is_self_value(x.value):
            return '(SIndex %s)' % ('true' if cloned else 'false')
    # comparisons:  if isinstance(other, SandboxResult): return self.value OP other.value ; return self.value OP other
    if len(body) == 2 and isinstance(body[0], ast.If) and isinstance(body[1], ast.Return):
        t = body[0]
        if ast.unparse(t.test) == 'isinstance(other, SandboxResult)' and len(t.body) == 1 and isinstance(t.body[0], ast.Return) \
                and not t.orelse:
            a, b = t.body[0].value, body[1].value
            if isinstance(a, ast.Compare) and isinstance(b, ast.Compare) and len(a.ops) == 1 and len(b.ops) == 1 \
                    and type(a.ops[0]) is type(b.ops[0]) and type(a.ops[0]) in CMP \
                    and is_self_value(a.left) and ast.unparse(a.comparators[0]) == 'other.value' \
                    and is_self_value(b.left) and ast.unparse(b.comparators[0]) == 'other':
                return '(SCmp %s)' % CMP[type(a.ops[0])]
    return None


OPERATOR_DUNDERS = (['__%s__' % n for n in ('add', 'sub', 'mul', 'matmul', 'truediv', 'floordiv', 'mod', 'divmod', 'pow', 'lshift', 'rshift',
                                            'and', 'xor', 'or')] +
                    ['__r%s__' % n for n in ('add', 'sub', 'mul', 'matmul', 'truediv', 'floordiv', 'mod', 'divmod', 'pow', 'lshift',
                                             'rshift', 'and', 'xor', 'or')] +
                    ['__eq__', '__ne__', '__lt__', '__le__', '__gt__', '__ge__', '__neg__', '__pos__', '__abs__', '__invert__',
                     '__int__', '__float__', '__complex__', '__round__', '__trunc__', '__floor__', '__ceil__', '__hash__', '__bool__',
                     '__len__', '__contains__', '__getitem__', '__iter__', '__str__', '__repr__', '__format__'])


def gen_text():
    tree, _ = pymini.load_module(RESULT)
    cls = [n for n in tree.body if isinstance(n, ast.ClassDef) and n.name == 'SandboxResult']
    if len(cls) != 1:
        raise Refusal('class SandboxResult')
    methods = {n.name: n for n in cls[0].body if isinstance(n, ast.FunctionDef)}
    rows = []
    for name in OPERATOR_DUNDERS:
        if name not in methods:
            rows.append('(%s, SMissing)' % cstr(name))
            continue
        sh = shape_of(methods[name])
        if sh is None:
            for n in ast.walk(methods[name]):
                if isinstance(n, ast.Call) and ast.unparse(n.func) == 'print':
                    raise Refusal('%s writes to standard output (print call)' % name)
            raise Refusal('%s: body is not one of the transparent shapes: %s' % (name, ast.unparse(methods[name].body[-1])[:80]))
        rows.append('(%s, %s)' % (cstr(name), sh))
    # no dunder of the proxy may print
    for name, fn in methods.items():
        for n in ast.walk(fn):
            if isinstance(n, ast.Call) and ast.unparse(n.func) == 'print':
                raise Refusal('%s writes to standard output (print call)' % name)
    t = ('(* GENERATED from pedal/sandbox/result.py *)\nFrom Coq Require Import List String Bool.\nImport ListNotations.\n'
         'From Pedal Require Import model.C16_Proxy.\nOpen Scope string_scope.\n\n')
    t += 'Definition gen_dunders : list (string * shape) := [\n  %s\n].\n' % ';\n  '.join(rows)
    return t


def translate(ctx):
    ctx.gen('C16_Gen', gen_text)


def run(ctx):
    translate(ctx)
    ctx.coq_props()


def correspondence(ctx):
    res = vlib.run_impl('c16_impl.py', {}, timeout=900)
    ctx.evals += res['evaluations']
    for op in res['ops']:
        for c in res['classes']:
            ctx.distinct.add('%s:%s' % (op, c))
    ctx.samples.append({'ops': res['ops'][:12], 'operand_classes': res['classes'], 'placements': ['left', 'right', 'both']})
    seen = set()
    for f in res['failures']:
        # needle proxied inside a plain str haystack: `proxy in 'abc'` is str.__contains__(proxy) - the proxy is not asked
        if f['printed']:
            key = 'prints:%s' % f['op']
            why = '%s on a proxied %s wrote %r to standard output' % (f['op'], f['a'], f['printed'])
        elif f['notimplemented']:
            key = 'notimplemented:%s:%s:%s' % (f['op'], f['a'], f['b'])
            why = '%s(%s, %s) [%s] hands back NotImplemented' % (f['op'], f['va'], f['vb'], f['place'])
        elif f['op'] == 'mod' and f['a'] == 'str' and f['place'] == 'right':
            key = 'str-formatting-with-proxied-argument'
            why = None
        elif f['op'] == 'pow3' and f['place'] in ('right', 'both') and f['a'] in ('int', 'bool', 'float'):
            key = 'three-argument-pow-with-proxied-exponent'
            why = None
        elif f['op'] == 'pow3mod' and f['place'] == 'right':
            key = 'three-argument-pow-with-proxied-modulus'
            why = None
        elif f['op'] == 'contains' and f['a'] == 'str' and f['place'] == 'right':
            key = 'proxied-needle-in-plain-str'
            why = None
        elif f['op'] == 'contains' and f['a'] in ('set', 'frozenset') and f['b'] == 'set' and f['place'] == 'right':
            key = 'proxied-set-needle-in-plain-set'
            why = None
        elif f['a'] == 'card' and f['b'] == 'card' and f['place'] in ('right', 'both') and f['op'] in ('eq', 'ne', 'lt', 'gt', 'le', 'ge'):
            # Card.__eq__/__lt__ read other.value; on a proxy `.value` is the proxy's own payload slot
            key = 'proxied-object-with-a-value-attribute'
            why = None
        else:
            key = 'opaque:%s:%s:%s:%s' % (f['op'], f['a'], f['b'], f['place'])
            why = None
        if why is None:
            why = '%s(%s, %s) with the proxy %s: real value gives %s, proxy gives %s' % (f['op'], f['va'], f['vb'], f['place'], f['real'], f['proxy'])
        if key in seen:
            continue
        seen.add(key)
        ctx.count('failing-family:' + f['op'])
        ctx.violation(key, {'operation': f, 'why': why})
    unexplained = [k for k in seen if not any(kf['property'] == 'C16' and kf['key'] == k for kf in ctx.known().get('findings', []))]
    ctx.obligation('correspondence:matrix(every operation x operand class x placement behaves on the proxy as on the real value, '
                   'known findings aside)', not unexplained, '%d failing families: %s' % (len(unexplained), sorted(unexplained)[:6]))
    ctx.rule = ('exhaustive matrix: 24 binary operations (arithmetic, divmod, pow incl. 3-argument, shifts, bitwise, six comparisons, '
                'membership in a proxied container, indexing, isinstance) x 12 operand classes (int, float, bool, str, list, tuple, dict, '
                'set, None, complex, user objects with and without dunders) squared x proxy left / right / both; 25 unary operations and '
                'conversions (neg, abs, invert, int, float, complex, round, trunc, floor, ceil, len, module len, hash, bool, str, repr, '
                'format, iteration, index, sorted, sum, max) x every value; stdout captured. distinct = (operation, operand class).')


def run(ctx):  # noqa: F811
    translate(ctx)
    ctx.coq_props()
    correspondence(ctx)
