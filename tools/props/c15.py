"""C15 - captured output and mocked input record what happened, in order."""
import json

import vlib
from vlib import cz, clist, copt

HEADER = ('From Coq Require Import ZArith List Bool.\nImport ListNotations.\n'
          'From Pedal Require Import lib.PyStr model.C15_IO model.C15_Run.\nOpen Scope Z_scope.\n')
ALPHA = ['a', 'b', 'Z', '1', ' ', ' ', '\n', '\n', '\t', '\r', '\x0b', '\x0c', '\x1c', '\x1f', '\x85', '\xa0', '.', ' ', '​']


def rtext(rng, maxlen=8):
    return ''.join(rng.choice(ALPHA) for _ in range(rng.randrange(0, maxlen)))


def gen_events(rng):
    evs = []
    for _ in range(rng.choice([0, 0, 1, 1, 2, 3, 4])):
        k = rng.randrange(10)
        if k < 4:
            args = [rtext(rng, 5) for _ in range(rng.randrange(0, 3))]
            sep = rng.choice([None, None, '', '-', '\n', ' '])
            end = rng.choice([None, None, None, '', ' ', '\n\n', '!'])
            evs.append({'e': 'print', 'args': args, 'sep': sep, 'end': end})
        elif k < 5:
            evs.append({'e': 'write', 'text': rtext(rng)})
        elif k < 6:
            evs.append({'e': 'writelines', 'lines': [rtext(rng, 5) + rng.choice(['\n', '', ' ']) for _ in range(rng.randrange(0, 4))],
                        'gen': rng.random() < 0.5})
        elif k < 9:
            evs.append({'e': 'input', 'prompt': rng.choice(['', '', 'Name? ', 'x\n', '  ', rtext(rng, 4)])})
        else:
            evs.append({'e': 'printnum', 'v': rng.randrange(100)})
    end = rng.choice([None] * 8 + ['raise', 'exit', 'sysexit'])
    return evs, end


def render(evs, end, ind=''):
    """student source performing the events; returns code lines"""
    lines = ['%simport sys' % ind]
    for e in evs:
        if e['e'] == 'print':
            a = [repr(x) for x in e['args']]
            if e['sep'] is not None:
                a.append('sep=%r' % e['sep'])
            if e['end'] is not None:
                a.append('end=%r' % e['end'])
            lines.append('%sprint(%s)' % (ind, ', '.join(a)))
        elif e['e'] == 'write':
            lines.append('%ssys.stdout.write(%r)' % (ind, e['text']))
        elif e['e'] == 'writelines':
            lines.append(('%ssys.stdout.writelines(_t for _t in %r)' if e['gen'] else '%ssys.stdout.writelines(%r)') % (ind, e['lines']))
        elif e['e'] == 'input':
            lines.append('%s_v = input(%r)' % (ind, e['prompt']) if e['prompt'] != '' or True else '%s_v = input()' % ind)
        elif e['e'] == 'printnum':
            lines.append('%sprint(%d)' % (ind, e['v']))
    if end == 'raise':
        lines.append('%sraise ValueError("boom")' % ind)
    elif end == 'exit':
        lines.append('%sraise SystemExit(3)' % ind)
    elif end == 'sysexit':
        lines.append('%ssys.exit()' % ind)
    return lines


def text_events(evs):
    """the abstract events the model sees (text computed with CPython's print semantics)"""
    out = []
    for e in evs:
        if e['e'] == 'print':
            sep = ' ' if e['sep'] is None else e['sep']
            end = '\n' if e['end'] is None else e['end']
            out.append(('w', sep.join(e['args']) + end))
        elif e['e'] == 'write':
            out.append(('w', e['text']))
        elif e['e'] == 'writelines':
            out.append(('w', ''.join(e['lines'])))
        elif e['e'] == 'printnum':
            out.append(('w', '%d\n' % e['v']))
        else:
            out.append(('i', e['prompt']))
    return out


def gen_inputs(rng):
    k = rng.randrange(6)
    if k < 3:
        return None
    if k == 3:
        return []
    return [rng.choice(['5', 'abc', '', ' x ', '12']) for _ in range(rng.randrange(1, 4))]


def gen_case(rng):
    nops = rng.randrange(1, 10)
    fns = []
    ops = []
    main_evs, main_end = gen_events(rng)
    for _ in range(nops):
        k = rng.randrange(12)
        if k < 6:
            evs, end = gen_events(rng)
            how = rng.choice(['run', 'run', 'call', 'evaluate', 'runmain'])
            op = {'op': 'exec', 'how': how, 'inputs': gen_inputs(rng) if how != 'evaluate' else None}
            if how == 'runmain':
                op['evs'], op['end'] = main_evs, main_end
            elif how == 'run':
                op['evs'], op['end'] = evs, end
                op['code'] = '\n'.join(render(evs, end)) + '\n'
            else:
                name = 'fn%d' % len(fns)
                fns.append('def %s():\n%s\n    return 1\n' % (name, '\n'.join(render(evs, end, '    '))))
                op['evs'], op['end'], op['fn'] = evs, end, name
            ops.append(op)
        elif k < 7:
            ops.append({'op': 'clear_output'})
        elif k < 9:
            ops.append({'op': 'set_input', 'xs': [rng.choice(['1', 'two', '', '3.5']) for _ in range(rng.randrange(0, 4))]})
            if rng.random() < 0.4:
                ops[-1]['keep'] = True     # set_input(xs, clear=False): appended to what is queued
            if rng.random() < 0.3:
                ops[-1]['via'] = 'object'  # called on the Sandbox object rather than through pedal.sandbox.commands
        elif k < 11:
            ops.append({'op': 'queue_input', 'xs': [rng.choice(['q', '7', 'zz']) for _ in range(rng.randrange(0, 3))]})
        else:
            ops.append({'op': rng.choice(['clear_input', 'clear_input', 'clear_context'])})
    # helper functions are defined by a first silent run
    pre = []
    if fns:
        pre = [{'op': 'exec', 'how': 'run', 'inputs': None, 'evs': [], 'end': None, 'code': '\n'.join(fns)}]
    return {'main': '\n'.join(render(main_evs, main_end)) + '\n', 'ops': pre + ops, 'real_io': rng.random() < 0.25}


CORPUS = [
    {'main': 'print("a")\n', 'ops': [
        {'op': 'exec', 'how': 'runmain', 'inputs': None, 'evs': [{'e': 'print', 'args': ['a'], 'sep': None, 'end': None}], 'end': None},
        {'op': 'exec', 'how': 'run', 'inputs': None, 'evs': [], 'end': None, 'code': 'def f():\n    return 1\n'},
        {'op': 'exec', 'how': 'call', 'inputs': None, 'evs': [], 'end': None, 'fn': 'f'}]},
]


def cstr_pts(s):
    return clist([cz(ord(c)) for c in s])


def coq_op(op):
    k = op['op']
    if k == 'exec':
        evs = clist(['(Write %s)' % cstr_pts(t) if kind == 'w' else '(Input %s)' % cstr_pts(t)
                     for kind, t in text_events(op['evs'])])
        ins = op.get('inputs')
        if isinstance(ins, list):
            i = '(Some %s)' % clist([cstr_pts(x) for x in ins])
        else:
            i = 'None'
        return '(Exec %s %s)' % (i, evs)
    if k == 'clear_output':
        return 'ClearOutput'
    if k == 'set_input':
        return '(%s %s)' % ('QueueInput' if op.get('keep') else 'SetInput', clist([cstr_pts(x) for x in op['xs']]))
    if k == 'queue_input':
        return '(QueueInput %s)' % clist([cstr_pts(x) for x in op['xs']])
    if k == 'clear_context':
        return 'ClearContext'
    return 'ClearInput'


def coq_obs(o):
    return '(mkSt %s %s %s %s)' % (cstr_pts(o['raw']), clist([cstr_pts(x) for x in o['out']]),
                                   clist([cstr_pts(x) for x in o['inputs']]),
                                   clist(['(mkCtx %s %s)' % (cstr_pts(c[0]), clist([cstr_pts(x) for x in c[1]])) for c in o['ctxs']]))


# ------------------------------------------------------------------ the property, stated on observations
def oracle(case, res):
    if res['error']:
        return ('raises', 'operation raised %s' % res['error'])
    texts = []   # since last clear
    all_texts = []
    q = []
    for i, (op, o) in enumerate(zip(case['ops'], res['obs'])):
        k = op['op']
        if k == 'exec':
            if isinstance(op.get('inputs'), list):
                q = list(op['inputs'])
            text = ''
            vals = []
            for kind, t in text_events(op['evs']):
                if kind == 'w':
                    text += t
                else:
                    text += t + '\n'
                    vals.append(q.pop(0) if q else '0')
            texts.append(text)
            all_texts.append((text, vals))
        elif k == 'clear_output':
            texts = []
        elif k == 'set_input':
            q = (q if op.get('keep') else []) + list(op['xs'])
        elif k == 'queue_input':
            q = q + list(op['xs'])
        elif k == 'clear_input':
            q = []
        elif k == 'clear_context':
            all_texts = []
        want_raw = ''.join(texts)
        if o['raw'] != want_raw or o['raw_cmd'] != want_raw:
            return ('raw', 'after op %d raw output is %r, student code wrote %r' % (i, o['raw'], want_raw))
        view = []
        for t in texts:
            if t != '':
                view += [l.rstrip() for l in t.rstrip().split('\n')]
        if o['out'] != view or o['out_cmd'] != view:
            key = 'phantom-empty-line' if [x for x in o['out'] if x != ''] == [x for x in view if x != ''] and \
                len(o['out']) > len(view) and '' in o['out'] else 'view'
            return (key, 'after op %d the line view is %r, expected %r' % (i, o['out'], view))
        if o['inputs'] != q:
            return ('queue', 'after op %d the input queue is %r, expected %r' % (i, o['inputs'], q))
        got = [(c[0], c[1]) for c in o['ctxs']]
        if got != [(t, v) for t, v in all_texts]:
            return ('context', 'after op %d per-execution records are %r, expected %r' % (i, got, all_texts))
        # a record is found through its id: ids index the history, and the result of a call / evaluate leads to ITS record
        if o.get('ctx_ids') is not None and o['ctx_ids'] != list(range(len(o['ctx_ids']))):
            return ('context-ids', 'after op %d the records carry the ids %r: get_context(id) indexes the history by them' % (i, o['ctx_ids']))
        if o.get('result_lookup') is not None and o['result_lookup'] is not True:
            return ('context-lookup', 'after op %d the record of the value just returned cannot be found through the value: %s' % (i, o['result_lookup']))
    return None


def correspondence(ctx):
    rng = ctx.rng
    n = 400 if ctx.tier == 'quick' else 5000
    cases = [c for c in CORPUS] + [gen_case(rng) for _ in range(n)]
    res = vlib.run_impl('c15_impl.py', {'cases': cases})
    items = []
    idx = []
    for ci, (case, r) in enumerate(zip(cases, res)):
        nex = sum(1 for o in case['ops'] if o['op'] == 'exec')
        ctx.case(json.dumps(case, sort_keys=True), nontrivial=nex >= 2,
                 sample={'ops': [{k: v for k, v in o.items() if k not in ('code',)} for o in case['ops']],
                         'final': r['obs'][-1] if r['obs'] else None} if nex >= 2 and ci > 3 else None)
        ctx.count('ops=%d' % len(case['ops']))
        for o in case['ops']:
            ctx.count('op:' + (o['op'] if o['op'] != 'exec' else 'exec:' + o['how'] + (':' + o['end'] if o.get('end') else '')))
        if not r['stdout_restored']:
            ctx.count('stdout-left-patched')
        v = oracle(case, r)
        if v:
            ctx.violation(v[0], {'case': case, 'observed': r, 'why': v[1]})
        if r['error'] or any(o.get('_skip_model') for o in case['ops']):
            continue
        items.append('(%s, %s)' % (clist([coq_op(o) for o in case['ops']]), clist([coq_obs(o) for o in r['obs']])))
        idx.append(ci)
    bad = ctx.coq_cases('io', HEADER, items, 'check_history', chunk=80)
    for kind, i, detail in bad[:5]:
        ci = idx[i] if kind == 'mismatch' else None
        ctx.broken.append(('correspondence', 'C15:model-vs-implementation',
                           json.dumps({'case': cases[ci] if ci is not None else None, 'detail': detail})[:3000]))
    ctx.obligation('correspondence:io-history(model agrees with the sandbox after every operation)', not bad,
                   '%d disagreeing histories' % len(bad))
    ctx.rule = ('random histories of 1-10 operations (run / run main file / call / evaluate with generated student code that prints with '
                'sep/end, writes to sys.stdout, calls input with prompts, and ends normally, by raise or by SystemExit; clear_output; '
                'set_input; queue_input; clear_input; inputs= arguments incl. the empty list). Text alphabet includes the Python whitespace '
                'code points. Observed after EVERY operation: raw output, line view, queue, every per-execution record. '
                'non-trivial = at least two executions in the history.')


def translate(ctx):
    pass


def scenario_oracle(ctx):
    """whole scenarios against a plain reading of print / input"""
    r = vlib.run_impl('c15_impl.py', {'scenarios': True}, timeout=600)
    want = ''.join('Q%d>\ngot %s\n' % (i, x) for i, x in enumerate(['a', 'b', 'r', 'r']))
    ctx.case(('scenario', 'provider-with-repeat'), nontrivial=True)
    if r['provider-with-repeat']['raw'] != want or r['provider-with-repeat']['exc']:
        ctx.violation('provider-with-repeat', {'observed': r['provider-with-repeat'], 'expected': want,
                                               'why': 'set_input(make_inputs([a, b], repeat=r)) and four prompted reads: the recorded output is %r, a plain '
                                                      'simulation (every prompt on its own line, then the line printed) gives %r'
                                                      % (r['provider-with-repeat']['raw'], want)})
    ctx.case(('scenario', 'many-reads'), nontrivial=True)
    m = r['many-reads']
    if any(m['excs']) or m['results'][1] != '45000' or m['results'][2] != repr(45000 + 2):
        ctx.violation('reads-counted-across-executions', {'observed': m, 'why': 'three executions of one sandbox with 45000 reads each (run, call, evaluate after '
                                                                                'queue_input("abc")): exceptions %s, results %s' % (m['excs'], m['results'])})
    ctx.case(('scenario', 'stderr'), nontrivial=True)
    e = r['stderr']
    if e['raw'] != 'to out\nout again\n' or e['lines'] != ['to out', 'out again'] or e['exc']:
        ctx.violation('standard-error-recorded-as-output', {'observed': e, 'why': 'a program printing two lines and writing two more to sys.stderr: recorded '
                                                                                   'output %r, lines %r' % (e['raw'], e['lines'])})


def run(ctx):
    ctx.coq_props()
    correspondence(ctx)
    scenario_oracle(ctx)
