"""C11 - CAIT finds every occurrence that exists by construction."""
import ast

import vlib
import pygen
import caitgen
from props import c10


def translate(ctx):
    c10.translate(ctx)


SEQ_FIXED = [
    ('pay = bonus + rate * hours\n', ['pay = bonus + _r_ * _h_\n', 'pay = __b__ + __r__ * __h__\n', 'pay = bonus + rate * hours\n', '_p_ = _b_ + _r_ * _h_\n',
                                       'pay = ___ + ___ * ___\n']),
    ('area = (a + b) * (top + bottom)\n', ['area = (a + b) * (_t_ + _b_)\n', 'area = (_x_ + _y_) * (_t_ + _b_)\n', 'area = (__p__ + __q__) * __r__\n',
                                            'area = (a + b) * (top + bottom)\n']),
    # the same cached student tree searched several times, as an instructor script does; single-statement programs
    # have their root trimmed on every call
    ('print(total)\n', ['print(total)\n', 'print(___)\n', 'print(total)\n', '_f_(total)\n', 'print(total)\n']),
    ('x = a + b\n', ['x = a + b\n', '___ = ___ + ___\n', 'x = b + a\n', 'x = a + b\n']),
    ('for i in items:\n    total = total + i\n', ['for _i_ in ___:\n    ___ = ___ + _i_\n', 'total = total + i\n', 'for i in items:\n    total = total + i\n',
                                                     'for ___ in ___:\n    pass\n', 'for i in items:\n    total = total + i\n']),
    ('foo(1)\n', ['foo(1)\n', 'foo(___)\n', '___(1)\n', 'foo(1)\n']),
    ('class A:\n    def __init__(self):\n        super().__init__()\n        self.__x = 1\n', ['super().__init__()\n', 'self.__x = 1\n', 'self.__x = ___\n',
                                                                                               'def __init__(self):\n    pass\n']),
    ('if a:\n    x = 1\nelif b:\n    x = 2\nelse:\n    x = 3\n', ['x = 3\n', 'x = 2\n', 'if b:\n    x = 2\n', 'if a:\n    x = 1\nelse:\n    pass\n',
                                                                  'if a:\n    x = 1\nelif b:\n    x = 2\nelse:\n    x = 3\n']),
    ('def f(a, b=2, *c, **d):\n    return a\n', ['def f(a, b=2, *c, **d):\n    return a\n', 'def f(a):\n    return a\n', 'def _f_(_a_):\n    return _a_\n',
                                                   'def f(a, b=___, *c, **d):\n    return ___\n']),
    ('x = {1: a, 2: b}\ny = [i for i in x if i]\n', ['x = {1: a, 2: b}\n', 'x = {2: b}\n', 'y = [i for i in x if i]\n', 'y = [_i_ for _i_ in ___ if _i_]\n',
                                                     'x = {1: a, 2: b}\ny = [i for i in x if i]\n']),
    ('try:\n    x = 1\nexcept ValueError as e:\n    x = 2\nfinally:\n    x = 3\n', ['x = 3\n', 'x = 2\n', 'try:\n    x = 1\nexcept ValueError as e:\n    x = 2\nfinally:\n    x = 3\n',
                                                                                    'try:\n    ___\nexcept ___:\n    pass\nfinally:\n    pass\n']),
    ('while n > 0:\n    n -= 1\nelse:\n    print(n)\n', ['print(n)\n', 'n -= 1\n', 'while ___:\n    pass\nelse:\n    print(___)\n', 'while _n_ > 0:\n    _n_ -= 1\n']),
    ('with open(f) as h, g as k:\n    pass\n', ['with open(f) as h, g as k:\n    pass\n', 'with g as k:\n    pass\n', 'with open(___) as _h_:\n    pass\n']),
    ('x = f"a{b}c{d!r:>4}"\n', ['x = f"a{b}c{d!r:>4}"\n', 'x = ___\n']),
    ('lambda a, b: a + b\n', ['lambda a, b: a + b\n', 'lambda a, b: ___\n', 'lambda a, b: b + a\n', 'lambda _a_, _b_: _a_ + _b_\n']),
    ('x[1:2] = y[::2]\n', ['x[1:2] = y[::2]\n', 'x[___:___] = ___\n', 'x[1:2] = y[::___]\n', '_x_[1:2] = _y_[::2]\n']),
    ('a, b = b, a\n', ['a, b = b, a\n', '_a_, _b_ = _b_, _a_\n', 'a, b = ___\n', '___ = b, a\n']),
    # a parameter default beside the parameters, below an operator whose operands are matched without the field check
    ('y = 1 + (lambda a, b=2: a)(3)\n', ['y = 1 + (lambda a, b=2: a)(3)\n', '_y_ = 1 + (lambda _a_, b=2: _a_)(3)\n', 'y = ___ + (lambda _a_, _b_=___: _a_)(3)\n',
                                          'y = 1 + (lambda a, b=2: a)(___)\n']),
    ('y = k * (lambda a, b=k: a + b)(3)\n', ['_y_ = _k_ * (lambda _a_, _b_=_k_: _a_ + _b_)(3)\n', 'y = k * (lambda a, b=k: a + b)(3)\n']),
    ('x = not a and (b or -c)\n', ['x = not a and (b or -c)\n', 'x = not a and ___\n', 'x = ___ and (___ or ___)\n', '_x_ = not _a_ and (_b_ or -_c_)\n']),
]


RAIN = "total = 0\nfor report in reports:\n    total = total + report['Data']['Rain']\nprint(total)\n"
PAY = "total = 0\nfor r in rs:\n    total = total + (r['a'] + bonus * 2)\nprint(total)\n"
# (program, outer pattern, its expectation, the placeholder to continue below, inner pattern, its expectation)
TWO = "a = 1\nb = 2\nprint(a + b)\n"
CONT_FIXED = [
    # the expression bound is a single name other than the one _v_ stands for
    ("a = 1\nprint(b)\n", "_v_ = 1\nprint(__e__)\n", {'names': {'_v_': 'a'}, 'exps': {'__e__': 'b'}}, '__e__', "___\n", {'names': {}, 'exps': {}}),
    ("a = 1\nprint(b + a)\n", "_v_ = 1\nprint(__e__)\n", {'names': {'_v_': 'a'}, 'exps': {'__e__': 'b + a'}}, '__e__', "___ + _v_\n",
     {'names': {'_v_': 'a'}, 'exps': {}}),
    # two matches of the outer pattern (_v_ = a / _v_ = b) bind __e__ to the SAME expression a + b
    (TWO, "_v_ = ___\nprint(__e__)\n", {'names': {}, 'exps': {'__e__': 'a + b'}}, '__e__', "___ + ___\n", {'names': {}, 'exps': {}}),
    (RAIN, "for _r_ in ___:\n    total = total + __expr__\n", {'names': {'_r_': 'report'}, 'exps': {'__expr__': "report['Data']['Rain']"}},
     '__expr__', "_r_['Data'][__expr__]\n", {'names': {'_r_': 'report'}, 'exps': {'__expr__': "'Rain'"}}),
    (PAY, "for _r_ in ___:\n    total = total + __expr__\n", {'names': {'_r_': 'r'}, 'exps': {'__expr__': "r['a'] + bonus * 2"}},
     '__expr__', "__expr__ + bonus * 2\n", {'names': {}, 'exps': {'__expr__': "r['a']"}}),
    (PAY, "for _r_ in ___:\n    total = total + __expr__\n", {'names': {'_r_': 'r'}, 'exps': {'__expr__': "r['a'] + bonus * 2"}},
     '__expr__', "_r_['a'] + __expr__\n", {'names': {'_r_': 'r'}, 'exps': {'__expr__': "bonus * 2"}}),
    (PAY, "for _r_ in ___:\n    total = total + __expr__\n", {'names': {'_r_': 'r'}, 'exps': {'__expr__': "r['a'] + bonus * 2"}},
     '__expr__', "_r_[__expr__] + _b_ * 2\n", {'names': {'_r_': 'r', '_b_': 'bonus'}, 'exps': {'__expr__': "'a'"}}),
    (PAY, "for _r_ in ___:\n    total = total + __expr__\n", {'names': {'_r_': 'r'}, 'exps': {'__expr__': "r['a'] + bonus * 2"}},
     '__expr__', "_r_['a'] + __expr__ * 2\n", {'names': {'_r_': 'r'}, 'exps': {'__expr__': "bonus"}}),
]


def continuations(rng, pats, meta):
    """for derived patterns that bound an __eK__ placeholder to a compound expression: a second pattern derived from that
    expression (sub-expressions -> holes with the SAME names again, identifiers -> the same _x_ placeholders), to be searched
    continuing from the first match"""
    out = []
    for pat, (kind, exp) in zip(pats, meta):
        if kind != 'derived' or not exp or not exp.get('exps') or len(out) >= 3:
            continue
        for ph, src in exp['exps'].items():
            try:
                node = ast.parse(src, mode='eval').body
            except SyntaxError:
                continue
            if isinstance(node, (ast.Name, ast.Constant)) or pat.count(ph) != 1:
                continue
            # only expressions that are READ: an assignment target such as `(a, b)` is a different tree (Store context) from the
            # expression `(a, b)` a pattern text can express
            where = [n for n in ast.walk(ast.parse(pat)) if isinstance(n, ast.Name) and n.id == ph]
            if len(where) != 1 or not isinstance(where[0].ctx, ast.Load):
                continue
            for _ in range(4):
                try:
                    inner, iexp = caitgen.derive(rng, src + '\n', allow=('hole', 'rename'))
                except (caitgen.Refuse, SyntaxError):
                    continue
                if not (iexp['exps'] or iexp['names']) or inner.strip() in iexp['exps'] or inner.strip() == '___':
                    continue
                # the same identifier must not stand behind two different placeholder names (derive() names them after the identifier)
                out.append({'outer': pat, 'outer_exp': {'names': exp['names'], 'exps': exp['exps']}, 'ph': ph, 'inner': inner,
                            'inner_exp': {'names': iexp['names'], 'exps': iexp['exps']}})
                break
    return out


def must_match(case, pi):
    m = case.get('meta')
    return m is not None and m[pi][0] in ('derived', 'self')


def correspondence(ctx):
    rng = ctx.rng
    n = 60 if ctx.tier == 'quick' else 700
    must = ('pay = bonus + rate * hours\n', 'area = (a + b) * (top + bottom)\n', 'y = 1 + (lambda a, b=2: a)(3)\n', 'y = k * (lambda a, b=k: a + b)(3)\n')   # every pattern listed for these is derived from them
    cases = [{'program': p, 'patterns': ps,
              'meta': [('self' if q == p else ('derived' if p in must else 'fixed'), {'names': {}, 'exps': {}, 'steps': ['fixed-derivation']} if p in must else None)
                       for q in ps],
              'perturb': {str(k): list(range(0, 40, 1 + k)) for k in range(len(ps) - 1)} if j % 2 else {}}
             for j, (p, ps) in enumerate(SEQ_FIXED)]
    for k in range(n):
        twin = None
        if k % 12 == 11:
            prog, twin = caitgen.call_twins(rng)
        elif k % 6 == 5:
            prog, twin = caitgen.twin_case(rng)
        elif k % 3 == 2:
            prog = caitgen.similar_program(rng)
        else:
            g = pygen.Gen(rng, max_depth=rng.choice([1, 2, 2, 3]), full=True)
            prog = g.program(nstmts=rng.choice([1, 1, 2, 3, 4, 6]))
        pats, meta = [prog], [('self', {'names': {}, 'exps': {}, 'steps': ['whole']})]
        for p, exp in (twin or []):
            pats.append(p)
            meta.append(('derived', exp))
        for _ in range(rng.randrange(3, 8)):
            try:
                p, exp = caitgen.derive(rng, prog)
            except caitgen.Refuse:
                continue
            pats.append(p)
            meta.append(('derived', exp))
        # every statement of the program on its own
        stmts = [s for s in ast.walk(ast.parse(prog)) if isinstance(s, ast.stmt)]
        for s in rng.sample(stmts, min(2, len(stmts))):
            pats.append(ast.unparse(s) + '\n')
            meta.append(('derived', {'names': {}, 'exps': {}, 'steps': ['statement:' + type(s).__name__]}))
        if rng.random() < 0.5:
            pats.append(prog)
            meta.append(('self', {'names': {}, 'exps': {}, 'steps': ['whole-again']}))
        # the last sentence of the property for ARBITRARY patterns: q, then a generalisation of q (holes + dropped
        # siblings): if q matches, so must the generalisation
        for _ in range(rng.randrange(1, 4)):
            q = rng.choice(caitgen.HAND_PATTERNS) if rng.random() < 0.6 else caitgen.random_pattern(rng)
            try:
                gq, gexp = caitgen.derive(rng, q, allow=('hole', 'drop'))
            except (caitgen.Refuse, SyntaxError):
                continue
            pats.append(q)
            meta.append(('base', None))
            pats.append(gq)
            meta.append(('generalised', {'names': {}, 'exps': {}, 'steps': gexp['steps']}))
        perturb = {}
        if rng.random() < 0.6:
            for pi in range(len(pats) - 1):
                if rng.random() < 0.5:
                    perturb[str(pi)] = [rng.randrange(400) for _ in range(rng.randrange(1, 4))]
        # explicit programs on the same report: the program, another one, an invalid text, the first again ...
        explicit = []
        if rng.random() < 0.5:
            other = caitgen.similar_program(rng) if rng.random() < 0.5 else pygen.Gen(rng, max_depth=2, full=False).program(nstmts=2)
            try:
                op_, _ = caitgen.derive(rng, other)
            except caitgen.Refuse:
                op_ = other
            dp = pats[1] if len(pats) > 1 else prog
            seq = [(prog, dp), (other, op_), (prog, dp), ('x = = 1\n', '___ = ___\n'), (prog, dp), ('', dp), (other, dp), ('\n', op_), (other, op_), (prog, op_)]
            explicit = [list(x) for x in seq[:rng.randrange(3, len(seq) + 1)]]
        cases.append({'program': prog, 'patterns': pats, 'meta': meta, 'perturb': perturb, 'explicit': explicit,
                      'cont': continuations(rng, pats, meta)})
    for prog, outer, oexp, ph, inner, iexp in CONT_FIXED:
        cases.append({'program': prog, 'patterns': [prog], 'meta': [('self', {'names': {}, 'exps': {}, 'steps': ['whole']})], 'perturb': {}, 'explicit': [],
                      'cont': [{'outer': outer, 'outer_exp': oexp, 'ph': ph, 'inner': inner, 'inner_exp': iexp}]})
    import time as _t
    _t0 = _t.time()
    res, mism = c10.run_cases(ctx, cases, 'derived')
    slow = sorted(((r.get('seconds', 0), i) for i, r in enumerate(res)), reverse=True)[:3]
    ctx.notes.append('run_cases %.0fs; slowest cases (s, index, #continued): %s' % (_t.time() - _t0, [(a, i, len(cases[i].get('cont', []))) for a, i in slow]))
    c10.explicit_pass(ctx, cases, res)
    c10.own_report_pass(ctx, cases, res)
    for case, rec in zip(cases, res):
        for cont, one in zip(case.get('cont', []), rec.get('continued', [])):
            ctx.count('continued-searches')
            if not one.get('first'):
                ctx.count('continued-searches:first-match-not-as-derived')
                continue
            ctx.case(('continued', case['program'], cont['outer'], cont['inner']), nontrivial=True,
                     sample={'program': case['program'], 'outer': cont['outer'], 'inner': cont['inner'], 'expected': cont['inner_exp'],
                             'below': one.get('below')} if len(case['program']) < 200 else None)
            for pm in one.get('per_match', []):
                if pm.get('conflict'):
                    continue      # a C10 probe: nothing has to match
                ctx.count('continued-searches:per-match')
                if isinstance(pm['got'], str) or [pm['identifier']] not in pm['got']:
                    ctx.violation('continued-search-wrong-binding',
                                  {'program': case['program'], 'outer_pattern': cont['outer'], 'continue_below': cont['ph'], 'match_index': pm['match'],
                                   'inner_pattern': pm['inner'], 'expected': {pm['placeholder']: pm['identifier']}, 'observed': pm['got'],
                                   'why': 'match #%d of the outer pattern binds %s to %s; continuing below what it bound %s to, with that expression as '
                                          'pattern (%s in place of %s), no match binds %s to %s: %s'
                                          % (pm['match'], pm['placeholder'], pm['identifier'], cont['ph'], pm['placeholder'], pm['identifier'],
                                             pm['placeholder'], pm['identifier'], pm['got'])})
            iexp = cont['inner_exp']
            for route in ('below', 'below-again', 'use_previous'):
                got = one.get(route, {})
                replay = {'program': case['program'], 'outer_pattern': cont['outer'], 'continue_below': cont['ph'], 'inner_pattern': cont['inner'],
                          'route': route, 'expected': iexp, 'observed': got}
                if 'crash' in got:
                    replay['why'] = 'the continued search raised %s' % got['crash']
                    ctx.violation('continued-search-raises', replay)
                    continue
                ok = any(all(b['names'].get(ph) == [orig] for ph, orig in iexp['names'].items() if ph in cont['inner']) and
                         all(b['exps'].get(ph) == src for ph, src in iexp['exps'].items()) for b in got.get('bindings', []))
                if not ok:
                    replay['why'] = ('the inner pattern was derived from the expression %s was bound to, but continuing from that match (%s) no match '
                                     'binds its placeholders to what they replaced: expected %s, got %s'
                                     % (cont['ph'], route, iexp, [{'names': {k: v for k, v in b['names'].items() if k in cont['inner']}, 'exps': b['exps']}
                                                                  for b in got.get('bindings', [])][:3]))
                    ctx.violation('continued-search-wrong-binding' if got.get('bindings') else 'continued-search-not-found', replay)
        if 'student' not in rec:
            continue
        if rec.get('fields_before') != rec.get('fields_after'):
            diff = [(k, a, b) for k, (a, b) in enumerate(zip(rec['fields_before'], rec['fields_after'])) if a != b]
            ctx.violation('student-tree-changed-by-search', {'program': case['program'], 'patterns': case['patterns'],
                                                             'why': 'after the searches the cached student tree has other parent-field labels than before: %s' % diff[:3]})
        for pi, (pat, run) in enumerate(zip(case['patterns'], rec['runs'])):
            if run['crash'] is not None:
                continue
            kind, exp = case['meta'][pi]
            ctx.case((case['program'], pat, pi), nontrivial=kind in ('derived', 'self') and bool(run['matches']),
                     sample={'program': case['program'], 'pattern': pat, 'expected': exp, 'bindings': run['bindings'][:1]}
                     if exp and (exp.get('names') or exp.get('exps')) and len(case['program']) < 160 else None)
            ctx.count('pattern:' + kind)
            if exp:
                for s in exp.get('steps', []):
                    ctx.count('step:' + s.split(':')[0])
            if kind == 'generalised' and pi > 0 and case['meta'][pi - 1][0] == 'base':
                prev = rec['runs'][pi - 1]
                if prev['crash'] is None and prev['matches'] and not run['matches']:
                    ctx.violation('generalisation-lost-the-match',
                                  {'program': case['program'], 'patterns': case['patterns'][:pi + 1], 'pattern': pat, 'base_pattern': case['patterns'][pi - 1],
                                   'why': 'pattern %r matches (%d) but its generalisation %r (%s) does not'
                                          % (case['patterns'][pi - 1], len(prev['matches']), pat, ', '.join(exp['steps']))})
                if prev['crash'] is None and prev['matches']:
                    ctx.count('generalised-after-a-match')
            if kind not in ('derived', 'self'):
                continue
            replay = {'program': case['program'], 'patterns': case['patterns'][:pi + 1], 'pattern': pat, 'derivation': exp}
            if not run['matches']:
                replay['why'] = ('the pattern was derived from the program (%s) but find_matches returned no match%s'
                                 % (', '.join(exp['steps']) if exp else 'the program itself',
                                    ' (call %d on the same student tree)' % (pi + 1) if pi else ''))
                ctx.violation('derived-pattern-not-found:' + (exp['steps'][0].split(':')[0] if exp and exp.get('steps') else 'self'), replay)
                continue
            if exp and (exp.get('names') or exp.get('exps')):
                ok = False
                for b in run['bindings']:
                    if all(b['names'].get(ph) == [orig] for ph, orig in exp['names'].items() if ph in pat) and \
                            all(b['exps'].get(ph) == src for ph, src in exp['exps'].items()):
                        ok = True
                        break
                if not ok:
                    replay['why'] = 'no match binds the placeholders to what they replaced: expected %s, got %s' % (
                        {'names': exp['names'], 'exps': exp['exps']}, run['bindings'][:3])
                    replay['bindings'] = run['bindings'][:5]
                    ctx.violation('derived-pattern-wrong-binding', replay)
    ctx.rule = ('generated programs (tools/pygen.py, 1-6 top-level statements, nesting up to 3) x patterns derived from them: the whole program, '
                'single statements at any depth, sibling statements dropped in any block, 1-3 sub-expressions replaced by ___ / __eK__, 1-3 '
                'identifiers consistently replaced by _v_ placeholders (optionally also as parameter / def name); the patterns of one program '
                'run in sequence against the same cached student tree (4-12 calls), the program itself first and sometimes again last; plus %d '
                'fixed sequences. Checked: at least one match, one match binding every placeholder to what it replaced, the student tree '
                'unchanged by the searches, and the full result lists equal to the Coq model. non-trivial = a derived pattern that matched.'
                % len(SEQ_FIXED))


def run(ctx):
    translate(ctx)
    ctx.coq_props()
    correspondence(ctx)
