"""C08 - static ensure_*/prevent_* checks agree with the syntax tree."""
import json
import os

import vlib
from vlib import cz, cstr, clist, copt, cbool, cpts
from translate import pymini, tables

OPS = 'pedal/utilities/operators.py'
STATIC = 'pedal/assertions/static.py'


def gen_text():
    t = pymini.HEADER
    for name in ('COMPARE_OP_NAMES', 'BOOL_OP_NAMES', 'BIN_OP_NAMES', 'UNARY_OP_NAMES'):
        t += tables.coq_assoc('gen_' + name, tables.str_dict(OPS, name)) + '\n'
    t += pymini.function(STATIC, 'EnsureAssertionFeedback._check_usage', 'gen_ensure_check_usage',
                         atoms={'len(uses)': 'n_uses'}) + '\n'
    t += pymini.function(STATIC, 'PreventAssertionFeedback._check_usage', 'gen_prevent_check_usage',
                         atoms={'len(uses)': 'n_uses'}) + '\n'
    return t


def translate(ctx):
    ctx.gen('C08_Gen', gen_text)


def run(ctx):
    translate(ctx)
    ctx.coq_props()


# ---------------------------------------------------------------- correspondence
SYMS = ['==', '!=', '<', '<=', '>', '>=', 'is', 'is not', 'in', 'not in', 'and', 'or',
        '+', '-', '*', '/', '//', '%', '**', '>>', '<<', '|', '^', '&', '@', 'not', '~']
KINDS = ['Assign', 'If', 'For', 'While', 'Call', 'Name', 'BinOp', 'Compare', 'Constant', 'Num', 'Str', 'Bool',
         'FunctionDef', 'Return', 'Import', 'ImportFrom', 'List', 'Dict', 'Attribute', 'AugAssign', 'Expr',
         'BoolOp', 'UnaryOp', 'Lambda', 'ListComp', 'Try', 'With', 'Pass', 'Subscript', 'keyword', 'Global']
CPY_HEADER = ('From Coq Require Import ZArith List String Bool.\nImport ListNotations.\n'
              'From Pedal Require Import lib.PyMini lib.Assoc model.C08_Static model.C08_Run.\n'
              'Open Scope string_scope.\nOpen Scope list_scope.\n')


def coq_lit(c):
    if c is None:
        return 'LNone'
    if c[0] == 'none':
        return 'LNone'
    if c[0] == 'bool':
        return '(LBool %s)' % cbool(c[1])
    if c[0] == 'int':
        return '(LInt %s)' % cz(c[1])
    if c[0] == 'float':
        return '(LFloat %s)' % cstr(c[1])
    if c[0] == 'str':
        return '(LStr %s)' % cpts(c[1])
    return 'LOther'


def coq_tree(t):
    kids = clist(['(%s, %s)' % (cstr(f), coq_tree(k)) for f, k in t['kids']])
    return '(Node %s %s %s %s %s %s)' % (cstr(t['k']), cz(t['u']), cz(t['l']),
                                         copt(cstr(t['n']) if t['n'] is not None else None),
                                         coq_lit(t['c']), kids)


def coq_query(q):
    k, a = q['kind'], q['arg']
    if k == 'op':
        return '(QOp %s)' % cstr(a)
    if k == 'call':
        return '(QCall %s)' % cstr(a)
    if k == 'ast':
        return '(QAst %s)' % cstr(a)
    if k == 'lit':
        return '(QLit %s)' % coq_lit(a)
    if k == 'littype':
        return '(QLitType %s)' % cstr(a)
    return '(QImport %s)' % cstr(a)


def gen_queries(rng, src, tier):
    import pygen
    qs = []
    nq = 10 if tier == 'quick' else 16
    for _ in range(nq):
        k = rng.choice(['op'] * 5 + ['call'] * 2 + ['ast'] * 2 + ['lit'] * 2 + ['littype', 'import'])
        if k == 'op':
            a = rng.choice(SYMS)
        elif k == 'call':
            a = rng.choice(pygen.FUNCS + pygen.ATTRS)
        elif k == 'ast':
            a = rng.choice(KINDS)
        elif k == 'lit':
            a = rng.choice([['int', rng.choice(pygen.INTS)], ['str', rng.choice(pygen.STRS)],
                            ['bool', rng.choice([True, False])], ['float', rng.choice(pygen.FLOATS)]])
        elif k == 'littype':
            a = rng.choice(['bool', 'str', 'int', 'float', 'list', 'dict'])
        else:
            # module names, and names that only occur as imported members / aliases (never modules)
            a = rng.choice(pygen.MODS + ['sys'] + (['sqrt', 'a', 'b', 'path', 'p', 'm'] if rng.random() < 0.5 else []))
        q = {'kind': k, 'arg': a, 'n': rng.randrange(0, 5), 'm': rng.randrange(0, 5)}
        if rng.random() < 0.25:
            # history: another program is parsed in the same report between two queries of the main code
            q['distract'] = pygen.Gen(rng, max_depth=2).program(2)
        qs.append(q)
    return qs


def oracle_uses(src, q, livesyms):
    """Independent of pedal: what a plain ast.walk of CPython's tree finds. Returns list of lines."""
    import ast
    tree = ast.parse(src)
    k, a = q['kind'], q['arg']
    hits = []
    for n in ast.walk(tree):
        if k == 'op':
            cls = livesyms.get(a)
            if isinstance(n, ast.Compare):
                hits += [n.lineno for o in n.ops if type(o).__name__ == cls]
            elif isinstance(n, (ast.BinOp, ast.BoolOp, ast.UnaryOp)) and type(n.op).__name__ == cls:
                hits.append(n.lineno)
        elif k == 'call':
            if isinstance(n, ast.Call) and ((isinstance(n.func, ast.Name) and n.func.id == a) or
                                            (isinstance(n.func, ast.Attribute) and n.func.attr == a)):
                hits.append(n.lineno)
        elif k == 'ast':
            if a in ('Num', 'Str', 'Bool'):
                if isinstance(n, ast.Constant):
                    v = n.value
                    if (a == 'Bool' and isinstance(v, bool)) or (a == 'Str' and isinstance(v, str)) or \
                            (a == 'Num' and isinstance(v, (int, float)) and not isinstance(v, bool)):
                        hits.append(n.lineno)
            elif type(n).__name__ == a:
                hits.append(getattr(n, 'lineno', 0))
        elif k == 'lit':
            val = a[1] if a[0] != 'float' else float(a[1])
            if isinstance(n, ast.Constant) and type(n.value) is type(val) and n.value == val:
                hits.append(n.lineno)
        elif k == 'littype':
            ty = {'bool': bool, 'str': str, 'int': int, 'float': float}.get(a)
            if ty is not None:
                if isinstance(n, ast.Constant) and type(n.value) is ty:
                    hits.append(n.lineno)
            elif (a == 'list' and isinstance(n, ast.List)) or (a == 'dict' and isinstance(n, ast.Dict)):
                hits.append(n.lineno)
        elif k == 'import':
            if isinstance(n, ast.Import) and any(al.name == a for al in n.names):
                hits.append(n.lineno)
            if isinstance(n, ast.ImportFrom) and n.module == a:
                hits.append(n.lineno)
    return hits


def finding_key(q):
    a = q['arg']
    if q['kind'] == 'lit':
        a = '%s:%r' % (a[0], a[1])
    return '%s:%s' % (q['kind'], a)


def check_oracle(ctx, src, q, r, livesyms):
    """The property stated directly on the real implementation's answers."""
    if 'error' in r:
        return 'raised ' + r['error']
    hits = oracle_uses(src, q, livesyms)
    c = len(hits)
    if q['kind'] == 'import':
        if r['ens'] != (c == 0):
            return 'ensure_import fired=%s but %d matching imports' % (r['ens'], c)
        if r['prev'] != (c > 0):
            return 'prevent_import fired=%s but %d matching imports' % (r['prev'], c)
        return None
    if r['ens'] != (c < q['n']):
        return 'ensure(at_least=%d) fired=%s but a plain walk finds %d occurrences' % (q['n'], r['ens'], c)
    if r['prev'] != (c > q['m']):
        return 'prevent(at_most=%d) fired=%s but a plain walk finds %d occurrences' % (q['m'], r['prev'], c)
    if r['uids'] is not None and sorted(r['lines']) != sorted(hits):
        return 'find_* returned nodes on lines %s, a plain walk finds lines %s' % (sorted(r['lines']), sorted(hits))
    if r['prev'] and r['line'] not in hits:
        return 'reported line %s is not the line of an occurrence %s' % (r['line'], hits)
    if r['ens'] != r['ens_listed'] or r['prev'] != r['prev_listed']:
        return 'truth value and presence in report.feedback differ'
    return None


def correspondence(ctx):
    import pygen
    rng = ctx.rng
    nprog = 150 if ctx.tier == 'quick' else 1500
    g = pygen.Gen(rng, max_depth=3)
    progs = []
    # fixed corpus first: every symbol once in a one-line program, exact thresholds
    for sym in SYMS:
        src = ('x = %s a\n' % sym) if sym in ('not', '~') else ('x = a %s b\ny = a %s b %s c\n' % (sym, sym, sym))
        progs.append({'src': src, 'queries': [{'kind': 'op', 'arg': sym, 'n': n, 'm': m}
                                               for n, m in ((0, 0), (1, 1), (2, 2), (3, 3), (4, 4))]})
    progs.append({'src': 'import os.path, math\nfrom json import *\nfrom math import sqrt\nfrom json import loads as j\nx = -5\ny = [True, 1, 1.0, "1"]\nprint(print(1), a.print(2))\n',
                  'queries': [{'kind': 'import', 'arg': a, 'n': 1, 'm': 0} for a in ('os', 'os.path', 'math', 'json', 'sys', 'path', 'sqrt', 'loads', 'j')] +
                             [{'kind': 'lit', 'arg': a, 'n': 1, 'm': 0} for a in (['int', 1], ['bool', True], ['float', '1.0'], ['str', '1'], ['int', 5])] +
                             [{'kind': 'littype', 'arg': a, 'n': 2, 'm': 1} for a in ('bool', 'str', 'int', 'float', 'list', 'dict')] +
                             [{'kind': 'call', 'arg': 'print', 'n': n, 'm': n} for n in (2, 3, 4)]})
    # literals in list-valued fields whose FIRST entry is not a node: a dict display starting with an unpacking, keyword-only
    # defaults after a required keyword-only parameter, a call with *args first
    progs.append({'src': 'base = {"k": 0}\nopts = {**base, "mode": 7, "deep": [2.5, "in"]}\ndef connect(*, port, retries=3, host="localhost"):\n    return port\n'
                         'print(connect(port=80), *[1], 9)\n',
                  'queries': [{'kind': 'lit', 'arg': a, 'n': 1, 'm': 0} for a in (['str', 'mode'], ['int', 7], ['int', 3], ['str', 'localhost'], ['float', '2.5'],
                                                                                  ['str', 'in'], ['int', 80], ['int', 9], ['str', 'k'], ['int', 42])] +
                             [{'kind': 'littype', 'arg': a, 'n': 1, 'm': 0} for a in ('dict', 'list', 'str', 'int', 'float')] +
                             [{'kind': 'call', 'arg': 'connect', 'n': 1, 'm': 0}, {'kind': 'call', 'arg': 'print', 'n': 1, 'm': 1}]})
    for _ in range(nprog):
        src = g.program()
        progs.append({'src': src, 'queries': gen_queries(rng, src, ctx.tier)})
    # explicit other code on the same report
    for k, pr in enumerate(progs):
        if k % 4 in (0, 2):
            # another program - or the submission itself behind three blank lines: a different text with other line numbers
            pr['other'] = progs[(k + 7) % len(progs)]['src'] if k % 4 == 0 else '\n\n\n' + pr['src']
            pr['other_queries'] = [['ast', a] for a in ('For', 'Call', 'Assign', 'If', 'BinOp', 'Name')] + \
                                  [['op', o] for o in ('+', '==', '<=', 'and', 'not')] + [['call', c] for c in ('print', 'len', 'foo')]
    res = vlib.run_impl('c08_impl.py', {'programs': progs, 'symbols': SYMS})
    for pr, r in zip(progs, res['programs']):
        for (kind, arg), rec in zip(pr.get('other_queries', []), r.get('other', [])):
            ctx.count('query-on-other-code')
            if rec.get('history') != rec.get('fresh'):
                ctx.violation('other-code-query-depends-on-report-history',
                              {'submission': pr['src'], 'other': pr['other'], 'query': [kind, arg], 'observed': rec,
                               'why': 'after verify() of the submission, the %s query %r about OTHER code finds lines %s; on a fresh report the same '
                                      'query about the same code finds lines %s' % (kind, arg, rec.get('history'), rec.get('fresh'))})
    livesyms = res['symbols']
    # (a) the CPython specification table of the model vs the live interpreter
    bad = ctx.coq_cases('cpytable', CPY_HEADER,
                        ['(%s, %s)' % (cstr(s), cstr(c)) for s, c in sorted(livesyms.items()) if c],
                        'check_cpy')
    ctx.obligation('spec-table:cpy_class-matches-live-ast', not bad, str(bad))
    # (b) oracle on the real implementation, (c) model vs implementation
    items = []
    index = []
    for pi, (prog, out) in enumerate(zip(progs, res['programs'])):
        exps = []
        for q, r in zip(prog['queries'], out['results']):
            ctx.count('query:' + q['kind'])
            msg = check_oracle(ctx, prog['src'], q, r, livesyms)
            nontriv = 'error' not in r and (r.get('ens') is False or r.get('prev') is True)
            ctx.case((prog['src'], finding_key(q), q['n'], q['m']), nontrivial=nontriv,
                     sample={'src': prog['src'], 'query': q, 'impl': r} if nontriv else None)
            if msg:
                ctx.violation(finding_key(q), {'source': prog['src'], 'query': q, 'observed': r, 'why': msg,
                                                'replay': 'contextualize_report(source); ensure_*/prevent_* as in query'})
                continue
            if 'error' in r:
                continue
            uids = r['uids']
            if uids is None:
                # literal/import queries: occurrences are not exposed by the API; the model's own
                # occurrences are compared through count and line only
                uids_t = None
            exps.append((q, r))
        items.append((prog, out, exps))
    coq_items = []
    for prog, out, exps in items:
        es = []
        for q, r in exps:
            uids = r['uids']
            line = r['line'] if r['prev'] else None
            es.append((q, r, uids, line))
        coq_items.append((out['tree'], es))
    terms = []
    for tree, es in coq_items:
        ets = []
        for q, r, uids, line in es:
            ets.append('(%s, %s, %s, Some %s, Some %s, %s, %s)' % (
                coq_query(q), cz(q['n']), cz(q['m']), cbool(r['ens']), cbool(r['prev']),
                'U' if uids is None else clist([cz(u) for u in uids]),
                'L' if not r['prev'] else copt(cz(line) if line is not None else None)))
        terms.append((tree, ets))
    # uids/line placeholders: expectations without exposed occurrences use the model's own value
    final = []
    for tree, ets in terms:
        final.append('(let t := %s in (t, %s))' % (coq_tree(tree), clist(ets)))
    header = CPY_HEADER + (
        'Notation U := (@nil Z) (only parsing).\n')
    # handle the placeholders by rewriting into a relaxed checker
    final = [f.replace(', U, ', ', [(-1)%Z], ').replace(', L)', ', Some (-1)%Z)') for f in final]
    header += ('Definition relax (t : node) (e : expect) : bool :=\n'
               "  let '(q, n, m, ens, prev, uids, line) := e in\n"
               "  let '(ens', prev', uids', line') := run_query q n m t in\n"
               '  ob_eqb ens ens\' && ob_eqb prev prev\' &&\n'
               '  (match uids with [(-1)%Z] => true | _ => zs_eqb uids uids\' end) &&\n'
               '  (match line with Some (-1)%Z => true | _ => oz_eqb line (if prev\' then line\' else None) end).\n'
               'Definition check_case_relaxed (c : node * list expect) : bool :=\n'
               '  wf_tree (fst c) && forallb (relax (fst c)) (snd c).\n')
    bad = ctx.coq_cases('static', header, final, 'check_case_relaxed', chunk=60)
    for kind, i, detail in bad:
        prog, out, exps = items[i] if kind == 'mismatch' else (None, None, None)
        ctx.broken.append(('correspondence', 'C08:model-vs-implementation',
                           json.dumps({'source': prog['src'] if prog else None, 'detail': detail,
                                       'queries': [q for q, _ in (exps or [])]})[:3000]))
    ctx.obligation('correspondence:static:model-agrees-with-implementation', not bad,
                   '%d disagreeing programs' % len(bad))
    ctx.rule = ('grammar-generated programs (pygen, every statement/expression kind) x queries over all documented operator '
                'symbols, call names, AST kinds, literals, literal types and modules x thresholds 0..4; plus a fixed corpus with '
                'every symbol at every threshold around its true count. non-trivial = ensure silent or prevent fired '
                '(the queried construct occurs). distinct = distinct (program, query, thresholds).')


def run(ctx):
    translate(ctx)
    ctx.coq_props()
    correspondence(ctx)
