"""C20 - each feedback call is recorded once, truthfully, and rendered from its fields."""
import itertools
import json

import vlib
from vlib import cz, cstr, clist, copt, cbool, cnat
from translate import pymini, tables

HEADER = ('From Coq Require Import ZArith List String Bool Arith.\nImport ListNotations.\n'
          'From Pedal Require Import model.C20_Feedback gen.C20_Gen model.C20_Run.\n'
          'Open Scope string_scope.\nOpen Scope list_scope.\n')


def gen_text():
    t = ('(* GENERATED from pedal/core/formatting.py *)\nFrom Coq Require Import List String.\nImport ListNotations.\n'
         'Open Scope string_scope.\n')
    t += tables.coq_strlist('gen_available', tables.str_list('pedal/core/formatting.py', 'available', cls='Formatter'))
    return t


def translate(ctx):
    ctx.gen('C20_Gen', gen_text)


RENDER = {'explicit': 'RExplicit', 'template_ok': 'RTemplateOk', 'template_raises': 'RTemplateRaises', 'neither': 'RNeither'}
STATUS = {'active': 'Active', 'inactive': 'Inactive', 'error': 'Error', 'delayed': 'Delayed'}


def classify_message(m):
    if m is None:
        return None
    if m == 'explicit message' or m == 'explicit else':
        return 'RExplicit'
    if m in ('T:val', 'E:val', 'T:<<val>>', 'E:<<val>>'):
        return 'RTemplateOk'
    if m == 'No feedback message provided':
        return 'RNeither'
    return 'UNKNOWN:' + repr(m)


def coq_created(snap, raised, spec, met_expected_else):
    # message source: for an untriggered feedback with no else message the message is None = Some RNeither of the else
    src = classify_message(snap['message'])
    if snap['status'] in ('delayed', 'error'):
        src_t = 'None'
    elif src is None:
        if snap['status'] == 'inactive':
            src_t = '(Some RNeither)'
        else:
            src_t = 'None'
    else:
        src_t = '(Some %s)' % src
    return '(mkCreated %s %s %s %s %s %s)' % (STATUS[snap['status']], cbool(snap['bool']), cnat(snap['active']),
                                              cnat(snap['ignored']), cbool(raised is not None), src_t)


def creation_specs():
    conds = ['True', '1', 'str', 'list', 'False', '0', 'None', 'empty', 'emptylist', 'raises']
    out = []
    for cond, msg, els, just, delay, rep in itertools.product(
            conds, RENDER, RENDER, [False, True], [False, True], ['main', 'other']):
        out.append({'cond': cond, 'msg': msg, 'else': els, 'just_raises': just, 'delay': delay, 'report': rep})
    # the activate keyword: it decides the outcome of a class WITHOUT its own condition and plays no part for one with its own
    for cond, msg, els, delay in itertools.product(conds, RENDER, RENDER, [False, True]):
        out.append({'cond': cond, 'msg': msg, 'else': els, 'just_raises': False, 'delay': delay, 'report': 'main', 'activate': False})
    for act, msg, els, delay, rep in itertools.product([True, False, None], RENDER, RENDER, [False, True], ['main', 'other']):
        out.append({'cond': 'default', 'msg': msg, 'else': els, 'just_raises': False, 'delay': delay, 'report': rep, 'activate': act})
    return out


def outcome(s):
    """what the condition of the spec evaluates to (None: it raises)"""
    if s['cond'] == 'raises':
        return None
    if s['cond'] == 'default':
        return s.get('activate') is not False
    return s['cond'] in ('True', '1', 'str', 'list')


def coq_spec(s):
    c = {None: 'CRaises', True: 'CTruthy', False: 'CFalsy'}[outcome(s)]
    return '(mkSpec %s %s %s %s %s %s)' % (cbool(s['delay']), c, cbool(s['just_raises']), RENDER[s['msg']], RENDER[s['else']],
                                           cbool(s['report'] != 'none'))


def oracle_creation(s, r):
    """C20 stated directly on the real object."""
    if r.get('lost'):
        return None
    truthy = outcome(s) is True
    snap = r['after_handle'] if s['delay'] else r['after_init']
    raised = r['raised_on_handle'] if s['delay'] else r['raised']
    if s['delay']:
        a = r['after_init']
        if a['active'] or a['ignored'] or a['bool'] or r['raised']:
            return ('delayed-recorded', 'a delayed feedback was recorded or truthy before being handled: %s' % a)
    has_report = s['report'] != 'none'
    total = snap['active'] + snap['ignored']
    if has_report and total != 1:
        return ('not-exactly-once', 'feedback object recorded %d times (active=%d ignored=%d)' % (total, snap['active'], snap['ignored']))
    if snap['wrong_report']:
        return ('wrong-report', 'feedback recorded in a report it was not created for')
    render_fails = s['just_raises'] or (truthy and s['msg'] == 'template_raises') or \
        (not truthy and s['cond'] != 'raises' and s['else'] == 'template_raises')
    if s['cond'] == 'raises' or render_fails:
        if not raised:
            return ('error-swallowed', 'condition/message raised but the constructor returned normally')
        if has_report and (snap['active'] != 0 or snap['ignored'] != 1):
            return ('error-not-untriggered', 'erroring feedback is not in the untriggered list: %s' % snap)
        if snap['status'] != 'error' or snap['bool']:
            return ('error-status', 'erroring feedback has status %s, bool %s' % (snap['status'], snap['bool']))
        return None
    if raised:
        return ('spurious-raise', 'constructor raised %s although nothing fails' % raised)
    if snap['bool'] != truthy:
        return ('truth-value', 'bool(feedback)=%s but the condition outcome is %s' % (snap['bool'], s['cond']))
    if has_report and (snap['active'] == 1) != truthy:
        return ('wrong-list', 'condition %s but active=%d ignored=%d' % (s['cond'], snap['active'], snap['ignored']))
    if truthy:
        want = {'explicit': 'explicit message', 'template_ok': 'T:val' if s['report'] == 'main' else 'T:<<val>>',
                'neither': 'No feedback message provided'}[s['msg']]
        if snap['message'] != want:
            return ('message', 'message is %r, expected %r' % (snap['message'], want))
    return None


def correspondence(ctx):
    rng = ctx.rng
    specs = creation_specs()
    fmts_extra = ['', 'junk', '>10', '>12:name', '<8:filename', 'linename', 'python_code', 'xpython_value', ':name', 'name:',
                  '^9:line', 'exceptionx', 'table_', 'in:puts', '>14:python_expression']
    n_hist = 300 if ctx.tier == 'quick' else 4000
    pool = ['A!', 'B!', None, True, 'zz', 'high']
    hists = [[['override', 1, [[0, 'A!']]], ['override', 2, [[0, 'B!']]], ['clear']],   # the known shape
             [['override', 1, [[0, 'A!']]], ['override', 1, [[0, 'B!']]], ['clear']],
             [['override', 2, [[0, 'A!']]], ['override', 4, [[0, 'B!']]], ['clear']],     # two classes of one name
             [['override', 4, [[3, False]], 1], ['override', 2, [[1, 'zz']], 1], ['contextualize', 1]],
             [['override', 3, [[0, 'x'], [2, 'high']]], ['contextualize'], ['override', 3, [[0, 'y']]], ['clear']],
             # several reports (an override names its report as 4th item, a clear as 2nd; 0 = MAIN_REPORT)
             [['override', 1, [[0, 'A!']], 0], ['override', 1, [[0, 'B!']], 1], ['clear', 1], ['clear', 0]],
             [['override', 1, [[0, 'A!']], 1], ['override', 2, [[1, 'B!']], 2], ['clear', 2], ['contextualize', 1]],
             [['override', 2, [[0, 'A!']], 1], ['clear', 0], ['override', 2, [[0, 'B!']], 0], ['clear', 0], ['clear', 1]],
             # the same Submission object attached twice
             [['contextualize_same', 0], ['override', 1, [[0, 'A!']], 0], ['contextualize_same', 0]],
             [['contextualize_same', 1], ['override', 3, [[2, 'high']], 1], ['contextualize_same', 1], ['override', 3, [[0, 'z']], 1], ['contextualize_same', 1]]]
    for hn in range(n_hist):
        h = []
        nrep = 1 if hn % 2 == 0 else rng.randrange(2, 4)
        for _ in range(rng.randrange(1, 9)):
            k = rng.randrange(10)
            if k < 7:
                fs = rng.sample(range(4), rng.randrange(1, 3))
                h.append(['override', rng.randrange(0, 5), [[f, rng.choice(pool)] for f in fs], rng.randrange(nrep)])
            elif k < 9:
                h.append(['clear', rng.randrange(nrep)])
            else:
                h.append([rng.choice(['contextualize', 'contextualize_same']), rng.randrange(nrep)])
        if h[-1][0] == 'override' and rng.random() < 0.8:
            h.append(['clear', h[-1][3]])
        hists.append(h)
    # the same class created several times in one grading (keywords, constant_fields, locations differ per call)
    reps = []
    for constant in (False, True):
        reps.append({'constant': constant, 'calls': [{'x': 'one', 'line': 2}, {'x': 'two', 'line': 4}, {'x': None, 'line': 5}]})
        reps.append({'constant': constant, 'calls': [{'x': 'one'}, {'x': None}, {'x': 'two', 'line': 3}]})
        reps.append({'constant': constant, 'calls': [{'x': 'one', 'fields': True, 'line': 1}, {'x': 'two', 'line': 2}, {'x': 'three', 'fields': True}]})
        for _ in range(6 if ctx.tier == 'quick' else 60):
            reps.append({'constant': constant,
                         'calls': [{'x': rng.choice(['one', 'two', 'v', None, None]), 'line': rng.choice([None, 1, 2, 3, 4, 5]),
                                    'fields': rng.random() < 0.25} for _ in range(rng.randrange(2, 6))]})
    res = vlib.run_impl('c20_impl.py', {'creation': specs, 'formatting': [], 'overrides': hists, 'repeated': reps})
    for sp, problems in zip(reps, res['repeated']):
        ctx.case(('repeated', json.dumps(sp, sort_keys=True)), nontrivial=True)
        ctx.count('repeated:' + ('constant_fields' if sp['constant'] else 'plain'))
        if problems:
            ctx.violation('repeated-calls:' + ('constant_fields' if sp['constant'] else 'plain'),
                          {'spec': sp, 'problems': problems, 'why': 'the same feedback class created several times: ' + '; '.join(problems[:3])})
    available = res['available']
    fspecs = list(available) + ['>10:' + a for a in available] + fmts_extra + [a + 's' for a in available]
    res2 = vlib.run_impl('c20_impl.py', {'creation': [], 'formatting': fspecs, 'overrides': [], 'typed': True})
    for r in res2.get('parents', []):
        ctx.case(('parent', r['cond'], r['parent']), nontrivial=True)
        truthy = r['cond'] in ('True', '1', 'str', 'list')
        want = (1, 0) if truthy else (0, 1)
        if r['cond'] == 'raises':
            ok = r['raised'] is not None and r['raised'].startswith('RuntimeError') and (r['in_triggered'], r['in_untriggered']) == (0, 1)
        else:
            ok = r['raised'] is None and (r['in_triggered'], r['in_untriggered']) == want
        if not ok:
            ctx.violation('create-with-named-parent:%s' % ('triggered' if truthy else 'untriggered' if r['cond'] != 'raises' else 'error'),
                          {'observed': r, 'why': 'a feedback whose condition is %s created with parent=%s: raised=%s, in triggered list %d time(s), '
                                                 'in untriggered list %d time(s)' % (r['cond'], r['parent'], r['raised'], r['in_triggered'], r['in_untriggered'])})
    for r in res2.get('formatting_typed', []):
        ctx.case(('typed-format', r['template']), nontrivial=True)
        if 'raise' in r:
            ctx.violation('typed-format-raises', {'observed': r, 'why': '%s raised %s' % (r['template'], r['raise'])})
        elif r['arg_type'] != r['want_type'] or r['arg_repr'] != r['want_repr']:
            ctx.violation('formatter-gets-a-string-instead-of-the-field',
                          {'observed': r, 'why': 'template %s: the formatter method received %s %s, the field is %s %s'
                                                 % (r['template'], r['arg_type'], r['arg_repr'], r['want_type'], r['want_repr'])})

    for r in res2.get('formatting_instances', []):
        ctx.case(('formatter-instance', r['step']), nontrivial=True)
        x = {'main-report': 'm', 'formatter-replaced': 'late'}.get(r['step'], 'v' + r['step'].split(':')[-1])
        want = 'N <%s:name:%s> V <%s:value:%s> W <%s:name:%s>' % (r['tag'], x, r['tag'], x, r['tag'], x)
        got = ' '.join(str(r['message']).split())
        if got != want:
            ctx.violation('rendered-through-another-formatter',
                          {'observed': r, 'why': 'step %s: the feedback belongs to the report whose formatter is tagged %r; its message is %r, '
                                                 'rendered from its fields through that formatter it would be %r' % (r['step'], r['tag'], r['message'], want)})

    # the core commands: one object per piece of text, carrying that text
    WANT = {'gently': ['text G'], 'explain': ['text E'], 'guidance': ['text U'], 'compliment': ['text C'], 'give_partial': ['text P'],
            'set_correct': None, 'feedback': ['text F'], 'system_error': ['text S'], 'log': ['text L'], 'log-several': ['text-7'],
            'debug': ['text D'], 'debug-several': ['text D1', 'text D2']}
    for r in res2.get('core_commands', []):
        ctx.case(('core-command', r['command']), nontrivial=True)
        want = WANT[r['command']]
        if r['raised']:
            ctx.violation('core-command-raises:' + r['command'], {'observed': r, 'why': '%s raised %s' % (r['command'], r['raised'])})
        elif want is None:
            if len(r['recorded']) != 1:
                ctx.violation('core-command-not-once:' + r['command'], {'observed': r, 'why': '%s recorded %d objects' % (r['command'], len(r['recorded']))})
        elif len(r['recorded']) != len(want):
            ctx.violation('core-command-not-once:' + r['command'], {'observed': r, 'why': '%s recorded %d objects for %d pieces of text'
                                                                                       % (r['command'], len(r['recorded']), len(want))})
        elif [x[1] for x in r['recorded']] != want:
            ctx.violation('core-command-message:' + r['command'], {'observed': r, 'why': '%s was given %r, the recorded feedback says %r'
                                                                                      % (r['command'], want, [x[1] for x in r['recorded']])})

    # (a) creation: exhaustive over the spec space
    items = []
    for s, r in zip(specs, res['creation']):
        ctx.case(('create', json.dumps(s, sort_keys=True)), nontrivial=s['cond'] != 'False',
                 sample={'spec': s, 'observed': r} if s['cond'] == 'raises' and s['report'] == 'main' and not s['delay'] else None)
        ctx.count('create:' + s['cond'])
        v = oracle_creation(s, r)
        if v:
            ctx.violation('create:' + v[0], {'spec': s, 'observed': r, 'why': v[1]})
        if r.get('lost'):
            ctx.count('create:object-not-observable')
            continue
        a = coq_created(r['after_init'], r['raised'], s, None)
        h = '(Some %s)' % coq_created(r['after_handle'], r['raised_on_handle'], s, None) if s['delay'] else 'None'
        items.append('(%s, %s, %s)' % (coq_spec(s), a, h))
    bad = ctx.coq_cases('create', HEADER, items, 'check_create', chunk=500)
    ctx.obligation('correspondence:create(exhaustive over condition x message x else x justification x delay x report)',
                   not bad, str(bad)[:300] + (' e.g. ' + items[bad[0][1]] if bad and bad[0][0] == 'mismatch' else ''))
    for b in bad[:3]:
        ctx.broken.append(('correspondence', 'C20:create', items[b[1]] if b[0] == 'mismatch' else b[2]))

    # (b) format-spec dispatch against the regenerated `available`
    items = []
    for sp, r in zip(fspecs, res2['formatting']):
        ctx.case(('format', sp), nontrivial=True, sample={'spec': sp, 'observed': r} if sp.startswith('>10:f') else None)
        used = r.get('used')
        residual = r.get('residual')
        # property: a spec that names a declared format goes through exactly that formatter
        if sp in available and used != sp:
            ctx.violation('format-dispatch:' + sp, {'spec': sp, 'observed': r,
                                                    'why': 'field declared as %s was rendered by formatter %s' % (sp, used)})
        if sp.startswith('>10:') and sp[4:] in available and used != sp[4:]:
            ctx.violation('format-dispatch:' + sp, {'spec': sp, 'observed': r,
                                                    'why': 'field declared as %s was rendered by formatter %s' % (sp[4:], used)})
        if residual is None:
            continue  # formatting raised before reaching str.__format__, or no formatter used (plain str)
        try:
            items.append('(%s, %s, %s)' % (cstr(sp), copt(cstr(used) if used else None), cstr(residual)))
        except ValueError:
            pass
    bad = ctx.coq_cases('format', HEADER, items, 'check_dispatch')
    ctx.obligation('correspondence:format-dispatch(model vs FeedbackFieldWrapper.__format__)', not bad,
                   str([items[i] for k, i, d in bad if k == 'mismatch'][:5]))
    for b in bad[:3]:
        ctx.broken.append(('correspondence', 'C20:format-dispatch', items[b[1]] if b[0] == 'mismatch' else b[2]))

    # (c) override / clear histories
    codes = {}

    def code(v):
        if v == '__absent__':
            return None
        k = repr(v)
        if k not in codes:
            codes[k] = len(codes)
        return codes[k]

    def coq_snap(sn):
        rows = []
        for row in sn:
            own, got = row[:4], row[4:]
            rows.append(clist(['(%s, %s)' % (copt(cz(code(o)) if code(o) is not None else None), copt(cz(code(g))))
                               for o, g in zip(own, got)]))
        return clist(rows)
    items = []
    idx = []
    for hi, (h, r) in enumerate(zip(hists, res['overrides'])):
        ctx.case(('override', json.dumps(h)), nontrivial=len(h) >= 3,
                 sample={'history': h, 'final': r['obs'][-1]} if len(h) >= 4 and hi > 5 else None)
        ctx.count('history-len=%d' % len(h))
        if r['err']:
            ctx.violation('override:raises', {'history': h, 'why': 'override/clear raised %s' % r['err']})
            continue
        # property: after a clear of a report, every class overridden through it has its own attributes back as they were before
        # any override; once no report holds an override any more, every attribute (own and looked up) is as it was
        pending = {}
        for step, (op, sn) in enumerate(zip(h, r['obs'][1:])):
            rep = (op[3] if len(op) > 3 else 0) if op[0] == 'override' else (op[1] if len(op) > 1 else 0)
            if op[0] == 'override':
                pending.setdefault(rep, set()).add(op[1])
                continue
            cleared = pending.pop(rep, set())
            diffs = [(ci, fi) for ci in sorted(cleared) for fi in range(4) if sn[ci][fi] != r['obs'][0][ci][fi]]
            if not pending:
                diffs = [(ci, fi) for ci in range(5) for fi in range(8) if sn[ci][fi] != r['obs'][0][ci][fi]]
            if diffs:
                key = 'override:not-restored'
                ctx.violation(key, {'history': h[:step + 1], 'why': 'after clear, class attributes differ from the originals at '
                                                                     '(class, field) %s: %s vs %s' % (diffs, [sn[c][f] for c, f in diffs],
                                                                                                       [r['obs'][0][c][f] for c, f in diffs])})
                break
        ops = []
        for op in h:
            if op[0] == 'override':
                ops.append('(Override %s %s %s)' % (cnat(op[3] if len(op) > 3 else 0), cnat(op[1]),
                                                    clist(['(%s, %s)' % (cnat(f), cz(code(v))) for f, v in op[2]])))
            else:
                ops.append('(Clear %s)' % cnat(op[1] if len(op) > 1 else 0))
        items.append('(%s, %s, %s)' % (coq_snap(r['obs'][0]), clist(ops), clist([coq_snap(s) for s in r['obs'][1:]])))
        idx.append(hi)
    bad = ctx.coq_cases('override', HEADER, items, 'check_overrides', chunk=60)
    for kind, i, detail in bad[:5]:
        ctx.broken.append(('correspondence', 'C20:override-history',
                           json.dumps({'history': hists[idx[i]] if kind == 'mismatch' else None, 'detail': detail})[:2000]))
    ctx.obligation('correspondence:override-histories(model vs class __dict__ and getattr after every operation)', not bad,
                   '%d disagreeing histories' % len(bad))
    ctx.rule = ('(a) exhaustive: 10 condition outcomes x 4 message sources x 4 else sources x justification ok/raises x delayed x '
                '3 report attachments; (b) every declared format name, each with an extra width spec, near-miss names and suffix '
                'clashes (filename/name), through a recording formatter; (c) random histories of override()/clear_report()/'
                'contextualize_report over a 4-class hierarchy with own and inherited attributes, observed after every operation; (d) the same '
                'feedback class (with and without constant_fields) created 2-5 times in one grading with different keywords / locations / '
                'a missing template field: every object rendered from its own fields, class attributes unchanged.')


def run(ctx):
    translate(ctx)
    ctx.coq_props()
    correspondence(ctx)
