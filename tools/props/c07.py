"""C07 - runtime assertions pass only when the asserted relation really holds."""
import ast
import dataclasses
import itertools
import json
import re
import string

import vlib
from vlib import Refusal, cstr, clist
from translate import pymini
from c07_values import VALUES, ERRORS, BOTH_ORDERS, Point, Dog

RUNTIME = 'pedal/assertions/runtime.py'

# documented relation of each assertion: (atom in canonical text, polarity)   polarity True: silent iff atom holds
RELATIONS = {
    'assert_equal': ('equality_test(left, right)', True), 'assert_not_equal': ('equality_test(left, right)', False),
    'assert_less': ('left < right', True), 'assert_less_equal': ('left <= right', True),
    'assert_greater': ('left > right', True), 'assert_greater_equal': ('left >= right', True),
    'assert_in': ('needle in haystack', True), 'assert_not_in': ('needle in haystack', False),
    'assert_contains_subset': ('all((needle in haystack for needle in needles))', True),
    'assert_not_contains_subset': ('all((needle in haystack for needle in needles))', False),
    'assert_true': ('bool(left)', True), 'assert_false': ('bool(left)', False),
    'assert_length_equal': ('len(sequence) == length', True), 'assert_length_not_equal': ('len(sequence) == length', False),
    'assert_length_less': ('len(sequence) < length', True), 'assert_length_less_equal': ('len(sequence) <= length', True),
    'assert_length_greater': ('len(sequence) > length', True), 'assert_length_greater_equal': ('len(sequence) >= length', True),
    'assert_regex': ('re.search(regex, str(text)) is not None', True), 'assert_not_regex': ('re.search(regex, str(text)) is not None', False),
}


def canon(e):
    """expression -> formula over atoms; operands are stripped of .value / unwrap_value"""
    if isinstance(e, ast.BoolOp) and isinstance(e.op, ast.Or):
        out = canon(e.values[-1])
        for v in reversed(e.values[:-1]):
            out = '(FOr %s %s)' % (canon(v), out)
        return out
    if isinstance(e, ast.UnaryOp) and isinstance(e.op, ast.Not):
        return '(FNot %s)' % canon(e.operand)
    if isinstance(e, ast.Call) and ast.unparse(e.func) == 'errors':
        return 'FErr'
    txt = ast.unparse(e)
    txt = re.sub(r'unwrap_value\((\w+)\.value\)', r'\1', txt)
    txt = re.sub(r'(\w+)\.value', r'\1', txt)
    txt = txt.replace(', exact_strings, delta)', ')')
    # negated comparison operators are polarity, not atoms
    m = re.fullmatch(r'(.+) not in (.+)', txt)
    if m and ' in ' not in m.group(1):
        return '(FNot (FAtom %s))' % cstr('%s in %s' % (m.group(1), m.group(2)))
    m = re.fullmatch(r'(len\(\w+\)) != (\w+)', txt)
    if m:
        return '(FNot (FAtom %s))' % cstr('%s == %s' % (m.group(1), m.group(2)))
    m = re.fullmatch(r'(re\.search\(.+\)) is None', txt)
    if m:
        return '(FNot (FAtom %s))' % cstr('%s is not None' % m.group(1))
    return '(FAtom %s)' % cstr(txt)


def gen_text():
    tree, _ = pymini.load_module(RUNTIME)
    classes = {n.name: n for n in tree.body if isinstance(n, ast.ClassDef)}
    rows = []
    for name in RELATIONS:
        if name not in classes:
            raise Refusal('assertion class %s not found' % name)
        cond = [m for m in classes[name].body if isinstance(m, ast.FunctionDef) and m.name == 'condition']
        if len(cond) != 1:
            raise Refusal('%s.condition' % name)
        body = [s for s in cond[0].body if not (isinstance(s, ast.Expr) and isinstance(s.value, ast.Constant))]
        if len(body) != 1 or not isinstance(body[0], ast.Return):
            raise Refusal('%s.condition is not a single return' % name)
        rows.append('(%s, %s)' % (cstr(name), canon(body[0].value)))
    t = ('(* GENERATED from pedal/assertions/runtime.py *)\nFrom Coq Require Import List String Bool.\nImport ListNotations.\n'
         'From Pedal Require Import model.C07_Assert.\nOpen Scope string_scope.\n\n')
    t += 'Definition gen_conditions : list (string * formula) := [\n  %s\n].\n' % ';\n  '.join(rows)
    t += 'Definition doc_relations : list (string * (string * bool)) := [\n  %s\n].\n' % ';\n  '.join(
        '(%s, (%s, %s))' % (cstr(n), cstr(a), 'true' if p else 'false') for n, (a, p) in RELATIONS.items())
    return t


def translate(ctx):
    ctx.gen('C07_Gen', gen_text)


def run(ctx):
    translate(ctx)
    ctx.coq_props()


# ---------------------------------------------------------------- operand matrix
import math
import operator

BIN = ['assert_equal', 'assert_not_equal', 'assert_less', 'assert_less_equal', 'assert_greater', 'assert_greater_equal', 'assert_in',
       'assert_not_in', 'assert_is', 'assert_is_not', 'assert_length_equal', 'assert_length_not_equal', 'assert_length_less',
       'assert_length_less_equal', 'assert_length_greater', 'assert_length_greater_equal', 'assert_contains_subset',
       'assert_not_contains_subset', 'assert_regex', 'assert_not_regex']
UN = ['assert_true', 'assert_false', 'assert_is_none', 'assert_is_not_none']
PAIRS = [('assert_equal', 'assert_not_equal'), ('assert_in', 'assert_not_in'), ('assert_is', 'assert_is_not'),
         ('assert_length_equal', 'assert_length_not_equal'), ('assert_contains_subset', 'assert_not_contains_subset'),
         ('assert_regex', 'assert_not_regex'), ('assert_true', 'assert_false'), ('assert_is_none', 'assert_is_not_none')]
# (assert_less / assert_greater_equal are NOT negations of each other on partially ordered operands such as sets or NaN)
CLS = {'int': int, 'float': float, 'str': str, 'list': list, 'bool': bool, 'dict': dict, 'tuple': tuple}


# assert_type / assert_not_type: expected types by name (the implementation runner holds the same table)
TYPE_NAMES = ['int', 'float', 'bool', 'str', 'list', 'tuple', 'dict', 'set', 'None', 'list[int]', 'list[str]', 'set[int]', 'dict[str,int]',
              'tuple[int,str]', 'tuple[str,int]', 'Dog', 'Point', 'bytes', "'list[int]'", "'tuple[int, str]'", "'int'"]
PLAIN = {'int': int, 'float': float, 'bool': bool, 'str': str, 'list': list, 'tuple': tuple, 'dict': dict, 'set': set, 'Dog': Dog, 'Point': Point,
         'bytes': bytes}


def type_relation(a, tname):
    """is the value of that type?  True / False where there is no room for interpretation, None otherwise (a container with
    elements of several types, a tuple of another length)"""
    if isinstance(a, (type({}.keys()), type({}.items()), type({}.values()), range)):
        return None       # values of classes pedal's type system has no notion of are given the unknown type, which conforms to anything
    if tname.startswith("'"):
        # the same type written as a string (evaluated by pedal in the student's namespace)
        return type_relation(a, tname.strip("'").replace(', ', ','))
    if tname == 'None':
        return a is None
    if tname in PLAIN:
        return type(a) is PLAIN[tname]
    outer = PLAIN[tname.split('[')[0]]
    if type(a) is not outer:
        return False
    if tname == 'list[int]' or tname == 'set[int]':
        return True if all(type(x) is int for x in a) else None
    if tname == 'list[str]':
        return True if all(type(x) is str for x in a) else None
    if tname == 'dict[str,int]':
        return True if all(type(k) is str and type(v) is int for k, v in a.items()) else None
    if tname in ('tuple[int,str]', 'tuple[str,int]'):
        want = (int, str) if tname == 'tuple[int,str]' else (str, int)
        if len(a) != 2:
            return None
        if type(a[0]) is want[0] and type(a[1]) is want[1]:
            return True
        # an element of the exact OTHER type of the two is certainly not of the expected one
        if type(a[0]) is want[1] and type(a[1]) is want[0]:
            return False
        return None
    return None


def norm_str(s):
    s = s.lower()
    s = ''.join(ch for ch in s if ch not in string.punctuation)
    return sorted([p for p in line.split()] for line in s.split('\n') if line.split())


def spec_equal(a, b, exact=False, delta=0.001):
    """the documented meaning of assert_equal, written independently of equality_test; None = outside this spec"""
    if isinstance(a, bool) or isinstance(b, bool):
        if isinstance(a, (bool, int)) and isinstance(b, (bool, int)) and not isinstance(a, float) and not isinstance(b, float):
            return None   # bool vs int: left to Python equality / pedal's choice
    num = (int, float)
    if isinstance(a, num) and isinstance(b, num) and not isinstance(a, bool) and not isinstance(b, bool):
        if isinstance(a, float) or isinstance(b, float):
            if a != a or b != b:
                return False
            if a == b:
                return True          # also two infinities
            try:
                return abs(a - b) < delta
            except OverflowError:
                return False         # an int beyond the floats
        return a == b
    lazy = (range, type({}.values()))
    if isinstance(a, lazy) or isinstance(b, lazy):
        return None      # pedal compares what they yield (as a list / set): its own documented choice
    views = (type({}.keys()), type({}.items()))
    if isinstance(a, views) or isinstance(b, views):
        # keys and items views are set-like: equal to a set / another view with the same members (in any order)
        if isinstance(a, views + (set, frozenset)) and isinstance(b, views + (set, frozenset)) and a == b:
            return True
        return None
    if dataclasses.is_dataclass(a) and dataclasses.is_dataclass(b):
        return a == b      # instances: Python's own (generated) equality
    if isinstance(a, Dog) and isinstance(b, Dog):
        return a == b      # the class's own __eq__
    if isinstance(a, bytes) and isinstance(b, bytes):
        # equal bytes are equal; how differing bytes are normalised is pedal's own choice
        return True if a == b else (False if exact else None)
    if isinstance(a, str) and isinstance(b, str):
        if exact:
            return a == b
        if any(ch in string.punctuation for ch in a + b):
            return None      # how punctuation is normalised is pedal's own choice: no independent spec
        return norm_str(a) == norm_str(b)
    if type(a) is type(b) and isinstance(a, (list, tuple)):
        if len(a) != len(b):
            return False
        rs = [spec_equal(x, y, exact, delta) for x, y in zip(a, b)]
        return None if any(r is None for r in rs) else all(rs)
    if isinstance(a, dict) and isinstance(b, dict):
        if set(a) != set(b):
            return False
        rs = [spec_equal(a[k], b[k], exact, delta) for k in a]
        return None if any(r is None for r in rs) else all(rs)
    if a is None or b is None:
        return a is b
    if isinstance(a, (set, frozenset)) and isinstance(b, (set, frozenset)):
        # equal as sets under the same element relation; specified only for two sets of the same type and only where the
        # pairing of elements is unambiguous
        if type(a) is not type(b):
            return None
        if len(a) != len(b):
            return False
        used = []
        for x in a:
            rs = [(y, spec_equal(x, y, exact, delta)) for y in b]
            if any(r is None for _, r in rs):
                return None
            cands = [y for y, r in rs if r]
            if not cands:
                return False
            if len(cands) > 1:
                return None
            used.append(cands[0])
        return True if len(set(map(repr, used))) == len(used) else None
    if type(a) is not type(b):
        return False
    return None


def relation(name, a, b):
    """(evaluable, holds) of the documented relation on the raw operands; None = no independent spec for this cell"""
    try:
        if name in ('assert_equal', 'assert_not_equal'):
            r = spec_equal(a, b)
            if r is None:
                return None
            return True, r if name == 'assert_equal' else not r
        if name == 'assert_less':
            return True, bool(a < b)
        if name == 'assert_less_equal':
            return True, bool(a <= b)
        if name == 'assert_greater':
            return True, bool(a > b)
        if name == 'assert_greater_equal':
            return True, bool(a >= b)
        if name == 'assert_in':
            return True, a in b
        if name == 'assert_not_in':
            return True, a not in b
        if name in ('assert_is', 'assert_is_not'):
            if not (a is None or isinstance(a, bool)) or not (b is None or isinstance(b, bool)):
                return None
            return True, (a is b) if name == 'assert_is' else (a is not b)
        if name.startswith('assert_length'):
            n = len(a)
            op = {'assert_length_equal': operator.eq, 'assert_length_not_equal': operator.ne, 'assert_length_less': operator.lt,
                  'assert_length_less_equal': operator.le, 'assert_length_greater': operator.gt, 'assert_length_greater_equal': operator.ge}[name]
            return True, bool(op(n, b))
        if name == 'assert_contains_subset':
            return True, all(n in b for n in a)
        if name == 'assert_not_contains_subset':
            return True, not all(n in b for n in a)
        if name in ('assert_regex', 'assert_not_regex'):
            hit = re.search(a, str(b)) is not None
            return True, hit if name == 'assert_regex' else not hit
        if name == 'assert_true':
            return True, bool(a)
        if name == 'assert_false':
            return True, not bool(a)
        if name == 'assert_is_none':
            return True, a is None
        if name == 'assert_is_not_none':
            return True, a is not None
    except Exception:
        return False, False
    return None


def correspondence(ctx):
    rng = ctx.rng
    n = len(VALUES)
    cases = []
    # raw/raw: every pair for every binary assertion (quick: a random half)
    for name in BIN:
        for i in range(n):
            for j in range(n):
                if ctx.tier == 'quick' and rng.random() < 0.6:
                    continue
                cases.append({'assertion': name, 'left': i, 'right': j, 'wl': False, 'wr': False})
    for a_, b_ in BOTH_ORDERS:
        i, j = [k for k, v in enumerate(VALUES) if type(v) is type(a_) and v == a_][0], [k for k, v in enumerate(VALUES) if type(v) is type(b_) and v == b_][0]
        for name in ('assert_equal', 'assert_not_equal'):
            for x, y in ((i, j), (j, i)):
                c = {'assertion': name, 'left': x, 'right': y, 'wl': False, 'wr': False}
                if c not in cases:
                    cases.append(c)
    # the other three wrappings: for every assertion and every ordered pair of operand KINDS (int, float, bool, str, list, tuple,
    # dict, set, None, ...) at least two value pairs, plus random pairs
    by_kind = {}
    for i, v in enumerate(VALUES):
        by_kind.setdefault(type(v).__name__, []).append(i)
    kinds = sorted(by_kind)
    for name in BIN:
        pairs = []
        for ka in kinds:
            for kb in kinds:
                for _ in range(2 if ctx.tier == 'quick' else 5):
                    pairs.append((rng.choice(by_kind[ka]), rng.choice(by_kind[kb])))
        pairs += [(rng.randrange(n), rng.randrange(n)) for _ in range(60 if ctx.tier == 'quick' else 400)]
        for i, j in sorted(set(pairs)):
            for wl, wr in ((True, False), (False, True), (True, True)):
                cases.append({'assertion': name, 'left': i, 'right': j, 'wl': wl, 'wr': wr})
    for name in UN:
        for i in range(n):
            for wl in (False, True):
                cases.append({'assertion': name, 'left': i, 'right': None, 'wl': wl, 'wr': False})
    for name in ('assert_is_instance', 'assert_not_is_instance'):
        for i in range(n):
            for c in CLS:
                cases.append({'assertion': name, 'left': i, 'right': None, 'wl': rng.random() < 0.5, 'wr': False, 'cls': c})
    for name in ('assert_type', 'assert_not_type'):
        for i in range(n):
            for c in TYPE_NAMES:
                for wl in ((False, True) if rng.random() < 0.3 else (False,)):
                    cases.append({'assertion': name, 'left': i, 'right': None, 'wl': wl, 'wr': False, 'cls': c})
    # error operands: on either side of every assertion
    for name in BIN + UN:
        for side in ('left', 'right'):
            if name in UN and side == 'right':
                continue
            cases.append({'assertion': name, 'left': rng.randrange(n), 'right': rng.randrange(n), 'wl': False, 'wr': False,
                          'error_side': side, 'error_index': rng.randrange(len(ERRORS))})
    # equality options: every same-kind pair (dicts, lists, tuples, strings, numbers) under each option
    def kind(v):
        return 'num' if isinstance(v, (int, float)) and not isinstance(v, bool) else type(v).__name__
    same_kind = [(i, j) for i in range(n) for j in range(n) if kind(VALUES[i]) == kind(VALUES[j])
                 and kind(VALUES[i]) in ('dict', 'list', 'tuple', 'str', 'num', 'set', 'frozenset')]
    for i, j in same_kind:
        # (delta=None is documented as "the default tolerance")
        for kw in ({'exact_strings': True}, {'delta': 0.1}, {'delta': 0.00001}, {'delta': 0.5}, {'delta': None}):
            if ctx.tier == 'quick' and rng.random() < 0.5:
                continue
            cases.append({'assertion': 'assert_equal', 'left': i, 'right': j, 'wl': False, 'wr': False, 'kwargs': kw})
    mixes = [list(m) for k in range(1, 4) for m in itertools.product(['pass', 'fail', 'error'], repeat=k)] + \
            [list(m) for k in range(1, 4) for m in itertools.product(['pass', 'fail', 'cond_error'], repeat=k) if 'cond_error' in m]
    outputs = []
    for fn, arg in (('greet', 'Ada'), ('greet', 'Grace'), ('quiet', 'Ada')):
        for later in ([], [['greet', 'Zed']], [['quiet', 'q'], ['greet', 'Bob']], [['quiet', 'x']]):
            for text in ('Hello, Ada!', 'hello ada', 'Ada', 'Grace', 'Welcome.', 'Hello, Ada!\nWelcome.\n', 'Hello, Grace!\nWelcome.\n', '', 'zzz',
                         'H.llo', '^Hello, (Ada|Bob)!$', 'ada', 'HELLO', 'welcome', 'hello, ada!'):
                for exact in (False, True):
                    outputs.append({'fn': fn, 'arg': arg, 'later': later, 'text': text, 'exact': exact})
    res = vlib.run_impl('c07_impl.py', {'cases': cases, 'unit_tests': mixes, 'outputs': outputs}, timeout=1800)
    import re as _re
    for rec in res.get('outputs', []):
        sp, out_text, v = rec['spec'], rec['plain_output'], rec['verdicts']
        # the printed text as the assertions see it: without its final line break (chomp)
        out_text = out_text[:-1] if out_text.endswith('\n') else out_text
        ctx.case(('output', json.dumps(sp, sort_keys=True)), nontrivial=bool(out_text))
        ctx.count('output-assertions:' + ('stale-result' if sp['later'] else 'most-recent'))

        def fired(key):
            r = v[key]
            return None if 'raised' in r else r['fired']
        problems = []
        for name in ('assert_output', 'assert_not_output', 'assert_output_contains', 'assert_not_output_contains', 'assert_output_regex',
                     'assert_not_output_regex'):
            a, b = fired(name + ':inline'), fired(name + ':stale')
            c = fired(name + ':inblock') if (name + ':inblock') in v else a
            if c is not None and a is not None and c != a:
                problems.append(('output-of-another-execution', '%s on the result of %s(%r): fired=%s on its own, fired=%s inside a command block in which '
                                 'other calls printed before it' % (name, sp['fn'], sp['arg'], a, c)))
            if 'raised' in v[name + ':inline'] or 'raised' in v[name + ':stale']:
                if not (name.endswith('regex') and sp['text'] == ''):
                    try:
                        _re.compile(sp['text'])
                        problems.append(('output-assertion-raises', '%s raised %s' % (name, v[name + ':inline'].get('raised') or v[name + ':stale'].get('raised'))))
                    except _re.error:
                        pass
                continue
            if a != b:
                problems.append(('output-of-another-execution', '%s on the result of %s(%r): fired=%s right after the call, fired=%s once %s had been called '
                                 'in between - the same execution printed the same text' % (name, sp['fn'], sp['arg'], a, b, sp['later'])))
        # exact oracles where the documentation leaves no room: containment and regex search on the printed text
        want = sp['text'] in out_text if sp['exact'] else sp['text'].lower() in out_text.lower()
        for mode in ('inline', 'stale'):
            c, nc = fired('assert_output_contains:' + mode), fired('assert_not_output_contains:' + mode)
            if c is not None and c != (not want):
                problems.append(('output-contains', 'assert_output_contains(%s(%r), %r, exact_strings=%s) [%s]: fired=%s, the text is %sin %r'
                                 % (sp['fn'], sp['arg'], sp['text'], sp['exact'], mode, c, '' if want else 'not ', out_text)))
            if nc is not None and nc != want:
                problems.append(('output-contains', 'assert_not_output_contains(...%r) [%s]: fired=%s, contained=%s' % (sp['text'], mode, nc, want)))
            try:
                rx = _re.search(sp['text'], out_text) is not None
                r1, r2 = fired('assert_output_regex:' + mode), fired('assert_not_output_regex:' + mode)
                if r1 is not None and r1 != (not rx):
                    problems.append(('output-regex', 'assert_output_regex(%r, %s(%r)) [%s]: fired=%s, re.search is %s on %r' % (sp['text'], sp['fn'], sp['arg'], mode, r1, rx, out_text)))
                if r2 is not None and r2 != rx:
                    problems.append(('output-regex', 'assert_not_output_regex(%r, ...) [%s]: fired=%s, re.search is %s' % (sp['text'], mode, r2, rx)))
            except _re.error:
                pass
            o, no = fired('assert_output:' + mode), fired('assert_not_output:' + mode)
            if o is not None and no is not None and o == no:
                problems.append(('output-negation-pair', 'assert_output and assert_not_output both %s for %r vs %r [%s]' % ('fire' if o else 'pass', sp['text'], out_text, mode)))
            if sp['exact'] and o is not None and sp['text'] == out_text and o:
                problems.append(('output-exact', 'assert_output fired although the text IS the output %r [%s]' % (out_text, mode)))
        for key, why in problems[:2]:
            ctx.violation(key, {'spec': sp, 'plain_output': out_text, 'verdicts': v, 'why': why})
    by = {}
    for case, r in zip(cases, res['results']):
        name = case['assertion']
        a = VALUES[case['left']]
        b = VALUES[case['right']] if case['right'] is not None else None
        ctx.count('assertion:' + name)
        wrap = ('P' if case['wl'] else 'r') + ('P' if case['wr'] else 'r')
        ctx.count('wrapping:' + wrap)
        ctx.case((name, case['left'], case['right'], wrap, case.get('cls'), case.get('error_side'), json.dumps(case.get('kwargs'))),
                 nontrivial=bool(r.get('fired')), sample={'assertion': name, 'left': res['reprs'][case['left']],
                                                          'right': None if b is None else res['reprs'][case['right']],
                                                          'wrapping': wrap, 'fired': r.get('fired'), 'status': r.get('status')}
                 if name == 'assert_less' and r.get('status') == 'error' else None)
        if 'raised' in r:
            ctx.violation('assertion-raises:%s' % name, {'case': case, 'why': '%s(%s, %s) raised %s' % (name, res['reprs'][case['left']], b, r['raised'])})
            continue
        fired = r['fired']
        if fired != r['listed'] or (not fired) != r['ignored']:
            ctx.violation('truth-vs-report:%s' % name, {'case': case, 'observed': r, 'why': 'bool(assertion) and its place in the report differ'})
        key_vals = (case['left'], case['right'], case.get('cls'), json.dumps(case.get('kwargs')))
        if not case.get('error_side'):
            by.setdefault((name, key_vals), {})[wrap] = fired
        if case.get('error_side'):
            if not fired:
                ctx.violation('error-operand-passes:%s' % name, {'case': case, 'observed': r,
                                                                 'why': '%s with an error value as %s operand stayed silent' % (name, case['error_side'])})
            continue
        if name in ('assert_is_instance', 'assert_not_is_instance'):
            want = isinstance(a, CLS[case['cls']])
            want_fire = (not want) if name == 'assert_is_instance' else want
            if fired != want_fire:
                conflation = isinstance(a, (int, float)) and case['cls'] in ('int', 'float')
                ctx.violation('is_instance:int-float-conflation' if conflation else 'is_instance:%s' % case['cls'],
                              {'case': case, 'observed': r, 'why': '%s(%r, %s) fired=%s but isinstance is %s' % (name, a, case['cls'], fired, want)})
            continue
        if name in ('assert_type', 'assert_not_type'):
            want = type_relation(a, case['cls'])
            if want is not None:
                want_fire = (not want) if name == 'assert_type' else want
                if fired != want_fire:
                    ctx.violation('type:%s:%s' % (name, case['cls']),
                                  {'case': case, 'observed': r, 'why': '%s(%r, %s) [%s] fired=%s status=%s but the value %s of that type'
                                                                       % (name, a, case['cls'], wrap, fired, r['status'], 'is' if want else 'is not')})
            continue
        if case.get('kwargs'):
            kw = case['kwargs']
            want = spec_equal(a, b, exact=kw.get('exact_strings', False), delta=0.001 if kw.get('delta') is None else kw['delta'])
            if want is not None and fired == want:
                ctx.violation('equal-options', {'case': case, 'observed': r, 'why': 'assert_equal(%r, %r, %s) fired=%s' % (a, b, kw, fired)})
            continue
        rel = relation(name, a, b)
        if rel is None:
            continue
        evaluable, holds = rel
        want_silent = evaluable and holds
        if (not fired) != want_silent:
            ctx.violation('relation:%s:%s' % (name, 'unevaluable-passes' if not evaluable else ('false-pass' if not fired else 'false-fail')),
                          {'case': case, 'observed': r, 'left': res['reprs'][case['left']], 'right': None if b is None else res['reprs'][case['right']],
                           'why': '%s(%s, %s) [%s]: fired=%s status=%s but the relation is %s' % (
                               name, res['reprs'][case['left']], None if b is None else res['reprs'][case['right']], wrap, fired, r['status'],
                               'not evaluable' if not evaluable else holds)})
    # wrapping invariance and symmetry / negation pairs
    for (name, kv), ws in by.items():
        if name in ('assert_is', 'assert_is_not') and not all(
                VALUES[k] is None or isinstance(VALUES[k], bool) for k in kv[:2] if k is not None):
            continue      # identity of freshly built containers legitimately differs between a raw value and a call() result
        if len(set(ws.values())) > 1:
            ctx.violation('wrapping-dependent:%s' % name, {'assertion': name, 'operands': [res['reprs'][kv[0]], None if kv[1] is None else res['reprs'][kv[1]]],
                                                          'by_wrapping': ws, 'why': '%s gives different verdicts depending on which operand is a proxy: %s' % (name, ws)})
    for (name, kv), ws in by.items():
        if name == 'assert_equal' and kv[2] is None and kv[3] == 'null' and 'rr' in ws:
            other = by.get((name, (kv[1], kv[0], None, 'null')), {})
            if 'rr' in other and other['rr'] != ws['rr']:
                ctx.violation('equal-asymmetric', {'operands': [res['reprs'][kv[0]], res['reprs'][kv[1]]],
                                                   'why': 'assert_equal(%s, %s) fired=%s but with the arguments swapped fired=%s' % (
                                                       res['reprs'][kv[0]], res['reprs'][kv[1]], ws['rr'], other['rr'])})
    for (name, kv), ws in by.items():
        if name == 'assert_type' and 'rr' in ws:
            o = by.get(('assert_not_type', kv), {})
            if 'rr' in o and o['rr'] == ws['rr']:
                ctx.violation('negation-pair:assert_type', {'operands': [res['reprs'][kv[0]], kv[2]],
                                                            'why': 'assert_type and assert_not_type both %s for %s and %s'
                                                                   % ('fire' if ws['rr'] else 'pass', res['reprs'][kv[0]], kv[2])})
    for pos, neg in PAIRS:
        for (name, kv), ws in by.items():
            if name != pos or 'rr' not in ws:
                continue
            o = by.get((neg, kv), {})
            if 'rr' not in o:
                continue
            a = VALUES[kv[0]]
            b = VALUES[kv[1]] if kv[1] is not None else None
            rel = relation(pos, a, b)
            if rel is not None and rel[0] and ws['rr'] == o['rr']:
                ctx.violation('negation-pair:%s' % pos, {'operands': [res['reprs'][kv[0]], None if b is None else res['reprs'][kv[1]]],
                                                         'why': '%s and %s both %s on evaluable operands' % (pos, neg, 'fire' if ws['rr'] else 'pass')})
    for mix, r in zip(mixes, res['unit_tests']):
        ctx.case(('unit_test', tuple(mix)), nontrivial='fail' in mix or 'error' in mix)
        if 'raised' in r:
            ctx.violation('unit_test-raises', {'cases': mix, 'why': 'unit_test raised %s' % r['raised']})
            continue
        want = all(k == 'pass' for k in mix)
        if r['returned'] != want:
            ctx.violation('unit_test-verdict', {'cases': mix, 'observed': r, 'why': 'unit_test returned %s for cases %s' % (r['returned'], mix)})
        if r['success_count'] is not None and r['success_count'] != mix.count('pass'):
            ctx.violation('unit_test-count', {'cases': mix, 'observed': r, 'why': 'success_count=%s for cases %s' % (r['success_count'], mix)})
    ctx.rule = ('28 assertion functions (incl. assert_type / assert_not_type against 17 expected types) x a universe of %d operand values '
                '(ints, bools, floats around the tolerance, NaN, strings and bytes differing by case/punctuation/whitespace, lists, nested lists, '
                'tuples, dicts, sets, None, dataclass instances, objects of an ordinary class) : every ordered pair raw/raw (quick: a random '
                '40%%), sampled pairs in the three proxied wrappings (values produced by call() on student functions), error values on '
                'either side, exact_strings; unit_test on every mix of passing/failing/erroring cases up to length 3. '
                'non-trivial = the assertion fired.' % n)


def hostile_operands(ctx):
    """results of student calls whose own __repr__ / __str__ / __eq__ / __bool__ / __len__ fail: every assertion still answers with a
    feedback object (the failing method is the student's, the report is the grader's)"""
    res = vlib.run_impl('c07_impl.py', {'hostile': True}, timeout=600)
    for r in res['hostile']:
        ctx.case(('hostile', r['kind'], r['assertion'], r['shape']), nontrivial=bool(r.get('fired')))
        ctx.count('hostile-operand:' + r['kind'])
        if 'raised' in r:
            ctx.violation('assertion-raises-on-hostile-operand:%s' % r['kind'],
                          {'operand': r['kind'], 'assertion': r['assertion'], 'shape': r['shape'],
                           'why': '%s on the result of a student call whose %s fails (%s) raised %s into the grader'
                                  % (r['assertion'], r['kind'], r['shape'], r['raised'])})
        elif r['fired'] != r['listed'] or (not r['fired']) != r['ignored']:
            ctx.violation('truth-vs-report:%s' % r['assertion'], {'case': r, 'why': 'bool(assertion) and its place in the report differ'})
        elif r['kind'] == 'equal-but-no-repr' and r['shape'] == 'alone' and r['assertion'] in ('assert_equal', 'assert_not_equal') and \
                r['fired'] != (r['assertion'] == 'assert_not_equal'):
            # the object equals everything (its __eq__ says so); that it cannot be printed does not change the relation
            ctx.violation('unprintable-operand-changes-the-verdict', {'case': r, 'why': '%s(obj, 5) with an obj whose __eq__ returns True and whose '
                                                                                         '__repr__ raises: fired=%s status=%s' % (r['assertion'], r['fired'], r['status'])})


# ---------------------------------------------------------------- equality_test: Coq model vs the implementation
EQ_HEADER = ('From Coq Require Import ZArith QArith List Bool.\nImport ListNotations.\n'
             'From Pedal Require Import model.C07_Equality.\n'
             'Definition check_equality (c : bool * Q * val * val * bool) : bool :=\n'
             "  let '(exact, delta, a, e, observed) := c in Bool.eqb (equality_test exact delta a e) observed.\n")


class NotInUniverse(Exception):
    pass


def coq_q(x):
    from fractions import Fraction
    fr = Fraction(repr(x)) if isinstance(x, float) else Fraction(x)
    return '(%d # %d)%%Q' % (fr.numerator, fr.denominator)


def coq_scalar(v, ids):
    if isinstance(v, bool):
        return '(SBool %s)' % vlib.cbool(v)
    if isinstance(v, int):
        if abs(v) > 10 ** 30:
            raise NotInUniverse('an int beyond the floats')   # the model has no overflow
        return '(SInt (%d)%%Z)' % v
    if isinstance(v, float):
        if v in (float('inf'), float('-inf')) or abs(v) > 1e300:
            raise NotInUniverse(repr(v))        # the model's floats are rationals
        return 'SNaN' if v != v else '(SFloat %s)' % coq_q(v)
    if isinstance(v, str):
        ex = ids['exact'].setdefault(v, len(ids['exact']))
        nm = ids['norm'].setdefault(ids['normal_forms'][v], len(ids['norm']))
        return '(SStr %d %d)' % (ex, nm)
    if isinstance(v, bytes):
        ex = ids['exact'].setdefault(v, len(ids['exact']))
        nm = ids['norm'].setdefault(ids['normal_forms']['bytes:' + v.decode('latin-1')], len(ids['norm']))
        return '(SBytes %d %d)' % (ex, nm)
    if v is None:
        return 'SNone'
    raise NotInUniverse(repr(v))


def coq_val(v, ids):
    if isinstance(v, list):
        return '(VList %s)' % clist([coq_val(x, ids) for x in v])
    if isinstance(v, tuple):
        return '(VTuple %s)' % clist([coq_val(x, ids) for x in v])
    if isinstance(v, frozenset):
        return '(VFrozen %s)' % clist([coq_scalar(x, ids) for x in sorted(v, key=repr)])
    if isinstance(v, set):
        return '(VSet %s)' % clist([coq_scalar(x, ids) for x in sorted(v, key=repr)])
    if isinstance(v, dict):
        return '(VDict %s)' % clist(['(%s, %s)' % (coq_scalar(k, ids), coq_val(x, ids)) for k, x in v.items()])
    return '(Sc %s)' % coq_scalar(v, ids)


def numbers_in(v):
    if isinstance(v, bool):
        return
    if isinstance(v, (int, float)):
        if v == v:
            yield v
    elif isinstance(v, dict):
        for k, x in v.items():
            yield from numbers_in(k)
            yield from numbers_in(x)
    elif isinstance(v, (list, tuple, set, frozenset)):
        for x in v:
            yield from numbers_in(x)


def at_rounding_boundary(a, b, delta):
    from fractions import Fraction
    d = Fraction(repr(delta))
    for x in numbers_in(a):
        for y in numbers_in(b):
            if isinstance(x, float) or isinstance(y, float):
                diff = abs(Fraction(repr(x)) - Fraction(repr(y)))
                if abs(diff - d) < Fraction(1, 10 ** 9):
                    return True
    return False


def equality_correspondence(ctx):
    rng = ctx.rng
    n = len(VALUES)
    options = [(False, 0.001), (True, 0.001), (False, 0.5), (False, 0.00001)]
    quads = []
    for i in range(n):
        for j in range(n):
            for exact, delta in options:
                if ctx.tier == 'quick' and (exact, delta) != (False, 0.001) and rng.random() < 0.6:
                    continue
                quads.append([i, j, exact, delta])
    res = vlib.run_impl('c07_impl.py', {'cases': [], 'unit_tests': [], 'outputs': [], 'equality': quads}, timeout=900)
    ids = {'exact': {}, 'norm': {}, 'normal_forms': res['normal_forms']}
    terms = {}
    for i, v in enumerate(VALUES):
        try:
            terms[i] = coq_val(v, ids)
        except NotInUniverse:
            terms[i] = None
    items, idx = [], []
    for q, ob in zip(quads, res['equality']):
        i, j, exact, delta = q
        if terms[i] is None or terms[j] is None:
            ctx.count('equality:outside-the-model-universe')
            continue
        if at_rounding_boundary(VALUES[i], VALUES[j], delta):
            # exact rationals vs binary floats: 5.0005 - 4.9995 is 0.001 exactly but 0.00099999999999945 in floating point
            ctx.count('equality:skipped-at-the-rounding-boundary')
            continue
        if ob is not True and ob is not False:
            # equality_test itself must answer: an exception would fail the assertion AND its negated counterpart
            ctx.violation('equality_test-raises', {'operands': [repr(VALUES[i]), repr(VALUES[j])], 'exact_strings': exact, 'delta': delta,
                                                   'why': 'equality_test(%r, %r, %s, %s) raised %s; assert_equal and assert_not_equal then both fail'
                                                          % (VALUES[i], VALUES[j], exact, delta, ob)})
            continue
        observed = ob
        items.append('(%s, %s, %s, %s, %s)' % (vlib.cbool(exact), coq_q(delta), terms[i], terms[j], vlib.cbool(observed)))
        idx.append(q)
        ctx.count('equality-pairs-compared-with-the-model')
        # order independence on the implementation itself
    by = {(q[0], q[1], q[2], q[3]): ob for q, ob in zip(quads, res['equality'])}
    for (i, j, exact, delta), ob in by.items():
        other = by.get((j, i, exact, delta))
        if other is not None and (ob is True) != (other is True) and i < j:
            ctx.violation('equal-asymmetric', {'operands': [repr(VALUES[i]), repr(VALUES[j])], 'exact_strings': exact, 'delta': delta,
                                               'why': 'equality_test(%r, %r, %s, %s) is %s but with the operands swapped %s'
                                                      % (VALUES[i], VALUES[j], exact, delta, ob, other)})
    bad = ctx.coq_cases('equality', EQ_HEADER, items, 'check_equality', chunk=500)
    ctx.obligation('correspondence:equality_test(Coq model = pedal.utilities.comparisons.equality_test on %d ordered operand pairs x options)' % len(items),
                   not bad, str([idx[i] for k, i, d in bad if k == 'mismatch'][:6]))
    for kind, i, detail in bad[:4]:
        if kind == 'mismatch':
            a, b, exact, delta = idx[i]
            ctx.broken.append(('correspondence', 'C07:equality_test', json.dumps({'actual': repr(VALUES[a]), 'expected': repr(VALUES[b]), 'exact_strings': exact, 'delta': delta})))
        else:
            ctx.broken.append(('correspondence', 'C07:equality_test', detail))


def run(ctx):  # noqa: F811
    translate(ctx)
    ctx.coq_props()
    correspondence(ctx)
    hostile_operands(ctx)
    equality_correspondence(ctx)
