"""C17 - sections split a submission losslessly and report whole-file line numbers."""
import json

import vlib
from vlib import cz, clist, cbool

HEADER = ('From Coq Require Import ZArith List Bool.\nImport ListNotations.\n'
          'From Pedal Require Import lib.PyStr model.C17_Sections model.C17_Run.\nOpen Scope Z_scope.\n')


def pts(s):
    return clist([cz(ord(c)) for c in s])


def gen_section_body(rng, sec, plant):
    """lines of one section; returns (lines, planted {kind: index in lines})"""
    n = rng.randrange(0, 4)
    lines = ['v%d_%d = %d' % (sec, i, rng.randrange(9)) for i in range(n)]
    if rng.random() < 0.2:
        lines.insert(rng.randrange(len(lines) + 1), '')
    if rng.random() < 0.1:
        lines.insert(rng.randrange(len(lines) + 1), '# \x0c form feed comment')
    planted = None
    if plant == 'syntax':
        pos = rng.randrange(len(lines) + 1)
        lines.insert(pos, 'bad%d = = 1' % sec)
        planted = pos
    elif plant == 'tifa':
        pos = rng.randrange(len(lines) + 1)
        k = rng.randrange(6)
        if k == 5:
            # an issue about a function PARAMETER (located at the def), in a function that is called
            lines[pos:pos] = ['def up%d(keep, unusedparam%d):' % (sec, sec), '    return keep', 'print(up%d(1, 2))' % sec]
            planted = pos
        elif k == 0:
            # issues that TIFA locates through an explicitly given node
            lines[pos:pos] = ['for q%d in 5:' % sec, '    pass']
            planted = pos
        elif k == 1:
            lines[pos:pos] = ['e%d = []' % sec, 'for q%d in e%d:' % (sec, sec), '    pass']
            planted = pos + 1
        elif k == 2:
            lines[pos:pos] = ['w%d = 5' % sec, 'w%d.append(3)' % sec]
            planted = pos + 1
        else:
            lines.insert(pos, 'print(undefined_%d)' % sec)
            planted = pos
    elif plant == 'runtime':
        pos = len(lines)
        if rng.random() < 0.35:
            # the failure is raised inside library code the section calls: the line is still the section's own
            lines.append('import random')
            lines.append('zz%d = random.choice([])' % sec)
            planted = pos + 1
        else:
            lines.append('zz%d = 1/0' % sec)
            planted = pos
    elif plant == 'callerr':
        pos = rng.randrange(len(lines) + 1)
        lines.insert(pos, 'def fn%d():' % sec)
        lines.insert(pos + 1, '    w = 5')
        lines.insert(pos + 2, '    return w/0')
        planted = pos + 2
    return lines, planted


def gen_case(rng):
    nsec = rng.choice([0, 1, 2, 2, 3, 3, 4, 6])
    independent = rng.random() < 0.6
    eol = '\n'
    file_lines = []
    plants = []   # (section, kind, file line 1-based)
    sections_with_defect = set()
    kinds = ['syntax', 'tifa', 'runtime', 'callerr', 'callerr', None, None]
    only = rng.randrange(nsec + 1)
    for sec in range(nsec + 1):
        if sec > 0:
            marker = '##### Part %s' % rng.choice(['1', '2', 'A', 'two words', '1 ', '#'])
            file_lines.append(marker)
        plant = rng.choice(kinds)
        if not independent and sec != only:
            plant = None
        if sec == 0 and plant in ('syntax', 'runtime') and not independent:
            plant = None
        body, pos = gen_section_body(rng, sec, plant)
        if pos is not None:
            plants.append((sec, plant, len(file_lines) + pos + 1))
        file_lines.extend(body)
        # adjacent markers / empty sections happen when body is empty
    text = eol.join(file_lines)
    if rng.random() < 0.7:
        text += eol
    if rng.random() < 0.05:
        text = text.replace('\n', '\r\n')
        plants = [(s, k, l) for s, k, l in plants]
    # decoys that are NOT markers
    if rng.random() < 0.15:
        text = ' ##### Part 9\n##### Part \n' + text
        plants = [(s, k, l + 2) for s, k, l in plants]
    steps = ['separate']
    # how far the script goes: usually through every section (and sometimes past the end), sometimes it stops early - also right
    # after the prologue, without any next_section()
    visit = rng.choice([nsec, nsec, nsec + 1, nsec + 2, rng.randrange(0, nsec + 1), 0])
    for sec in range(visit + 1):
        if sec > 0:
            steps.append('next')
        if sec <= nsec:
            steps.append('verify')
            kind = [k for s, k, l in plants if s == sec]
            if not kind or kind[0] != 'syntax':
                steps += rng.choice([['tifa', 'run'], ['run', 'tifa'], ['tifa'], ['run']])
            elif rng.random() < 0.6:
                steps.append('run')      # the sandbox is asked to run a section that does not compile
            if kind and kind[0] == 'callerr':
                if steps[-1] != 'run' and steps[-2] != 'run':
                    steps.append('run')
                steps.append('call:fn%d' % sec)
    steps.append(rng.choice(['stop', 'resolve']))
    if steps[-1] == 'stop' and rng.random() < 0.6:
        # the sections are over: the whole file is analysed / run once more, and its lines are the file's lines
        steps += rng.choice([['verify'], ['verify', 'tifa'], ['verify', 'run'], ['run'], ['tifa']])
    # the learner's file need not be called answer.py
    name = rng.choice(['answer.py', 'answer.py', 'main.py', 'student_code.py', 'hw3_solution.py'])
    return {'file': text, 'name': name, 'independent': independent, 'pattern': None, 'steps': steps, 'plants': plants, 'nsec': nsec}


def coq_case(case, res):
    ops = []
    obs = []
    for st in res['steps']:
        op = st['op']
        if op == 'separate':
            ops.append('(Separate %s)' % cbool(case['independent']))
        elif op == 'next':
            ops.append('Next')
        elif op == 'stop':
            ops.append('Stop')
        elif op == 'resolve':
            ops.append('Resolve')
        else:
            continue
        obs.append('(%s, %s, %s, %s)' % (pts(st['main']), cz(st['depth']), cz(st['offset']), cz(st['n_not_enough'])))
    secs = res['steps'][0]['sections'] if res['steps'] else []
    return '(%s, %s, %s, %s)' % (pts(case['file']), clist(ops), clist(obs), clist([pts(x) for x in (secs or [])]))


def oracle(case, res):
    """the property on the real implementation's observations"""
    text = case['file']
    steps = res['steps']
    for st in steps:
        if st['err']:
            key = 'past-end-raises' if st['op'] == 'next' else 'raises'
            return (key, 'operation %s raised %s: %s' % (st['op'], st['err']['exc'], st['err']['msg']))
    secs = steps[0]['sections']
    if ''.join(secs) != text:
        return ('lossy-split', 'sections do not concatenate back to the file')
    if secs != res['re_split']:
        return ('split-differs', 'stored sections differ from re.split on the file')
    k = 0
    nsec = (len(secs) - 1) // 2
    file_lines = text.split('\n')
    stopped = False
    for st in steps:
        op = st['op']
        if op == 'next':
            k += 1
        if stopped and op in ('verify', 'tifa', 'run'):
            # the whole file again: any line reported is a line of the file where such a defect was planted
            kinds_ok = {'verify': ('syntax',), 'tifa': ('tifa',), 'run': ('runtime', 'tifa', 'syntax')}[op]
            planted = [l for s_, kd, l in case['plants'] if kd in kinds_ok]
            for f in st['new']:
                if f['category'] not in ('syntax', 'algorithmic', 'runtime') or f['line'] is None:
                    continue
                if op == 'tifa' and f['label'] not in ('initialization_problem', 'iterating_over_non_list', 'iterating_over_empty_list', 'append_to_non_list'):
                    continue
                if f['line'] not in planted:
                    return ('wrong-line:after-stop', 'after stop_sections, %s on the whole file: %s reports line %s; such defects sit on file lines %s'
                            % (op, f['label'], f['line'], planted))
            continue
        if op == 'stop':
            stopped = True
        if op in ('separate', 'next'):
            if k <= nsec:
                want = secs[2 * k] if case['independent'] else ''.join(secs[:2 * k + 1])
                if st['main'] != want:
                    return ('wrong-section-text', 'section %d main code is %r, expected %r' % (k, st['main'], want))
            else:
                labels = [f['label'] for f in st['new']]
                if 'not_enough_sections' not in labels:
                    return ('past-end-no-feedback', 'section %d requested, %d exist, no not_enough_sections feedback (%s)' % (k, nsec, labels))
        if op in ('stop', 'resolve'):
            if st['main'] != text:
                return ('not-restored', 'main code after %s is not the original file' % op)
        if op.startswith('call:') and k <= nsec:
            planted = [l for s, kd, l in case['plants'] if kd == 'callerr' and s == k]
            for f in st['new']:
                if f['category'] != 'runtime' or f['line'] is None:
                    continue
                if f['line'] not in planted:
                    return ('wrong-line:call-location', '%s raised inside a called student function in section %d reports line %s; '
                            'the raising line is file line %s' % (f['label'], k, f['line'], planted))
                if f['msg_lines'] and not set(f['msg_lines']) & set(planted):
                    return ('wrong-traceback-line', '%s traceback text mentions lines %s; the raising line is %s' % (f['label'], f['msg_lines'], planted))
        if op in ('verify', 'tifa', 'run') and k <= nsec:
            for f in st['new']:
                want_kind = {'verify': ('syntax_error', 'indentation_error'), 'tifa': ('initialization_problem', 'iterating_over_non_list', 'iterating_over_empty_list', 'append_to_non_list'),
                             'run': None}[op]
                if f['category'] not in ('syntax', 'algorithmic', 'runtime'):
                    continue
                if op == 'tifa' and f['label'] == 'unused_variable' and str(f.get('fields', {}).get('name', '')).startswith('unusedparam'):
                    pass      # the planted unused parameter
                elif op == 'tifa' and f['label'] not in want_kind:
                    continue
                kinds_ok = {'verify': ('syntax',), 'tifa': ('tifa',), 'run': ('runtime', 'tifa', 'syntax')}[op]
                planted = [l for s, kd, l in case['plants'] if kd in kinds_ok
                           and (s == k if case['independent'] else s <= k)]
                if f['line'] is None:
                    continue
                if f['line'] not in planted:
                    which = {'verify': 'syntax', 'tifa': 'tifa', 'run': 'runtime-location'}[op]
                    return ('wrong-line:' + which,
                            '%s in section %d reports line %s; the construct is on file line %s' % (f['label'], k, f['line'], planted))
                if op in ('verify', 'run') and f['msg_lines'] and not set(f['msg_lines']) & set(planted):
                    return ('wrong-traceback-line', '%s message mentions lines %s; planted %s' % (f['label'], f['msg_lines'], planted))
                # a section that does not compile has a single position: every line number in the text is that one
                syn_planted = [l for s, kd, l in case['plants'] if kd == 'syntax' and (s == k if case['independent'] else s <= k)]
                if op == 'run' and f['line'] in syn_planted and set(f['msg_lines']) - set(planted):
                    return ('message-quotes-section-relative-line',
                            'running section %d, which does not compile: the feedback is located on file line %s, but its text also says line %s'
                            % (k, f['line'], sorted(set(f['msg_lines']) - set(planted))))
            # every planted defect of the active kind must have been reported
            kd = {'verify': 'syntax', 'tifa': 'tifa', 'run': 'runtime'}[op]
            planted = [l for s, kd2, l in case['plants'] if kd2 == kd and (s == k if case['independent'] else s <= k)]
            got = [f['line'] for f in st['new']]
            if planted and not any(l in got for l in planted):
                # only a violation of C17 when the tool did report the construct but with another line; missing reports
                # are other properties' business (e.g. a syntax error hides later ones)
                pass
    return None


def correspondence(ctx):
    rng = ctx.rng
    n = 250 if ctx.tier == 'quick' else 3000
    cases = [gen_case(rng) for _ in range(n)]
    res = vlib.run_impl('c17_impl.py', {'cases': cases})
    items = []
    idx = []
    for ci, (case, r) in enumerate(zip(cases, res)):
        diag = sum(len(st['new']) for st in r['steps'])
        ctx.case(json.dumps(case, sort_keys=True), nontrivial=case['nsec'] >= 1 and diag >= 1,
                 sample={'file': case['file'], 'independent': case['independent'], 'steps': case['steps'],
                         'diagnostics': [(st['op'], st['new']) for st in r['steps'] if st['new']]} if diag and case['nsec'] else None)
        ctx.count('nsec=%d' % case['nsec'])
        ctx.count('mode=' + ('independent' if case['independent'] else 'cumulative'))
        for s, k, l in case['plants']:
            ctx.count('planted:' + k)
        v = oracle(case, r)
        if v:
            ctx.violation(v[0], {'case': case, 'observed': r['steps'], 'why': v[1]})
            continue
        items.append(coq_case(case, r))
        idx.append(ci)
    bad = ctx.coq_cases('sections', HEADER, items, 'check_sections', chunk=60)
    for kind, i, detail in bad[:5]:
        ci = idx[i] if kind == 'mismatch' else None
        ctx.broken.append(('correspondence', 'C17:model-vs-implementation',
                           json.dumps({'case': cases[ci] if ci is not None else None, 'detail': detail})[:3000]))
    ctx.obligation('correspondence:sections(model agrees with re.split, main code, offsets, stack depth after every operation)',
                   not bad, '%d disagreeing cases' % len(bad))
    ctx.rule = ('generated files with 0-6 section markers (adjacent, first/last line, marker look-alikes, blank lines, form feeds, '
                'CRLF), independent or cumulative mode, walks of separate/next.../stop|resolve incl. past the end, with one planted '
                'diagnostic per tool (syntax error; uninitialised read or a TIFA issue located through an explicit node: for over a non-list / an empty list, append on a non-list; 1/0) whose whole-file line is known; non-trivial = at least '
                'one marker and at least one diagnostic produced.')


def translate(ctx):
    pass


def run(ctx):
    ctx.coq_props()
    correspondence(ctx)
