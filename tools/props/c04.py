"""C04 - student-code failures are contained and reported (shares skeletons and zoo with C05)."""
from props.c05 import translate  # noqa: F401


def run(ctx):
    import sandbox_common
    translate(ctx)
    ctx.coq_props()
    sandbox_common.correspondence(ctx)
